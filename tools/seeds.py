#!/usr/bin/env python3
"""Confirm a seeded change made by a sub-agent in a scratch worktree and keep it under /verif/seeded/<id>/.
  tools/seeds.py C09 [worktree]      (default worktree /tmp/seed_<id>)
Steps: the diff touches only src/; the demo exits 1 with the change and 0 without; the pinned suite still
passes (all of BASELINE stable_pass) with the change; then the property's check runs against the worktree
(VERIF_REPO) and its result is recorded."""
import json, os, shutil, subprocess, sys, tempfile, xml.etree.ElementTree as ET
from pathlib import Path

V = Path(__file__).resolve().parent.parent
pid = sys.argv[1].upper()
args = [a for a in sys.argv[2:] if not a.startswith("--")]
wt = Path(args[0] if args else f"/tmp/seed_{pid}")
suffix = [a.split("=", 1)[1] for a in sys.argv if a.startswith("--suffix=")]
out = V / "seeded" / (pid + (suffix[0] if suffix else ""))
out.mkdir(parents=True, exist_ok=True)
env = dict(os.environ, PYTHONPATH=str(wt / "src"))


def sh(cmd, **kw):
    return subprocess.run(cmd, shell=True, capture_output=True, text=True, **kw)


diff = sh(f"git -C {wt} diff").stdout
files = sh(f"git -C {wt} diff --name-only").stdout.split()
res = {"property": pid, "files": files}
assert diff.strip() and all(f.startswith("src/") for f in files), f"unexpected diff: {files}"
(out / "patch.diff").write_text(diff)
shutil.copy(wt / "SEED_demo.py", out / "demo.py")
meta = json.loads((wt / "SEED_meta.json").read_text())
# demo with / without the change
r1 = sh(f"cd {wt} && /venv/bin/python SEED_demo.py", env=env, timeout=900)
sh(f"git -C {wt} apply -R {out / 'patch.diff'}")
try:
    r0 = sh(f"cd {wt} && /venv/bin/python SEED_demo.py", env=env, timeout=900)
finally:
    sh(f"git -C {wt} apply {out / 'patch.diff'}")
res["demo_with_change"] = {"rc": r1.returncode, "last": (r1.stdout.strip().splitlines() or [""])[-1][:400]}
res["demo_without_change"] = {"rc": r0.returncode, "last": (r0.stdout.strip().splitlines() or [""])[-1][:200]}
# the pinned suite with the change
b = json.load(open("/root/.vp/BASELINE.json"))
f = tempfile.mktemp(suffix=".xml")
sh(f"cd {wt} && /venv/bin/python -m pytest -ra -q -p no:cacheprovider --timeout=900 --continue-on-collection-errors --junitxml={f}", env=env, timeout=3000)
passed = set()
for tc in ET.parse(f).getroot().iter("testcase"):
    if not any(c.tag in ("failure", "error", "skipped") for c in tc):
        passed.add(f"{tc.get('classname')}::{tc.get('name')}")
os.unlink(f)
missing = [t for t in b["stable_pass"] if t not in passed]
res["suite"] = {"stable_pass": len(b["stable_pass"]), "missing": missing[:5]}
# the check
cenv = dict(os.environ, VERIF_REPO=str(wt), VERIF_EVIDENCE_DIR=str(wt / "SEED_ev"), VERIF_REPLAY_DIR=str(wt / "SEED_rp"))
cenv.pop("PYTHONPATH", None)
for tier in (["quick"] if "--thorough" not in sys.argv else ["quick", "thorough"]):
    c = subprocess.run([str(V / "check"), pid, "--tier", tier], capture_output=True, text=True, env=cenv, timeout=6000)
    lines = [l for l in c.stdout.splitlines() if l.startswith("VIOLATION")]
    res[f"check_{tier}"] = {"rc": c.returncode, "violation": lines[:1], "tail": c.stdout.strip().splitlines()[-1:] + c.stderr.strip().splitlines()[-2:]}
    if c.returncode == 1:
        rp = list((wt / "SEED_rp").glob("*.json"))
        if rp:
            d = json.loads(rp[0].read_text())
            res[f"check_{tier}"]["kind"] = d.get("kind")
            res[f"check_{tier}"]["stream"] = d.get("stream")
        break
shutil.rmtree(wt / "SEED_ev", ignore_errors=True)
shutil.rmtree(wt / "SEED_rp", ignore_errors=True)
meta.update({"confirmed": res, "origin": "fresh sub-agent, given only the property text and a scratch worktree",
             "how_to_run": f"git -C /repo apply seeded/{pid}/patch.diff && ./check {pid}; git -C /repo checkout -- ."})
(out / "meta.json").write_text(json.dumps(meta, indent=1, ensure_ascii=False) + "\n")
ok = (r1.returncode == 1 and r0.returncode == 0 and not missing)
caught = any(res.get(f"check_{t}", {}).get("rc") == 1 for t in ("quick", "thorough"))
print(f"{pid} valid={ok} caught={caught} demo={r1.returncode}/{r0.returncode} missing={len(missing)} check={res.get('check_quick',{}).get('rc')} {res.get('check_quick',{}).get('kind','')} {res.get('check_quick',{}).get('stream','')} :: {meta.get('summary','')[:150]}")
