"""shrink a recorded program while a predicate keeps holding.  tools/shrink.py FILE [model|spec]
model: real != Djc.Render;  spec: real != Djc.SpecRender"""
import copy, json, sys
sys.path.insert(0, "/verif")
from harness import core, tplgen, render_common as rc
core.use_repo(); core.django_setup()
doc = json.load(open(sys.argv[1]))
mode = sys.argv[2] if len(sys.argv) > 2 else "model"
prog = doc["input"] if "lib" in doc.get("input", {}) else doc["program"]


def bad(p):
    try:
        (rep, sp), = rc.batch([p])
        real = tplgen.run_real(p, limit=20.0)
    except Exception:
        return False
    return (rc.cmp_model(real, rep) if mode == "model" else rc.cmp_spec(real, sp)) is not None


def lists(p):
    """all (container, key) holding node lists"""
    out = []
    def walk(nodes_holder, key):
        out.append((nodes_holder, key))
        for nd in nodes_holder[key]:
            for k in ("a", "b", "body"):
                if k in nd:
                    walk(nd, k)
    for d in p["lib"]:
        walk(d, "template")
    walk(p["entry"], "page")
    return out


assert bad(prog), "predicate does not hold on the input"
changed = True
while changed:
    changed = False
    for i in range(len(lists(prog))):
        j = 0
        while True:
            ls = lists(prog)
            if i >= len(ls):
                break
            holder, key = ls[i]
            if j >= len(holder[key]):
                break
            trial = copy.deepcopy(prog)
            h2, k2 = lists(trial)[i]
            nd = h2[k2][j]
            # try deleting the node, else replacing it by its children
            del h2[k2][j]
            if bad(trial):
                prog = trial; changed = True
                continue
            kids = [c for k in ("a", "b", "body") if k in nd for c in nd[k]]
            if kids and nd["t"] in ("if", "with", "elem", "provide", "for"):
                trial = copy.deepcopy(prog)
                h2, k2 = lists(trial)[i]
                h2[k2][j:j + 1] = kids
                if bad(trial):
                    prog = trial; changed = True
                    continue
            j += 1
    for d in list(prog["lib"]):
        trial = copy.deepcopy(prog)
        trial["lib"] = [x for x in trial["lib"] if x["name"] != d["name"]]
        if bad(trial):
            prog = trial; changed = True
    for d in prog["lib"]:
        for k in range(len(d["data"]) - 1, -1, -1):
            trial = copy.deepcopy(prog)
            dd = [x for x in trial["lib"] if x["name"] == d["name"]][0]
            del dd["data"][k]
            if bad(trial):
                prog = trial; changed = True
for l in rc.describe(prog):
    print(l)
json.dump({"input": prog}, open("/tmp/shrunk.json", "w"))
