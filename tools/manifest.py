#!/usr/bin/env python3
"""Regenerate MANIFEST.json from tools/claims.json (one entry per claimed property)."""
import json
from pathlib import Path

V = Path(__file__).resolve().parent.parent
claims = json.loads((V / "tools" / "claims.json").read_text())
props = [json.loads(l) for l in (V / "properties.jsonl").read_text().splitlines() if l.strip()]
ids = [p["id"] for p in props]
checks = []
for pid in ids:
    c = claims["claimed"].get(pid)
    if not c:
        continue
    checks.append({
        "property_id": pid,
        "quick_cmd": f"./check {pid} --tier quick",
        "thorough_cmd": f"./check {pid} --tier thorough",
        "evidence_file": f"evidence/{pid}.json",
        "replay_cmd_template": f"./check {pid} --replay {{path}}",
        "engine": "lean4-proof+correspondence",
        "level_claimed": {"category": "proof", "text": c["text"], "design_ref": c.get("design_ref", f"DESIGN.md §8 {pid}")},
        "level_note": c["note"],
        "technique": c["technique"],
    })
na = [{"property_id": pid, "reason": claims["not_applicable"].get(pid, "check not built yet in this round; see DESIGN.md §8 for the planned model")}
      for pid in ids if pid not in claims["claimed"]]
m = {
    "version": 1,
    "setup_cmd": "cd lean && lake build",
    "hooks": {
        "guard": "DJC_VERIF",
        "enable": "no hooks are needed: every check drives the unmodified library in-process (generated component classes, sys.settrace gating, fault injection from outside)",
        "baseline_off_cmd": "cd /repo && /venv/bin/python -m pytest -ra -q -p no:cacheprovider --timeout=900 --continue-on-collection-errors",
        "source_commits": claims.get("hook_commits", []),
        "add_only": True,
    },
    "engines": [{
        "name": "lean4-proof+correspondence",
        "path": "lean/ (theorems, models, driver) + harness/ (extractor, differential correspondence, failing-input search)",
        "serves_properties": [c["property_id"] for c in checks],
        "kind_free_text": "Lean 4.33 theorems about executable models; models tied to /repo on every run by regenerated constants (Generated.lean) and a differential run of model driver vs. the real code",
    }],
    "checks": checks,
    "not_applicable": na,
    "notes": claims.get("notes", ""),
}
(V / "MANIFEST.json").write_text(json.dumps(m, indent=1) + "\n")
print("claimed", [c["property_id"] for c in checks], "not claimed", [n["property_id"] for n in na])
