#!/opt/veriftools/pyvenv/bin/python
import json, sys, glob, jsonschema
from pathlib import Path
V = Path(__file__).resolve().parent.parent
jsonschema.validate(json.load(open(V/'MANIFEST.json')), json.load(open('/root/.vp/MANIFEST.schema.json')))
es = json.load(open('/root/.vp/EVIDENCE.schema.json'))
for f in sorted(glob.glob(str(V/'evidence/*.json'))):
    jsonschema.validate(json.load(open(f)), es)
    print('ok', f)
print('manifest ok')
