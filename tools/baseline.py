#!/usr/bin/env python3
"""Run /repo's pinned suite and compare with /root/.vp/BASELINE.json stable_pass."""
import json, subprocess, sys, tempfile, xml.etree.ElementTree as ET
b = json.load(open('/root/.vp/BASELINE.json'))
f = tempfile.mktemp(suffix='.xml')
subprocess.run(['/venv/bin/python','-m','pytest','-ra','-q','-p','no:cacheprovider','--timeout=900','--continue-on-collection-errors',f'--junitxml={f}'], cwd='/repo', capture_output=True)
passed=set()
for tc in ET.parse(f).getroot().iter('testcase'):
    if not any(c.tag in ('failure','error','skipped') for c in tc):
        passed.add(f"{tc.get('classname')}::{tc.get('name')}")
missing=[t for t in b['stable_pass'] if t not in passed]
print(f"stable_pass={len(b['stable_pass'])} passed_now={len(passed)} missing={len(missing)}")
for t in missing[:20]: print("  MISSING", t)
sys.exit(1 if missing else 0)
