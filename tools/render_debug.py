"""scratch: compare the Lean render model with the real code on random programs"""
import json, random, sys
sys.path.insert(0, "/verif")
from harness import core, tplgen
core.use_repo(); core.django_setup()

import os
SPEC = os.environ.get("SPEC") == "1"

def compare(prog):
    real = tplgen.run_real(prog, limit=20.0)
    if SPEC:
        sp = core.drive([dict(tplgen.for_model(prog), op="specrender", fuel=1500)])[0]
        rep = {"spec": sp}
        if "error" in sp:
            return "driver-error", real, rep
        if sp.get("err") is None and real["err"] is None:
            if tplgen.canon_model(sp["out"]) != tplgen.canon_real(real["out"], real["hash2name"], drop_dynamic=True):
                return "spec-out", real, rep
        elif tplgen.model_err(sp.get("err")) != real["err"] and not (sp.get("err") == "fuel" and real["err"] in ("HANG", "RecursionError")):
            return "spec-err", real, rep
        return None, real, rep
    rep = core.drive([dict(tplgen.for_model(prog), op="render", fuel=1500)])[0]
    if "error" in rep:
        return "driver-error", real, rep
    if (real["err"] or rep["err"]) :
        if rep["err"] == "fuel" and real["err"] in ("HANG", "RecursionError"):
            return None, real, rep
        if tplgen.model_err(rep["err"]) != real["err"]:
            return "err", real, rep
        # events / residue on failure
        if rep["residue"] != real["residue"]:
            return "residue-fail", real, rep
        return None, real, rep
    cm = tplgen.canon_model(rep["out"]); cr = tplgen.canon_real(real["out"], real["hash2name"])
    if cm != cr:
        return "out", real, rep
    if tplgen.canon_events(rep["events"], False) != tplgen.canon_events(real["events"], True):
        return "events", real, rep
    if rep["residue"] != real["residue"]:
        return "residue", real, rep
    return None, real, rep

if __name__ == "__main__":
    n = int(sys.argv[1]); seed = int(sys.argv[2]) if len(sys.argv) > 2 else 0
    prof = json.loads(sys.argv[3]) if len(sys.argv) > 3 else {}
    bad = 0; errs = {}
    for i in range(n):
        rnd = random.Random(seed * 100003 + i)
        g = tplgen.Gen(rnd, prof)
        prog = g.program()
        kind, real, rep = compare(prog)
        errs[real["err"]] = errs.get(real["err"], 0) + 1
        if kind:
            bad += 1
            if bad <= int(os.environ.get('SHOW', '3')):
                print("=== MISMATCH", kind, "i=", i, "isolated=", prog["isolated"])
                for d in prog["lib"]:
                    print(d["name"], d["data"], "::", tplgen.p_nodes(d["template"]))
                print("PAGE", tplgen.p_nodes(prog["entry"]["page"]))
                print("CTX", prog["ctx"])
                print("REAL", real["err"], repr(real["exc"])[:300], real["out"] and tplgen.canon_real(real["out"], real["hash2name"]))
                if "spec" in rep: print("SPEC", rep["spec"].get("err"), rep["spec"].get("out") is not None and tplgen.canon_model(rep["spec"]["out"]))
                print("MODEL", rep.get("err"), rep.get("out") is not None and tplgen.canon_model(rep["out"]), rep.get("error"))
                print("EV real", tplgen.canon_events(real["events"], True)); print("EV model", tplgen.canon_events(rep.get("events", []), False))
                print("RES", real["residue"], rep.get("residue"))
    print("programs", n, "mismatches", bad, "errs", errs)
