#!/venv/bin/python
"""
Mutation self-test of the checks (development aid, DESIGN appendix C).
  tools/mut.py C18            run all mutants registered for C18
  tools/mut.py C18 3          run mutant #3 only
Each mutant is (file under src/django_components, old text, new text).  The tree is copied to a
scratch directory outside /repo and /verif, the check runs with VERIF_REPO pointing at it, and the
copy is removed.  Expected: exit 1 with a VIOLATION line on every mutant, exit 0 on the clean copy.
"""
import importlib.util, json, os, shutil, subprocess, sys, tempfile
from concurrent.futures import ThreadPoolExecutor
from pathlib import Path

VERIF = Path(__file__).resolve().parent.parent
MUTANTS = json.loads((VERIF / "tools" / "mutants.json").read_text())


def run_one(prop, idx, m, seed="1"):
    d = Path(tempfile.mkdtemp(prefix=f"djcmut_{prop}_{idx}_"))
    try:
        shutil.copytree("/repo/src", d / "src")
        if m is not None:
            f = d / "src" / "django_components" / m["file"]
            s = f.read_text()
            if s.count(m["old"]) < 1:
                return (prop, idx, "MUTANT-DOES-NOT-APPLY", "")
            f.write_text(s.replace(m["old"], m["new"], 1))
        env = dict(os.environ, VERIF_REPO=str(d), VERIF_SEED=seed, VERIF_EVIDENCE_DIR=str(d / "ev"), VERIF_REPLAY_DIR=str(d / "rp"))
        p = subprocess.run([str(VERIF / "check"), prop], capture_output=True, text=True, env=env, timeout=3000)
        lines = [l for l in p.stdout.splitlines() if l.startswith("VIOLATION") or l.startswith("KNOWN")]
        return (prop, idx, p.returncode, "; ".join(lines) + ("" if p.returncode in (0, 1) else p.stderr[-800:]))
    finally:
        shutil.rmtree(d, ignore_errors=True)


def main():
    prop = sys.argv[1].upper()
    only = int(sys.argv[2]) if len(sys.argv) > 2 else None
    ms = MUTANTS.get(prop, [])
    jobs = [(prop, "clean", None)] if only is None else []
    jobs += [(prop, i, m) for i, m in enumerate(ms) if only is None or i == only]
    # serial: checks share lean/.lake and Generated.lean
    for j in jobs:
        prop_, idx, rc, info = run_one(*j)
        desc = "clean copy" if j[2] is None else j[2].get("desc", "")
        ok = (rc == 0) if j[2] is None else (rc == j[2].get('expect', 1))
        print(f"{'OK  ' if ok else 'MISS'} {prop_} #{idx} rc={rc} {desc} :: {info[:300]}")
    # restore lean/Djc/Generated.lean to what /repo says
    subprocess.run(["/venv/bin/python", "-m", "harness.extract"], cwd=str(VERIF), capture_output=True)


if __name__ == "__main__":
    main()
