"""(re)derive the committed witnesses of the render-pipeline known findings: each is a minimal program on
which the real code differs from the property's reading (Djc.SpecRender) and agrees with the model of the
code (Djc.Render).  Usage: /venv/bin/python tools/witness.py [name…]"""
import json, sys
sys.path.insert(0, "/verif")
from harness import core, tplgen, render_common as rc
from harness.tplgen import lit, var, sval

T = lambda s: {"t": "text", "s": s}
O = lambda *p: {"t": "out", "e": var(*p)}
def slot(name, body, default=False, required=False, data=()): return {"t": "slot", "name": lit(name), "default": default, "required": required, "data": list(data), "body": body}
def fill(name, body, data=None, dflt=None): return {"t": "fill", "name": lit(name), "data": data, "dflt": dflt, "body": body}
def comp(name, body=(), kwargs=(), only=False, dyn=False): return {"t": "comp", "name": name, "kwargs": list(kwargs), "only": only, "dyn": dyn, "body": list(body)}
def prog(isolated, lib, page, ctx=()): return {"isolated": isolated, "lib": [{"name": n, "template": t, "data": d} for n, t, d in lib], "entry": {"page": page}, "ctx": list(ctx), "raise": None}
W = lambda x, e, body: {"t": "with", "x": x, "e": e, "body": body}
F = lambda x, e, body: {"t": "for", "x": x, "e": e, "body": body}
P = lambda key, kw, body: {"t": "provide", "key": key, "kwargs": kw, "body": body}

WITNESSES = {
 "C01-django-slot-owner": prog(False, [("outer", [slot("content", [])], []), ("inner", [slot("content", [slot("nested", [T("ND")])])], [])],
     [comp("outer", [fill("content", [comp("inner", [fill("nested", [T("NF")])])])])]),
 "C01-django-slot-owner-endless": prog(False, [("c0", [slot("s3", [slot("s3", [T("D")], default=True)])], [])],
     [comp("c0", [T("x"), comp("c0", [T("y")])])]),
 "C01-django-only-fill": prog(False, [("c0", [slot("s1", [])], [])], [comp("c0", [fill("s1", [O("a")])], only=True)], [["a", sval("A")]]),
 "C03-forloop-leak": prog(True, [("c0", [T("["), O("x"), O("forloop", "counter"), T("]")], [])],
     [F("x", var("xs"), [comp("c0", only=True)])], [["xs", {"l": [sval("p"), sval("q")]}]]),
 "C03-django-captured-over-data": prog(False, [("c0", [comp("c1", [W("g", lit("between"), [fill("s1", [O("g")])])])], []),
                                              ("c1", [slot("s1", [])], [["g", {"const": sval("inner")}]])],
     [comp("c0"), T("|"), comp("c1", [W("g", lit("between"), [fill("s1", [O("g")])])])]),
 "C03-isolated-captured-under-enclosing-data": prog(True, [("c1", [comp("c0", [F("b", var("one"), [fill("s1", [T("["), O("b"), T("]")])])])], [["b", {"const": sval("outer-data")}], ["one", {"const": {"l": [sval("loop")]}}]]),
                                                          ("c0", [slot("s1", [])], [])],
     [comp("c1")]),
 "C01-dynamic-deferred": prog(True, [("c0", [W("v", lit("V"), [comp("c1", [fill("s1", [T("["), O("v"), T("]")])], dyn=True)])], []),
                                     ("c1", [slot("s1", [])], [])],
     [comp("c0")]),
 "C03-captured-parentloop-aliased": prog(False, [("ca", [F("a", var("xs"), [comp("c0", [F("b", var("one"), [fill("s1", [O("forloop", "parentloop", "counter")])])])])], []),
                                                  ("c0", [T("["), slot("s1", []), T("]")], [])],
     [comp("ca")], [["xs", {"l": [sval("p"), sval("q")]}], ["one", {"l": [sval("o")]}]]),
 "C03-default-alias-sees-fill-aliases": prog(True, [("c0", [slot("s2", [T("("), slot("s3", [T("-")]), T(")")], data=[["k1", lit("v")]])], [])],
     [W("a", lit("A"), [comp("c0", [fill("s2", [O("df")], data="a", dflt="df"), fill("s3", [T("["), O("a"), T("]")])])])]),
 "C05-page-level-provider-siblings": prog(True, [("c0", [O("g", "k1")], [["g", {"inject": "pk", "dflt": None}]])],
     [P("pk", [["k1", lit("V")]], [comp("c0"), comp("c0")])]),
}

def main(names):
    core.use_repo(); core.django_setup()
    rcode = 0
    for name, p in WITNESSES.items():
        if names and name not in names:
            continue
        (rep, sp), = rc.batch([p])
        real = tplgen.run_real(p, limit=20.0)
        dm, ds = rc.cmp_model(real, rep), rc.cmp_spec(real, sp)
        pl = rc.replay_payload(p, real, rep, sp, why="witness")
        status = "OK" if (dm is None and ds is not None) else "NOT-A-WITNESS"
        if name == "C03-captured-parentloop-aliased" and rc.parentloop_only(real, rep, sp) and ds is not None:
            status = "OK"     # aliasing: the model agrees with the reading, the code differs in loop counters only
        if status != "OK":
            rcode = 1
        print(status, name, "| real:", pl["real"]["err"] or pl["real"]["out"], "| spec:", pl["spec"]["err"] or pl["spec"]["out"], "| model-vs-real:", dm)
        if status == "OK":
            json.dump({"finding": name, "source": pl["source"], "program": p, "real": pl["real"], "spec": pl["spec"], "model": pl["model"],
                       "how": "/venv/bin/python tools/witness.py " + name}, open("/verif/findings/%s.json" % name, "w"), indent=1, ensure_ascii=False)
    return rcode

def _entry():
    if "--extra" in sys.argv:
        from harness.props import c10
        c10.save_originals()
        core.use_repo(); core.django_setup()
        extra_witnesses()
        return 0
    return main(sys.argv[1:])


# ---------------------------------------------------------------- findings that are not "real != spec" on one render

def extra_witnesses():
    """C04 / C06 / C07 / C10 witnesses (fault runs, schedules, families); written to findings/"""
    import copy
    from harness.props import c04, c06, c07, c10
    out = {}
    # C06: a raising get_context_data of a nested component leaves registry entries; of a top-level one a render_context layer
    p = prog(True, [("c0", [comp("c1")], []), ("c1", [T("x")], [])], [comp("c0")])
    for name, raise_at in (("C06-error-leak", [1, 0]), ("C06-render-context-layer", [0, 0])):
        fp = dict(p, **{"raise": raise_at})
        (rep, _), = rc.batch([fp], with_spec=False)
        real = tplgen.run_real(fp, limit=20.0)
        out[name] = {"finding": name, "source": rc.describe(fp), "program": fp,
                     "real": {"err": real["err"], "registries_after": real["residue"],
                              "render_context_depth_before_after": [real.get("rc_before"), real.get("rc_after")]},
                     "model": {"err": rep["err"], "registries_after": rep["residue"], "rc_leak": rep.get("rc_leak")},
                     "agrees_with_model": rc.cmp_model(real, rep) is None}
    out["C06-exception-type"] = {"finding": "C06-exception-type (fixed 0514c3f)",
                                 "before_fix": ["KeyError(5) in get_context_data -> AttributeError: 'int' object has no attribute 'split'",
                                                "ValueError('line one\\nline two') -> message 'line two' only", "OSError(2,'x') -> AttributeError"],
                                 "after_fix": "exception class and whole message preserved; re-checked by ./check C06 (faults stream, classes 1-3)"}
    # C04: non-ASCII class name
    import random
    from django.template import Context, Template
    from django_components import render_dependencies
    tplgen.patch_ids(); tplgen.set_mode(True)
    pp = {"isolated": True, "lib": [{"name": "c0", "template": [T("x")], "data": [], "clsname": "Ünï_witness", "pyattrs": {"js": "/*JS*/"}}],
          "entry": {"page": [comp("c0")]}, "ctx": [], "raise": None}
    b = tplgen.Built(pp, tplgen.Recorder(None))
    try:
        h0 = str(Template("<body>" + tplgen.p_nodes(pp["entry"]["page"]) + "</body>").render(Context()))
        fin = str(render_dependencies(h0))
    finally:
        b.close()
    out["C04-non-ascii-class"] = {"finding": "C04-non-ascii-class", "class_name": "Ünï_witness", "page_before_dependencies": h0, "final": fin,
                                  "marker_survives": "_RENDERED" in fin, "js_delivered": "/*JS*/" in fin}
    # C10: a component that extends a base, nested in its own fill
    blk = lambda n, body: {"t": "block", "name": n, "body": body}
    fam = {"card_base": [T("["), blk("title", [T("DECOY")]), T("]"), blk("body", [T("DECOY2")])]}
    lib = [{"name": "card", "data": [], "template": [{"t": "extends", "parent": "card_base"}, blk("title", [T("Fancy")]),
                                                      blk("body", [slot("s1", [T("d")], default=True)])]}]
    page = [comp("card", [comp("card")])]
    famprog = {"isolated": False, "lib": lib, "entry": {"page": page}, "ctx": [], "raise": None}
    rep = core.drive([{"op": "flatten", "family": [[k, v] for k, v in fam.items()] + [["card", lib[0]["template"]], ["__page__", page]], "roots": ["card", "__page__"]}])[0]
    flat = copy.deepcopy(famprog); flat["lib"][0]["template"] = rep["flat"][0]; flat["entry"]["page"] = rep["flat"][1]
    from django.template import engines
    loader = engines["django"].engine.template_loaders[0]
    loader.templates_dict["card_base"] = c10.p_family(fam["card_base"])
    old = tplgen.p_nodes
    try:
        tplgen.p_nodes = c10.p_family
        a = tplgen.run_real(famprog, limit=20.0)
    finally:
        tplgen.p_nodes = old
        loader.templates_dict.pop("card_base", None)
    bb = tplgen.run_real(flat, limit=20.0)
    out["C10-shared-block-names"] = {"finding": "C10-shared-block-names", "family": {"card_base": c10.p_family(fam["card_base"]), "card": c10.p_family(lib[0]["template"]),
                                     "page": c10.p_family(page)}, "family_output": a["err"] or tplgen.canon_real(a["out"], a["hash2name"]),
                                     "flattened_output": bb["err"] or tplgen.canon_real(bb["out"], bb["hash2name"])}
    # C07: first failing schedules found by the scheduler
    class Grab:
        def __init__(self): self.hits = {}; self.violations = []
        def count(self, *a, **k): pass
        def branch(self, *a): pass
        def nontrivial(self, *a): pass
        def errkind(self, *a): pass
        def known_hit(self, slug, detail=None): self.hits.setdefault(slug, detail)
        def violation(self, *a, **k): self.violations.append((a, k))
    g = Grab()
    c07.explore(g, "healthy", 12, [3, 25, 80], 6, failing=False)
    c07.explore(g, "failing", 6, [3, 25, 80], 6, failing=True)
    c07.run_lru(g, 6)
    for slug, fname in (("provide-bookkeeping-races", "C07-provide-race-schedule"), ("error-path-unregisters-other-threads-references", "C07-error-path-schedule"),
                        ("lru-cache-not-thread-safe", "C07-lru-schedule")):
        if slug in g.hits:
            d = g.hits[slug]
            if "programs" in d:
                d = dict(d, source=[l for p_ in d["programs"] for l in rc.describe(p_)])
            out[fname] = {"finding": fname, "how": "replayed exactly by harness/sched.py (deterministic line-level scheduler)", **d}
    for name, doc in out.items():
        json.dump(doc, open("/verif/findings/%s.json" % name, "w"), indent=1, ensure_ascii=False, default=str)
        print("WROTE", name, {k: (str(v)[:100]) for k, v in doc.items() if k in ("agrees_with_model", "marker_survives", "family_output", "flattened_output", "schedule", "real")})


if __name__ == "__main__":
    sys.exit(_entry())
