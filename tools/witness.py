"""(re)derive the committed witnesses of the render-pipeline known findings: each is a minimal program on
which the real code differs from the property's reading (Djc.SpecRender) and agrees with the model of the
code (Djc.Render).  Usage: /venv/bin/python tools/witness.py [name…]"""
import json, sys
sys.path.insert(0, "/verif")
from harness import core, tplgen, render_common as rc
from harness.tplgen import lit, var, sval

T = lambda s: {"t": "text", "s": s}
O = lambda *p: {"t": "out", "e": var(*p)}
def slot(name, body, default=False, required=False, data=()): return {"t": "slot", "name": lit(name), "default": default, "required": required, "data": list(data), "body": body}
def fill(name, body, data=None, dflt=None): return {"t": "fill", "name": lit(name), "data": data, "dflt": dflt, "body": body}
def comp(name, body=(), kwargs=(), only=False, dyn=False): return {"t": "comp", "name": name, "kwargs": list(kwargs), "only": only, "dyn": dyn, "body": list(body)}
def prog(isolated, lib, page, ctx=()): return {"isolated": isolated, "lib": [{"name": n, "template": t, "data": d} for n, t, d in lib], "entry": {"page": page}, "ctx": list(ctx), "raise": None}
W = lambda x, e, body: {"t": "with", "x": x, "e": e, "body": body}
F = lambda x, e, body: {"t": "for", "x": x, "e": e, "body": body}
P = lambda key, kw, body: {"t": "provide", "key": key, "kwargs": kw, "body": body}

WITNESSES = {
 "C01-django-slot-owner": prog(False, [("outer", [slot("content", [])], []), ("inner", [slot("content", [slot("nested", [T("ND")])])], [])],
     [comp("outer", [fill("content", [comp("inner", [fill("nested", [T("NF")])])])])]),
 "C01-django-slot-owner-endless": prog(False, [("c0", [slot("s3", [slot("s3", [T("D")], default=True)])], [])],
     [comp("c0", [T("x"), comp("c0", [T("y")])])]),
 "C01-django-only-fill": prog(False, [("c0", [slot("s1", [])], [])], [comp("c0", [fill("s1", [O("a")])], only=True)], [["a", sval("A")]]),
 "C03-forloop-leak": prog(True, [("c0", [T("["), O("x"), O("forloop", "counter"), T("]")], [])],
     [F("x", var("xs"), [comp("c0", only=True)])], [["xs", {"l": [sval("p"), sval("q")]}]]),
 "C03-django-captured-over-data": prog(False, [("c0", [comp("c1", [W("g", lit("between"), [fill("s1", [O("g")])])])], []),
                                              ("c1", [slot("s1", [])], [["g", {"const": sval("inner")}]])],
     [comp("c0"), T("|"), comp("c1", [W("g", lit("between"), [fill("s1", [O("g")])])])]),
 "C01-dynamic-deferred": prog(True, [("c0", [W("v", lit("V"), [comp("c1", [fill("s1", [T("["), O("v"), T("]")])], dyn=True)])], []),
                                     ("c1", [slot("s1", [])], [])],
     [comp("c0")]),
 "C05-page-level-provider-siblings": prog(True, [("c0", [O("g", "k1")], [["g", {"inject": "pk", "dflt": None}]])],
     [P("pk", [["k1", lit("V")]], [comp("c0"), comp("c0")])]),
}

def main(names):
    core.use_repo(); core.django_setup()
    rcode = 0
    for name, p in WITNESSES.items():
        if names and name not in names:
            continue
        (rep, sp), = rc.batch([p])
        real = tplgen.run_real(p, limit=3.0)
        dm, ds = rc.cmp_model(real, rep), rc.cmp_spec(real, sp)
        pl = rc.replay_payload(p, real, rep, sp, why="witness")
        status = "OK" if (dm is None and ds is not None) else "NOT-A-WITNESS"
        if status != "OK":
            rcode = 1
        print(status, name, "| real:", pl["real"]["err"] or pl["real"]["out"], "| spec:", pl["spec"]["err"] or pl["spec"]["out"], "| model-vs-real:", dm)
        if status == "OK":
            json.dump({"finding": name, "source": pl["source"], "program": p, "real": pl["real"], "spec": pl["spec"], "model": pl["model"],
                       "how": "/venv/bin/python tools/witness.py " + name}, open("/verif/findings/%s.json" % name, "w"), indent=1, ensure_ascii=False)
    return rcode

if __name__ == "__main__":
    sys.exit(main(sys.argv[1:]))
