#!/venv/bin/python
"""Development tool (never run by a check): record what the unchanged tree prints for the fixed families of
harness/props/c10.py: pinned_cases() into findings/C10-pinned.json.  Only cases that differ from their flattening
are recorded (the others need no pin)."""
import json, sys
from pathlib import Path
V = Path(__file__).resolve().parent.parent
sys.path.insert(0, str(V))
from harness import core
from harness.props import c10
c10.save_originals()
core.use_repo(); core.django_setup()
out = {}
for name, fam, lib, page, isolated in c10.pinned_cases():
    famprog, oa, ob = c10.family_vs_flat(fam, lib, page, isolated)
    print(name, "| family:", str(oa)[:160], "| flattened:", str(ob)[:160])
    if oa != ob:
        out[name] = oa
(V / "findings" / "C10-pinned.json").write_text(json.dumps(out, indent=1, ensure_ascii=False) + "\n")
