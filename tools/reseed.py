#!/usr/bin/env python3
"""Re-run the property's quick check against every kept seeded change (seeded/<id>/patch.diff).
  tools/reseed.py [C03 C07 ...]        (default: all)
One scratch worktree of /repo per job under /tmp (removed afterwards); the patch is applied there, the check runs with
VERIF_REPO pointing at it; expected: exit 1 with a VIOLATION line.  Prints one line per seed; exit 1 when one is missed."""
import json, os, subprocess, sys, shutil
from concurrent.futures import ThreadPoolExecutor
from pathlib import Path

V = Path(__file__).resolve().parent.parent
want = [a.upper() for a in sys.argv[1:] if not a.startswith("--")]
seeds = sorted(d.name for d in (V / "seeded").iterdir() if (d / "patch.diff").exists() and (not want or d.name.split("-")[0] in want))
jobs = int(next((a.split("=")[1] for a in sys.argv if a.startswith("--jobs=")), "4"))


def sh(cmd, **kw):
    return subprocess.run(cmd, shell=True, capture_output=True, text=True, **kw)


def one(seed):
    pid = seed.split("-")[0]
    wt = Path(f"/tmp/reseed_{seed}")
    sh(f"git -C /repo worktree remove --force {wt}")
    r = sh(f"git -C /repo worktree add --detach {wt} HEAD")
    try:
        a = sh(f"git -C {wt} apply {V / 'seeded' / seed / 'patch.diff'}")
        if a.returncode:
            return seed, "patch-does-not-apply", a.stderr[-200:]
        env = dict(os.environ, VERIF_REPO=str(wt), VERIF_EVIDENCE_DIR=str(wt / "SEED_ev"), VERIF_REPLAY_DIR=str(wt / "SEED_rp"))
        env.pop("PYTHONPATH", None)
        c = subprocess.run([str(V / "check"), pid], capture_output=True, text=True, env=env, timeout=6000)
        vio = [l for l in c.stdout.splitlines() if l.startswith("VIOLATION")]
        kind = ""
        for f in sorted((wt / "SEED_rp").glob("*.json"))[:1]:
            d = json.load(open(f))
            kind = "%s %s" % (d.get("kind"), d.get("stream"))
        return seed, "caught" if c.returncode == 1 and vio else "MISSED rc=%d" % c.returncode, kind
    finally:
        sh(f"git -C /repo worktree remove --force {wt}")
        shutil.rmtree(wt, ignore_errors=True)


bad = 0
with ThreadPoolExecutor(jobs) as ex:
    for seed, verdict, info in ex.map(one, seeds):
        print(seed, verdict, info, flush=True)
        bad += verdict != "caught"
sh("git -C /repo worktree prune")
sys.exit(1 if bad else 0)
