"""Deterministic scheduler for threads of the real code (C07).

Every task runs in its own thread under `sys.settrace`; at every *line* of the gated source files the
thread reaches a yield point, where the controller decides which thread runs next.  Exactly one thread
runs at a time, so a schedule (a function of the per-thread step counters) replays exactly.

No wall-clock scheduling is involved; a watchdog only turns a stuck schedule (a parked thread holding a
lock another thread needs) into a skipped schedule.
"""
import sys
import threading


class Stuck(Exception):
    pass


class Scheduler:
    def __init__(self, tasks, gated, policy, max_steps=200000):
        self.tasks = tasks
        self.gated = tuple(gated)
        self.policy = policy              # policy(sched, tid) -> tid that runs next
        self.cv = threading.Condition()
        self.turn = 0
        self.steps = [0] * len(tasks)
        self.finished = [False] * len(tasks)
        self.results = [None] * len(tasks)
        self.trace = []                   # (tid, file:line) of every switch
        self.max_steps = max_steps
        self.stuck = False

    # ---- inside worker threads
    def _tracer(self, tid):
        def line_tracer(frame, event, arg):
            if event == "line":
                self._yield(tid, frame)
            return line_tracer

        def tracer(frame, event, arg):
            if event == "call" and frame.f_code.co_filename.endswith(self.gated):
                return line_tracer
            return None
        return tracer

    def _yield(self, tid, frame):
        with self.cv:
            self.steps[tid] += 1
            if sum(self.steps) > self.max_steps:
                self.stuck = True
                self.cv.notify_all()
                raise Stuck()
            nxt = self.policy(self, tid)
            if nxt != tid and not self.finished[nxt]:
                self.trace.append((tid, self.steps[tid], "%s:%d" % (frame.f_code.co_filename.rsplit("/", 1)[-1], frame.f_lineno)))
                self.turn = nxt
                self.cv.notify_all()
                self._wait(tid)

    def _wait(self, tid):
        while self.turn != tid and not self.stuck:
            if not self.cv.wait(timeout=20.0):
                self.stuck = True
                self.cv.notify_all()
                raise Stuck()
        if self.stuck:
            raise Stuck()

    def _worker(self, tid):
        with self.cv:
            try:
                self._wait(tid)
            except Stuck:
                return
        sys.settrace(self._tracer(tid))
        try:
            self.results[tid] = ("ok", self.tasks[tid]())
        except Stuck:
            self.results[tid] = ("stuck", None)
        except BaseException as e:  # noqa
            self.results[tid] = ("err", e)
        finally:
            sys.settrace(None)
            with self.cv:
                self.finished[tid] = True
                for other in range(len(self.tasks)):
                    if not self.finished[other]:
                        self.turn = other
                        break
                self.cv.notify_all()

    def run(self):
        threads = [threading.Thread(target=self._worker, args=(i,), daemon=True) for i in range(len(self.tasks))]
        for t in threads:
            t.start()
        for t in threads:
            t.join(timeout=120.0)
        if any(t.is_alive() for t in threads):
            self.stuck = True
            with self.cv:
                self.cv.notify_all()
        return self.results


def segments(plan):
    """plan = [(tid, nsteps), …]: run tid for nsteps gated lines, then the next segment; afterwards the
    remaining threads run to completion in index order"""
    state = {"i": 0, "left": plan[0][1] if plan else 0}

    def policy(s, tid):
        if state["i"] < len(plan):
            want, _ = plan[state["i"]]
            if tid == want:
                state["left"] -= 1
                if state["left"] <= 0:
                    state["i"] += 1
                    while state["i"] < len(plan) and s.finished[plan[state["i"]][0]]:
                        state["i"] += 1
                    if state["i"] < len(plan):
                        state["left"] = plan[state["i"]][1]
                        return plan[state["i"]][0]
                    return next((k for k in range(len(s.tasks)) if not s.finished[k]), tid)
                return tid
            if s.finished[want]:
                state["i"] += 1
                if state["i"] < len(plan):
                    state["left"] = plan[state["i"]][1]
                return tid
            return want
        return tid
    return policy


def random_priorities(rnd, p_switch):
    def policy(s, tid):
        if rnd.random() < p_switch:
            alive = [k for k in range(len(s.tasks)) if not s.finished[k]]
            return rnd.choice(alive) if alive else tid
        return tid
    return policy
