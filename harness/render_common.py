"""Shared machinery of the render-pipeline checks (C01, C03, C05, C06, C14, C04).

For every generated program three results are computed:
  real   the implementation in /repo (harness.tplgen.run_real)
  model  Djc.Render (the operational Lean model of the code) through the driver op "render"
  spec   Djc.SpecRender (the property's reading) through the driver op "specrender"
and classified:
  real == spec                      the property holds on this input
  real != spec, real == model,      a listed known finding (the deviation is the one the model of the
     program in a known region      unchanged code predicts) -> KNOWN-FINDING
  real != spec otherwise            VIOLATION with the program as replay
  real != model                     the correspondence is broken (recorded; decides "no-failing-input-found"
                                    when no violation is found)
"""
import json

from . import core, tplgen

FUEL = 1500
DIVERGE = ("HANG", "RecursionError", "DIVERGED")


def nodes_of(prog):
    out = []
    for d in prog["lib"]:
        out += list(tplgen.walk(d["template"]))
    if "page" in prog["entry"]:
        out += list(tplgen.walk(prog["entry"]["page"]))
    return out


def page_nodes(prog):
    return list(tplgen.walk(prog["entry"].get("page", [])))


def lib_nodes(prog):
    out = []
    for d in prog["lib"]:
        out += list(tplgen.walk(d["template"]))
    return out


# ---- static regions of the known findings (the exact behaviour is pinned by real == model)

def r_django_nested(prog):
    return (not prog["isolated"]) and any(n["t"] == "comp" for n in lib_nodes(prog) + [
        m for n in page_nodes(prog) if n["t"] == "comp" for m in tplgen.walk(n["body"])])


def r_django_only_fill(prog):
    return (not prog["isolated"]) and any(n["t"] == "comp" and n["only"] and n["body"] for n in nodes_of(prog))


def r_forloop_leak(prog):
    ns = nodes_of(prog)
    return any(n["t"] == "for" for n in ns) and (prog["isolated"] or any(n["t"] == "comp" and n["only"] for n in ns))


def r_dynamic(prog):
    return any(n["t"] == "comp" and n["dyn"] for n in nodes_of(prog))


def r_page_provider(prog):
    return any(n["t"] == "provide" for n in page_nodes(prog))


def r_any_provider(prog):
    return any(n["t"] == "provide" for n in nodes_of(prog))


def r_django_captured(prog):
    def fill_under_ctl(nodes, under):
        for n in nodes:
            if n["t"] == "fill" and under:
                return True
            if n["t"] in ("with", "for") and fill_under_ctl(n["body"], True):
                return True
            if n["t"] == "if" and (fill_under_ctl(n["a"], under) or fill_under_ctl(n["b"], under)):
                return True
        return False
    return (not prog["isolated"]) and any(n["t"] == "comp" and fill_under_ctl(n["body"], False) for n in nodes_of(prog))


def r_isolated_captured_under_data(prog):
    """isolated mode: a component tag written in component d's template, a fill under a {% with %} / {% for %} that
    binds a name d's data also defines"""
    def bound_over_fill(nodes, bound):
        for n in nodes:
            if n["t"] == "fill" and bound:
                yield set(bound)
            elif n["t"] in ("with", "for"):
                yield from bound_over_fill(n["body"], bound + [n["x"]])
            elif n["t"] == "if":
                yield from bound_over_fill(n["a"], bound)
                yield from bound_over_fill(n["b"], bound)
    if not prog["isolated"]:
        return False
    for d in prog["lib"]:
        names = {k for k, _ in d["data"]}
        for n in tplgen.walk(d["template"]):
            if n["t"] == "comp" and any(b & names for b in bound_over_fill(n["body"], [])):
                return True
    return False


def r_parentloop_in_fill(prog):
    for n in nodes_of(prog):
        if n["t"] == "fill":
            for m in tplgen.walk(n["body"]):
                if m["t"] == "out" and m["e"].get("var", [])[:2] == ["forloop", "parentloop"]:
                    return True
    return False


def r_default_alias_print(prog):
    """a fill binds the slot-default alias and prints it"""
    for n in nodes_of(prog):
        if n["t"] == "fill" and n.get("dflt"):
            for m in tplgen.walk(n["body"]):
                if m["t"] == "out" and m["e"].get("var", [None])[0] == n["dflt"]:
                    return True
    return False


def _nodigits(s):
    return "".join(ch for ch in s if not ch.isdigit()) if isinstance(s, str) else s


def parentloop_only(real, rep, sp):
    """the code differs from model and reading only in digits (loop counters), model = reading"""
    if real["err"] or rep.get("err") or sp is None or sp.get("err") or "error" in rep or "error" in sp:
        return False
    a = tplgen.canon_real(real["out"], real["hash2name"])
    b = tplgen.canon_model(rep["out"])
    c = tplgen.canon_model(sp["out"])
    d = tplgen.canon_real(real["out"], real["hash2name"], drop_dynamic=True)
    return _nodigits(a) == _nodigits(b) and _nodigits(d) == _nodigits(c)


REGIONS = {
    "captured-parentloop-aliased": r_parentloop_in_fill,
    "default-alias-render-sees-fill-aliases": lambda p: p["isolated"] and r_default_alias_print(p),
    "django-captured-over-data": r_django_captured,
    "isolated-captured-under-enclosing-data": r_isolated_captured_under_data,
    "django-slot-owner-override": r_django_nested,
    "django-only-fill-loses-outer": r_django_only_fill,
    "forloop-layer-leaks-into-isolated": r_forloop_leak,
    "dynamic-deferred-context": r_dynamic,
    "provider-without-enclosing-component": r_page_provider,
}


def requests_for(prog, with_spec=True):
    m = tplgen.for_model(prog)
    fuel = prog.get("fuel", FUEL)
    reqs = [dict(m, op="render", fuel=fuel)]
    if with_spec:
        reqs.append(dict(m, op="specrender", fuel=fuel))
    return reqs


def same_err(model_err, real_err):
    if model_err == "fuel":
        return real_err in DIVERGE
    return tplgen.model_err(model_err) == real_err


def cmp_model(real, rep, check_events=True):
    """None when the model of the code and the code agree on every observable"""
    if "error" in rep:
        return "driver-error:" + rep["error"]
    if rep.get("err") == "budget":
        return None                     # not judged (see classify)
    if real["err"] or rep["err"]:
        if not same_err(rep["err"], real["err"]):
            return "error-class model=%s real=%s" % (rep["err"], real["err"])
        if rep["err"] == "fuel":
            return None
        if "rc_before" in real and real["rc_after"] - real["rc_before"] != rep.get("rc_leak", 0):
            return "render_context depth change model=%s real=%s" % (rep.get("rc_leak"), real["rc_after"] - real["rc_before"])
        if rep["residue"] != real["residue"]:
            return "residue-after-error model=%s real=%s" % (rep["residue"], real["residue"])
        if check_events and tplgen.canon_events(rep["events"], False) != tplgen.canon_events(real["events"], True):
            return "events-before-error"
        return None
    cm = tplgen.canon_model(rep["out"])
    cr = tplgen.canon_real(real["out"], real["hash2name"])
    if cm != cr:
        return "output"
    if check_events and tplgen.canon_events(rep["events"], False) != tplgen.canon_events(real["events"], True):
        return "events"
    if rep["residue"] != real["residue"]:
        return "residue model=%s real=%s" % (rep["residue"], real["residue"])
    if "rc_before" in real and real["rc_after"] - real["rc_before"] != rep.get("rc_leak", 0):
        return "render_context depth change model=%s real=%s" % (rep.get("rc_leak"), real["rc_after"] - real["rc_before"])
    return None


def cmp_spec(real, sp):
    """None when the code does what the property's reading says"""
    if "error" in sp:
        return "driver-error:" + sp["error"]
    if sp.get("err") == "budget":
        return None
    if sp["err"] is None and real["err"] is None:
        a = tplgen.canon_model(sp["out"])
        b = tplgen.canon_real(real["out"], real["hash2name"], drop_dynamic=True)
        return None if a == b else "output"
    if same_err(sp["err"], real["err"]):
        return None
    return "error spec=%s real=%s" % (sp["err"], real["err"])


def describe(prog):
    lines = ["mode=" + ("isolated" if prog["isolated"] else "django")]
    for d in prog["lib"]:
        lines.append("%s data=%s :: %s" % (d["name"], json.dumps(d["data"]), tplgen.p_nodes(d["template"])))
    if "page" in prog["entry"]:
        lines.append("PAGE " + tplgen.p_nodes(prog["entry"]["page"]))
    else:
        lines.append("ENTRY " + json.dumps(prog["entry"]))
    lines.append("CTX " + json.dumps(prog["ctx"]))
    if prog.get("raise"):
        lines.append("RAISE %s" % (prog["raise"],))
    return lines


def replay_payload(prog, real, rep=None, sp=None, why=""):
    out = {"why": why, "program": prog, "source": describe(prog),
           "real": {"err": real["err"], "exc": repr(real.get("exc"))[:400],
                    "out": real["out"] and tplgen.canon_real(real["out"], real["hash2name"]),
                    "residue": real["residue"]}}
    if rep is not None and "error" not in rep:
        out["model"] = {"err": rep["err"], "out": rep["out"] is not None and tplgen.canon_model(rep["out"]),
                        "residue": rep.get("residue")}
    if sp is not None and "error" not in sp:
        out["spec"] = {"err": sp["err"], "out": sp["out"] is not None and tplgen.canon_model(sp["out"])}
    return out


def classify(chk, stream, prog, real, rep, sp, regions):
    """apply the decision protocol to one program; returns 'ok' | 'known' | 'violation' | 'disagree' | 'skipped'"""
    if (rep is not None and rep.get("err") == "budget") or (sp is not None and sp.get("err") == "budget"):
        # more work than the driver does for one program (exponentially repeated slots): not judged
        chk.count("skipped/over-budget", 0)
        chk.errkind("skipped:over-budget")
        return "skipped"
    dm = cmp_model(real, rep) if rep is not None else None
    ds = cmp_spec(real, sp) if sp is not None else None
    if dm == "output" and ds == "output" and "captured-parentloop-aliased" in regions and r_parentloop_in_fill(prog) \
            and parentloop_only(real, rep, sp):
        # a defect of the code the functional model cannot exhibit (aliased dict): pinned by "only loop counters differ"
        chk.known_hit("captured-parentloop-aliased", describe(prog))
        return "known"
    if dm is not None:
        chk.count("model_impl_disagreements", 0)
        if len([v for v in chk.violations if v["kind"] == "model-impl-disagree"]) < 3:
            pl = replay_payload(prog, real, rep, sp, why=dm)
            chk.violation("model-impl-disagree", stream, pl["program"], impl=pl["real"], model=pl.get("model"),
                          spec=pl.get("spec"), note=dm + " || " + " || ".join(pl["source"]))
    if ds is None:
        return "ok" if dm is None else "disagree"
    if dm is None:
        for slug in regions:
            if REGIONS[slug](prog):
                chk.known_hit(slug, describe(prog))
                return "known"
    if len([v for v in chk.violations if v["kind"] == "impl-violates-spec"]) < 5:
        pl = replay_payload(prog, real, rep, sp, why=ds)
        chk.violation("impl-violates-spec", stream, pl["program"], impl=pl["real"], model=pl.get("model"),
                      spec=pl.get("spec"), note=ds + " || " + " || ".join(pl["source"]))
    return "violation"


def batch(progs, with_spec=True):
    reqs = []
    for p in progs:
        reqs += requests_for(p, with_spec)
    reps = core.drive(reqs)
    k = 2 if with_spec else 1
    return [(reps[i * k], reps[i * k + 1] if with_spec else None) for i in range(len(progs))]




def replay(prop, doc):
    """./check Cxx --replay FILE for the render-pipeline properties: the recorded program is rendered again by
    the real code, the model of the code and the reading of the property; exit 1 when the real code still
    differs from the reading (VIOLATION line), 0 when it does not"""
    core.use_repo()
    core.django_setup()
    prog = doc.get("input")
    if not isinstance(prog, dict) or "lib" not in prog:
        print("%s: this replay does not hold a single program (stream %s); recorded case:" % (prop, doc.get("stream")))
        print(json.dumps({k: doc.get(k) for k in ("input", "impl", "model", "spec", "note")}, indent=1, ensure_ascii=False, default=str)[:6000])
        return 2
    (rep, sp), = batch([prog])
    real = tplgen.run_real(prog, limit=5.0)
    dm, ds = cmp_model(real, rep), cmp_spec(real, sp)
    if rep.get("err") == "budget" or sp.get("err") == "budget":
        print("%s: this program is over the work budget of the driver (not judged)" % prop)
        return 0
    for line in describe(prog):
        print(line)
    pl = replay_payload(prog, real, rep, sp)
    print("REAL ", pl["real"]["err"] or pl["real"]["out"])
    print("MODEL", pl.get("model", {}).get("err") or pl.get("model", {}).get("out"), "(agrees with the code)" if dm is None else "(DIFFERS: %s)" % dm)
    print("SPEC ", pl.get("spec", {}).get("err") or pl.get("spec", {}).get("out"), "(the code does what the property says)" if ds is None else "(VIOLATED: %s)" % ds)
    if ds is not None:
        print("VIOLATION property=%s replay=%s" % (prop, doc.get("how", "").split("--replay ")[-1]))
        return 1
    return 0
