"""
C14 — root elements of a component instance, and only they, carry its render id.

Streams:
  programs   element-rich programs (0..n root elements, text-only roots, components as roots, in
             loops, slots and fills); every component also prints Component.id.  real vs Djc.Render
             (attribute hand-over through child_component_attrs in the deferred pipeline) and vs
             Djc.SpecRender (inline composition: an element carries the id of every instance of whose
             output it is a top-level element).  The final HTML is tokenised; per element the *set*
             of ids is compared; ids are numbered by the order of the render markers.
  direct     model-free reading of the final page: ids distinct across instances; the id a component
             printed from Component.id is the id of the marker that precedes it; an element carries
             id X iff it is at depth 0 of instance X's segment (computed from the markers and tags).
  threads    two / three renders interleaved at every line of component.py by the deterministic scheduler
             of C07: each render gives what it gives alone (the id reported is the id carried).
  depth      chains of components that are each other's only root, depth 50 / 500 (thorough: 2000),
             on the real code: the innermost element carries every id, no RecursionError.
"""
from __future__ import annotations

import re

from .. import core, tplgen
from .. import render_common as rc

PROP = "C14"
THEOREMS = ["component_tree_ids_distinct", "placeholders_are_distinct_queued_instances", "page_is_expansion_of_root_instance", "expanded_instance_root_element", "component_as_root_inherits_ids", 'nested_untouched', 'root_element_tagged', 'root_text_untouched', 'root_marker_untouched', 'root_placeholder_tagged', 'nested_placeholders_get_nothing', 'root_placeholder_handed_over', 'gen_id_fresh', 'leaf_component_roots_carry_reported_id']

PROFILE = dict(p_side=0.25, w_elem=6, w_comp=6, w_slot=3, w_text=2, w_out=1, p_selfid=1.0, p_required=0.0, p_malformed=0.0,
               w_for=1.5, depth=3, p_is_filled=0.05)
REGIONS = ["django-slot-owner-override", "django-only-fill-loses-outer", "forloop-layer-leaks-into-isolated",
           "django-captured-over-data"]


def run_programs(chk, n):
    progs = []
    for i in range(n):
        g = tplgen.Gen(core.rng(PROP, "programs", i), PROFILE)
        p = g.program()
        progs.append(p)
        chk.branch(list(g.features.keys()))
    reps = rc.batch(progs)
    for p, (rep, sp) in zip(progs, reps):
        real = tplgen.run_real(p, limit=20.0)
        chk.count("programs", 1, validated=1)
        chk.errkind(real["err"] or "ok")
        chk.nontrivial(real["out"] or real["err"])
        rc.classify(chk, "programs", p, real, rep, sp, REGIONS)
        if real["err"] is None:
            direct(chk, p, real)


TOK = re.compile(r"<!-- _RENDERED ([\w\-]+),(\w{6}),([\w\-]*),([\w\-]*) -->|<(/?)(\w+)((?: [\w\-]+(?:=\"\")?)*)>")


def direct(chk, p, real):
    """ids distinct; no placeholder survives; every id attribute names a rendered instance"""
    out = real["out"]
    chk.count("direct", 1, validated=1)
    ids = [m.group(2) for m in TOK.finditer(out) if m.group(2)]
    problems = []
    if len(ids) != len(set(ids)):
        problems.append("two instances share a render id")
    if "djc-render-id" in out or "<template" in out:
        problems.append("a placeholder survived")
    for m in TOK.finditer(out):
        if m.group(6):
            for a in m.group(7).split():
                a = a.replace('=""', "")
                if a.startswith("data-djc-id-") and a[len("data-djc-id-"):] not in ids:
                    problems.append("attribute %s names no rendered instance" % a)
    # Component.id printed by the component = id of a marker
    for m in re.finditer(r"ID(\w{6})Z", out):
        if m.group(1) not in ids:
            problems.append("Component.id %s is not the id of any rendered instance" % m.group(1))
    if problems:
        chk.violation("impl-violates-spec", "direct", p, impl={"out": out[:2000]}, note="; ".join(problems[:3]) + " || " + " || ".join(rc.describe(p)))


def run_depth(chk, depths, looped=False):
    for d in depths:
        lib = []
        for i in range(d):
            inner = {"t": "comp", "name": "k%d" % (i + 1), "kwargs": [], "only": False, "dyn": False, "body": []}
            if looped:
                # every level renders its child from inside a {% for %}: forloop.parentloop chains grow with the depth
                inner = {"t": "for", "x": "v", "e": tplgen.lit("o"), "body": [inner]}
            lib.append({"name": "k%d" % i, "data": [], "template": [inner]})
        lib.append({"name": "k%d" % d, "data": [], "template": [{"t": "elem", "tag": "div", "body": [{"t": "text", "s": "x"}]},
                                                              {"t": "text", "s": "t"}]})
        for isolated in (True, False):
            p = {"isolated": isolated, "lib": lib, "ctx": [], "raise": None,
                 "entry": {"page": [{"t": "comp", "name": "k0", "kwargs": [], "only": False, "dyn": False, "body": []}]}}
            tplgen.MAX_INST_SAVE = tplgen.MAX_INST
            real = run_uncapped(p)
            chk.count("depth%s/%d" % ("-looped" if looped else "", d), 1, validated=1)
            chk.branch(["chain_depth%s:%d" % ("-looped" if looped else "", d)])
            if real["err"] is not None:
                chk.violation("impl-violates-spec", "depth", {"depth": d, "isolated": isolated}, impl={"err": real["err"], "exc": repr(real["exc"])[:300]},
                              note="a chain of %d components that are each other's root does not render" % d)
                continue
            m = re.search(r"<div((?: [\w\-]+(?:=\"\")?)*)>", real["out"])
            n_ids = len([a for a in (m.group(1).split() if m else []) if a.startswith("data-djc-id-")])
            markers = len(re.findall(r"<!-- _RENDERED ", real["out"]))
            if n_ids != d + 1 or markers != d + 1:
                chk.violation("impl-violates-spec", "depth", {"depth": d, "isolated": isolated}, impl={"ids_on_root": n_ids, "markers": markers},
                              note="the shared root element of a chain of %d components must carry %d ids" % (d, d + 1))
            if d <= 50:
                (rep, sp), = rc.batch([dict(p, fuel=20000, maxinst=5000)], with_spec=True)
                rc.classify(chk, "depth", p, real, rep, sp, [])


def run_uncapped(p):
    old = tplgen.MAX_INST
    try:
        tplgen.MAX_INST = None
        tplgen.Recorder.__init__.__defaults__ = (None, None)
        return tplgen.run_real(p, limit=120.0)
    finally:
        tplgen.MAX_INST = old
        tplgen.Recorder.__init__.__defaults__ = (None, old)


def to_tree_fragment(prog):
    """project a generated program onto the fragment of the tree theorems (Djc/Proofs/Tree.lean, Stitch.lean): component
    tag bodies empty or made of `{% fill "name" %}` tags, no dynamic component, no slot flagged `default`, no slot-default alias, providers replaced by their bodies"""
    def flat(nodes):
        out = []
        for nd in nodes:
            nd = dict(nd)
            for k in ("a", "b", "body"):
                if k in nd:
                    nd[k] = flat(nd[k])
            if nd["t"] == "comp":
                # bodies of the fragment: `{% fill "literal" [data=…] %}` tags at the top level, no default alias
                keep = [dict(f, dflt=None) for f in nd["body"] if f["t"] == "fill" and "lit" in f["name"]]
                if not keep and not any(m["t"] == "fill" for m in tplgen.walk(nd["body"])):
                    keep = nd["body"]                      # implicit default content (already projected)
                out.append(dict(nd, body=keep, dyn=False))
            elif nd["t"] == "slot":
                out.append(dict(nd, default=False))       # unfilled slots are inside the fragment (not flagged `default`)
            elif nd["t"] == "provide":
                out += nd["body"]
            elif nd["t"] == "fill":
                out.append(nd)                           # (only reached below a component tag; filtered there)
            else:
                out.append(nd)
        return out
    lib = [dict(d, template=flat(d["template"]), data=[x for x in d["data"] if "inject" not in x[1] and "side" not in x[1]]) for d in prog["lib"]]
    return dict(prog, lib=lib, entry={"page": flat(prog["entry"]["page"])})


def run_trees(chk, n):
    """programs inside the fragment of the tree theorems, deeper and wider than the general generator draws them (up to 7
    components calling each other through their templates, loops around tags): real = model = reading on the output,
    registries empty afterwards, and the model-free reading of the page (distinct ids, no placeholder, an element carries
    id X iff it is a root of instance X's segment)"""
    prof = dict(PROFILE, ncomp=(4, 7), depth=3, w_comp=9, w_for=2.5, w_elem=5, w_slot=3.5, p_named_fill=0.9, p_fill_in_ctl=0.0, p_default_alias=0.0, p_slot_in_fill=0.3, w_provide=0, w_inject=0, p_side=0.0,
                p_is_filled=0.0, p_only=0.15, p_required=0.05)
    progs = []
    for i in range(n):
        g = tplgen.Gen(core.rng(PROP, "trees", i), prof)
        progs.append(to_tree_fragment(g.program()))
    reps = rc.batch(progs)
    for p, (rep, sp) in zip(progs, reps):
        real = tplgen.run_real(p, limit=20.0)
        chk.count("trees", 1, validated=1)
        chk.errkind(real["err"] or "ok")
        chk.nontrivial(("trees", real["out"] or real["err"]))
        n_inst = len(real["events"]) if real.get("events") else 0
        chk.branch(["trees:instances>=%d" % (8 if n_inst >= 24 else 4 if n_inst >= 12 else 1)])
        rc.classify(chk, "trees", p, real, rep, sp, REGIONS)
        if real["err"] is None:
            direct(chk, p, real)
            if real["residue"] != {k: 0 for k in tplgen.CENSUS}:
                pl = rc.replay_payload(p, real, rep, sp, why="registries not empty after a returned render of a fill-free tree")
                chk.violation("impl-violates-spec", "trees", pl["program"], impl=pl["real"], note=" || ".join(pl["source"]))


def run_real_ids(chk, n):
    """(real code, the library's own id generator — everywhere else ids are made sequential) ids are distinct across all
    instances of a page whatever user code does with process-global state in between: components whose
    get_context_data re-seeds the `random` module with a value used before (seeded/C14-5: ids drawn from the seedable
    global generator repeat).  Model-free reading: the render ids of the markers and the ids Component.id reported."""
    import random as _random
    import re as _re
    from django.template import Context, Template
    from django_components import Component, registry

    tplgen.unpatch_ids()
    try:
        for i in range(n):
            r = core.rng(PROP, "real-ids", i)
            seeds = [r.randrange(3) for _ in range(r.randint(4, 9))]
            reported = []

            class _Leaf(Component):
                template = "<i>{{ k }}</i>"

                def get_context_data(self, k=0):
                    _random.seed(k)                       # user code: a stable pseudo-random choice per key
                    reported.append(self.id)
                    return {"k": _random.choice("abc")}

            class _Row(Component):
                template = "<b>{% component 'c14rid_leaf' k=k / %}</b>{% component 'c14rid_leaf' k=k / %}"

                def get_context_data(self, k=0):
                    reported.append(self.id)
                    return {"k": k}

            registry.register("c14rid_leaf", _Leaf)
            registry.register("c14rid_row", _Row)
            try:
                src = "{% for k in ks %}{% component 'c14rid_row' k=k / %}{% endfor %}"
                try:
                    out = str(Template(src).render(Context({"ks": seeds})))
                    err = None
                except Exception as e:  # noqa
                    out, err = "", type(e).__name__
            finally:
                registry.unregister("c14rid_leaf")
                registry.unregister("c14rid_row")
                tplgen.clear_census()
            chk.count("real-ids", 1, validated=1)
            ids = [m.group(2) for m in tplgen.MARKER_RE.finditer(out)]
            chk.nontrivial(("real-ids", i))
            if err or len(set(ids)) != len(ids) or len(set(reported)) != len(reported) or len(ids) != 3 * len(seeds):
                chk.violation("impl-violates-spec", "real-ids", {"template": src, "ks": seeds,
                              "user_code": "get_context_data calls random.seed(k) for the key k it was given"},
                              impl={"error": err, "marker_ids": ids, "reported_ids": reported},
                              spec="ids are distinct across all instances on a page (3 instances per key)")
                return
    finally:
        tplgen.patch_ids()


THREAD_GATED = ("django_components/component.py",)


def run_threads(chk, n_programs, n_random):
    """two or three renders interleaved at the lines of component.py (deterministic scheduler of C07): every render
    gives what it gives alone — in particular the id a component reports from Component.id is the id its roots
    carry.  Provider-free programs, empty template cache: the listed C07 findings stay out of this stream."""
    from . import c07
    import django_components.cache as DC
    DC.template_cache = None
    tplgen.patch_ids()
    prof = dict(PROFILE, w_provide=0, w_inject=0, depth=2)
    found = 0
    for i in range(n_programs * 20):
        if found >= n_programs:
            break
        r = core.rng(PROP, "threads", i)
        isolated = r.random() < 0.5
        progs = [c07.rename(tplgen.Gen(core.rng(PROP, "threads-prog-%d" % i, t), prof).program(isolated=isolated), "t%d" % t)
                 for t in range(2 if i % 3 else 3)]
        solo = c07.solo_outcomes(progs, isolated)
        if any(o.startswith("ERR") for o, _ in solo):
            continue
        expected = [o for o, _ in solo]
        found += 1
        for j in range(n_random):
            rr = core.rng(PROP, "threads-sched-%d" % i, j)
            tplgen._counter[0] = 0
            outs, residue, s = c07.run_schedule(progs, isolated, c07.sched.random_priorities(rr, rr.choice([0.02, 0.1, 0.5])),
                                                rr.randrange(len(progs)), gated=THREAD_GATED)
            if s.stuck or "STUCK" in outs:
                chk.count("threads/stuck", 1)
                continue
            chk.count("threads", 1, validated=len(progs))
            chk.nontrivial(("threads", i, j, tuple(outs)))
            bad = [t for t in range(len(progs)) if outs[t] != expected[t]]
            if bad:
                chk.violation("impl-violates-spec", "threads", {"programs": progs, "isolated": isolated, "schedule": "random-%d" % j,
                              "switch_trace": s.trace[:60]}, impl={"outcomes": outs, "alone": expected},
                              note="interleaved with other renders, thread(s) %s report / carry other ids than alone; switches: %s || " % (
                                  bad, s.trace[:12]) + " || ".join(l for p in progs for l in rc.describe(p)))
                return


def run(tier: str) -> int:
    chk = core.Check(PROP, tier, THEOREMS, "DESIGN.md §8 render pipeline / C14")
    chk.build_and_audit()
    core.use_repo()
    core.django_setup()
    n = 600 if tier == "quick" else 12000
    run_programs(chk, n)
    run_trees(chk, n // 4)
    run_depth(chk, [3, 50, 500] if tier == "quick" else [3, 50, 500, 2000])
    run_depth(chk, [3, 1100] if tier == "quick" else [3, 50, 1100, 2000], looped=True)
    run_threads(chk, 12 if tier == "quick" else 120, 6 if tier == "quick" else 12)
    run_real_ids(chk, 20 if tier == "quick" else 300)
    chk.assumptions += [
        "templates produce well-nested elements (elements are AST nodes); no void / self-closing elements; "
        "set_html_attributes (Rust) is modelled on the token form and differentially tested here through the real render",
        "the recursion-limit clause is a runtime fact: observed on the real code by the depth stream",
    ]
    return chk.finish()


def replay(doc) -> int:
    return rc.replay(PROP, doc)
