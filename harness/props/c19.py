"""
C19 — every script URL a render emits is served with that component's code.

Histories: define generated component classes (with / without js / css, white-space-only and padded
scripts, optional get_js_data / get_css_data giving an input hash), render them as document or
fragment, clear the media cache, and GET / POST paths; after every render each emitted URL
(decoded from the base64 lists of the JSON script) is fetched with django.test.Client.
Oracle: 200 + exactly `strip(js)` / `strip(css)` of *that* class + matching content type; for
arbitrary paths: 200/404/405, never an exception.
"""
from __future__ import annotations

import base64
import json
import re
from hashlib import md5
from typing import Any, Dict, List, Optional, Tuple

from .. import core

PROP = "C19"
THEOREMS = [
    "url_roundtrip",
    "genKey_injective",
    "render_then_served",
    "consistent_preserved",
    "inv_run",
    "emitted_url_served",
    "endpoint_total",
    "unknown_gives_404",
]

JS_POOL = [None, "", "  \n", "console.log('{n}')", "  var x{n} = 1;\n ", "/* {n} */"]
CSS_POOL = [None, "", " ", ".c{n} {{ color: red }}", "\n.x{n}{{}}\t"]
_counter = [0]
_alive: List[Any] = []


def make_class(name: str, module: str, js: Optional[str], css: Optional[str], js_data: Optional[dict], css_data: Optional[dict]):
    from django_components import Component

    attrs: Dict[str, Any] = {"template": "<html><head></head><body><i>t</i></body></html>", "__module__": module}
    if js is not None:
        attrs["js"] = js
    if css is not None:
        attrs["css"] = css
    if js_data is not None:
        attrs["get_js_data"] = lambda self, *a, **k: js_data
    if css_data is not None:
        attrs["get_css_data"] = lambda self, *a, **k: css_data
    cls = type(name, (Component,), attrs)
    _alive.append(cls)
    return cls


def input_hash(data: Optional[dict]) -> Optional[str]:
    if not data:
        return None
    return md5(json.dumps(data).encode()).hexdigest()[0:6]


def emitted_urls(html: str) -> List[str]:
    urls: List[str] = []
    for m in re.finditer(r'<script type="application/json" data-djc>(.*?)</script>', html, re.S):
        data = json.loads(m.group(1))
        for key in ("loadedJsUrls", "loadedCssUrls"):
            urls += [base64.b64decode(x).decode() for x in data.get(key, [])]
        for key in ("toLoadJsTags", "toLoadCssTags"):
            for x in data.get(key, []):
                tag = base64.b64decode(x).decode()
                mm = re.search(r'(?:src|href)="([^"]+)"', tag)
                if mm:
                    urls.append(mm.group(1))
    return sorted(u for u in set(urls) if u.startswith("/components/cache/"))


def gen_history(r, idx: int) -> List[list]:
    """ops over 1-3 class slots; a slot may be re-defined under the same import path (every 5th history)"""
    _counter[0] += 1
    base = f"C19K{_counter[0]}"
    nslots = r.randint(1, 3)
    allow_redefine = idx % 5 == 0
    ops: List[list] = []
    defined = set()
    for _ in range(r.randint(3, 10)):
        slot = r.randrange(nslots)
        k = r.random()
        if slot not in defined or (allow_redefine and k < 0.12):
            n = r.randint(1, 99)
            js = r.choice(JS_POOL)
            css = r.choice(CSS_POOL)
            ops.append(["define", slot, f"{base}S{slot}", js.format(n=n) if js else js, css.format(n=n) if css else css,
                        r.choice([None, None, {"a": r.randint(1, 3)}]), r.choice([None, None, None, {"c": 1}])])
            defined.add(slot)
        elif k < 0.65:
            ops.append(["render", slot, r.choice(["document", "fragment"])])
        elif k < 0.8:
            ops.append(["clear"])
        else:
            kind = r.choice(["js", "css", "xyz", "JS", "js:abcdef", "", "js.css"])
            ih = r.choice([None, None, "abcdef", "zz", ""])
            who = r.choice(["slot", "slot", "nohash", "a.b"])
            ops.append(["get", who, slot, ih, kind, r.choice(["GET", "GET", "POST", "HEAD"])])
    return ops


def run_history(ops: List[list]) -> Tuple[List[Any], List[list], List[dict]]:
    """Returns (impl outputs, model ops, per-get oracle info)."""
    from django.test import Client

    from django_components.cache import get_component_media_cache

    cache = get_component_media_cache()
    cache.clear()
    client = Client(raise_request_exception=False)
    classes: Dict[int, Any] = {}
    impl: List[Any] = []
    mops: List[list] = []
    info: List[dict] = []

    def do_get(path: str, method: str, expect: Optional[dict]):
        resp = getattr(client, method.lower())(path)
        body = resp.content.decode("utf-8", "replace") if method != "HEAD" else ""
        ct = resp.get("Content-Type", "")
        impl.append({"status": resp.status_code, "body": body if resp.status_code == 200 else None,
                     "ct": ct.split(";")[0] if resp.status_code == 200 else None})
        mops.append(["get", path[len("/components/"):] if path.startswith("/components/") else "\x00" + path, method == "GET"])
        info.append({"path": path, "method": method, "expect": expect})

    for op in ops:
        if op[0] == "define":
            _, slot, name, js, css, jsd, cssd = op
            cls = make_class(name, "c19mod", js, css, jsd, cssd)
            classes[slot] = (cls, js, css, jsd, cssd)
            impl.append(None)
            mops.append(["define", cls._class_hash, js, css])
            info.append({})
        elif op[0] == "render":
            _, slot, mode = op
            cls, js, css, jsd, cssd = classes[slot]
            try:
                html = cls.render(type=mode)
                urls = emitted_urls(html)
            except Exception as e:
                impl.append({"render_error": type(e).__name__ + ": " + str(e)[:120]})
                mops.append(["render", cls._class_hash, input_hash(jsd), input_hash(cssd)])
                info.append({})
                continue
            impl.append(urls)
            mops.append(["render", cls._class_hash, input_hash(jsd), input_hash(cssd)])
            info.append({"render": True})
            for u in urls:
                kind = u.rsplit(".", 1)[1]
                is_vars = u.count(".") == 2
                src = js if kind == "js" else css
                expect = {"status": 200, "body": "" if is_vars else (src or "").strip(),
                          "ct": "text/javascript" if kind == "js" else "text/css", "emitted_by": cls.__name__}
                do_get(u, "GET", expect)
        elif op[0] == "clear":
            cache.clear()
            impl.append(None)
            mops.append(["clear"])
            info.append({})
        else:
            _, who, slot, ih, kind, method = op
            if who == "slot" and slot in classes:
                h = classes[slot][0]._class_hash
            elif who == "slot":
                h = "Undefined_000000"
            else:
                h = who
            path = f"/components/cache/{h}." + (f"{ih}." if ih is not None else "") + kind
            do_get(path, method, None)
    # white box (second stream): the keys the cache holds at the end of the history
    try:
        keys = sorted(k.split(":", 2)[2] if k.startswith(":") else k for k in cache._cache.keys())
    except AttributeError:
        keys = None
    info.append({"final_keys": keys})
    return impl, mops, info


def run_many_entries(ch, n_classes: int, extra_pages: int = 70) -> None:
    """A long history: more cached scripts than any size limit the built-in cache may silently have (Django's
    LocMemCache defaults to 300 entries and culls the least recently set third when full; `has_key` does not refresh an
    entry).  `n_classes` components are rendered once each; then `extra_pages` pages, each holding two of the *oldest*
    components and one brand-new component: every URL such a render emits must be served with that component's code."""
    from django.template import Context, Template
    from django.test import Client

    from django_components import registry, render_dependencies
    from django_components.cache import get_component_media_cache

    cache = get_component_media_cache()
    cache.clear()
    client = Client(raise_request_exception=False)
    names = []
    try:
        classes = []

        def define(i):
            cls = make_class("C19Many%d_%d" % (n_classes, i), "c19many", "/* js %d */" % i, "/* css %d */" % i, None, None)
            registry.register("c19many%d" % i, cls)
            names.append("c19many%d" % i)
            classes.append(cls)
            return cls

        for i in range(n_classes):
            define(i).render(type="fragment")
        for j in range(extra_pages):
            new = n_classes + j
            define(new)
            olds = sorted({j, j // 3})
            src = "".join("{% component 'c19many" + str(k) + "' / %}" for k in olds + [new])
            out = render_dependencies(Template(src).render(Context({})), type="fragment")
            urls = emitted_urls(out)
            want = {classes[k]._class_hash: k for k in olds + [new]}
            if len(urls) != 2 * len(want):
                raise core.InfraError("many-entries: the page emitted %d URLs, expected %d: %r" % (len(urls), 2 * len(want), urls))
            for u in urls:
                ch.count("many-entries", 1, 1)
                resp = client.get(u)
                h = u[len("/components/cache/"):].split(".")[0]
                kind = u.rsplit(".", 1)[1]
                body = resp.content.decode("utf-8", "replace") if resp.status_code == 200 else None
                exp_body = "/* %s %d */" % (kind, want.get(h, -1))
                if resp.status_code != 200 or body.strip() != exp_body:
                    ch.violation("impl-violates-spec", "many-entries",
                                 {"history": "%d components with js and css rendered once each (fragment); then pages with two of the oldest components and a new one; page %d holds components %s" % (n_classes, j, olds + [new]),
                                  "url": u, "n_classes": n_classes, "page": j},
                                 impl={"status": resp.status_code, "body": body},
                                 spec={"status": 200, "body": exp_body, "clause": "emitted_url_served: every URL a render emits is served, whatever renders and evictions preceded it"})
                    return
    finally:
        for nm in names:
            try:
                registry.unregister(nm)
            except Exception:  # noqa
                pass
        cache.clear()


def run(tier: str) -> int:
    ch = core.Check(PROP, tier, THEOREMS)
    ch.assumptions += [
        "the media cache is the built-in LocMemCache (no timeout; unbounded since the fix 22db8d7 — stream many-entries checks that on every run); evictions are modelled by explicit clears",
        "class hashes contain no '.', '/' or ':' (true for every Python class name that is an identifier)",
        "Django's URL resolver is modelled for the two patterns in use (str converter = [^/]+, greedy with backtracking)",
    ]
    ch.build_and_audit()
    core.django_setup()
    n = int((250 if tier == "quick" else 6000) * ch.budget_scale)
    fixed = [
        [["define", 0, "C19Same", "/* ONE */", None, None, None], ["render", 0, "fragment"],
         ["define", 0, "C19Same", "/* TWO */", None, None, None], ["render", 0, "fragment"]],
        [["define", 0, "C19Vars", "var v=1;", ".v{}", {"a": 1}, {"c": 1}], ["render", 0, "document"],
         ["get", "slot", 0, None, "js:" + input_hash({"a": 1}), "GET"], ["get", "slot", 0, None, "css:" + input_hash({"c": 1}), "GET"]],
    ]
    for n_cls in ([140] if tier == "quick" else [140, 120, 100, 149, 60]):
        if not ch.violations:
            run_many_entries(ch, n_cls, 70 if n_cls >= 100 else 130)
    histories = fixed + [gen_history(core.rng(PROP, "hist", i), i) for i in range(n)]
    runs = [run_history(h) for h in histories]
    reps = core.drive([{"op": "serve", "ops": mops} for _, mops, _ in runs])
    for hist, (impl, mops, info), rep in zip(histories, runs, reps):
        if "error" in rep:
            raise core.InfraError(f"driver: {rep['error']}")
        ch.count("history", 1, 1)
        redefine = len({(o[1]) for o in hist if o[0] == "define"}) < sum(1 for o in hist if o[0] == "define")
        feats = []
        if any(o[0] == "clear" for o in hist):
            feats.append("clear")
        if redefine:
            feats.append("redefine-same-path")
        if any(o[0] == "render" for o in hist):
            feats.append("render")
        ch.branch(feats)
        model = []
        for mo, o in zip(mops, rep["out"]):
            if mo[0] == "render":
                model.append(sorted("/components/" + u for u in o))
            elif mo[0] == "get":
                model.append({"status": o["status"], "body": o.get("body"), "ct": o.get("ct")})
            else:
                model.append(None)
        if sum(1 for i in info if i.get("expect")) >= 1:
            ch.nontrivial(str(hist))
        shown = {"history": hist}
        bad = None
        known = None
        for i, (got, inf) in enumerate(zip(impl, info[:len(impl)])):
            if isinstance(got, dict) and "render_error" in got:
                bad = (i, f"render raised: {got['render_error']}")
                break
            if inf.get("expect"):
                e = inf["expect"]
                if (got["status"], got["body"], got["ct"]) != (e["status"], e["body"], e["ct"]):
                    if redefine and got == model[i]:
                        known = ("same-import-path-redefined", {"history": hist, "url": inf["path"], "served": got, "expected": e})
                        continue
                    bad = (i, f"emitted_url_served: {inf['path']} announced by {e['emitted_by']} answered {got}, expected {e}")
                    break
            elif "path" in inf:
                if got["status"] not in (200, 404, 405):
                    bad = (i, f"endpoint_total: {inf['method']} {inf['path']} answered {got['status']}")
                    break
                ch.errkind(str(got["status"]))
        if bad:
            ch.violation("impl-violates-spec", "history", shown, impl=impl, model=model, spec=bad[1])
            break
        if known:
            ch.known_hit(*known)
        final_keys = info[-1].get("final_keys") if info and "final_keys" in info[-1] else None
        if impl == model and final_keys is not None and final_keys != sorted(k for k, _ in rep["cache"]):
            ch.violation("model-impl-disagree", "whitebox", shown, impl=final_keys, model=sorted(k for k, _ in rep["cache"]),
                         note="cache keys differ from the model although every observed response agrees")
        if impl != model:
            first = next(i for i, (a, b) in enumerate(zip(impl, model)) if a != b)
            ch.violation("model-impl-disagree", "history", shown, impl={"at": first, "got": impl[first], "op": mops[first]},
                         model=model[first], note="implementation satisfies the oracle but the model predicts otherwise")
            if sum(1 for v in ch.violations if v["kind"] == "model-impl-disagree") > 3:
                break
    ch.cov["rule"] = (
        f"{n} random histories of 3-10 operations over 1-3 generated classes (js / css from pools incl. None, empty, white-space-only, "
        "padded; optional get_js_data / get_css_data), operations define / render(document|fragment) / cache clear / request "
        "(valid and invalid hash, kind in {js, css, xyz, JS, js:abcdef, '', js.css}, input hash, GET/POST/HEAD); every 5th history may "
        "re-define a class under the same import path; after every render each emitted URL is fetched; plus 2 fixed histories; "
        "non-trivial = at least one emitted URL fetched; distinct = distinct history"
    )
    ch.sample({"history": fixed[1]})
    return ch.finish()
