"""
C06 — a finished or failed render leaves nothing behind.

Streams:
  faults     for every generated program the fault-free run gives the sequence of user-callback
             invocations (get_context_data, inject, on_render_before, on_render_after); then, for
             sampled (thorough: all) indices i and four exception kinds, the run in which invocation
             i raises.  On the real code: the exception class is preserved, the message carries the
             component path and the whole original message, every registry is empty afterwards, the
             caller's Context is what it was, and a follow-up fault-free render equals the reference.
             The same run on Djc.Render (raiseAt i) must give the same error class, callback prefix and
             registry sizes.
  success    fault-free renders: registries empty afterwards (real = model).
  memory     (runtime part, real code only) sentinel objects passed as kwargs / context values die
             after the render returns; 200 repetitions of one render do not grow the object count.
"""
from __future__ import annotations

import gc
import weakref

from .. import core, tplgen
from .. import render_common as rc

PROP = "C06"
THEOREMS = ["C06_full_partial_any_history_disturbs_nothing_older", "C06_full_partial_returning_histories_leave_nothing", "C06_full_partial_failed_tree_render_disturbs_nothing_older", "C06_full_partial_render_after_failed_render", "C06_full_partial_component_trees_leave_nothing", "unregister_unknown_is_noop", "empty_provider_leaves_nothing", "fault_at_index_only", "no_fault_without_request", "bookkeeping_error_keeps_world", "C06_full_partial_plain_nodes_touch_no_registry", "C06_full_partial_providers_leave_nothing", "C06_full_partial_leaf_component_leaves_nothing", "not_C06_full"]

PROFILE = dict(p_side=0.15, w_provide=2, w_inject=0.4, p_inject_default=0.8, w_comp=6, w_slot=3, p_required=0.0, p_malformed=0.0,
               p_default_flag=0.1, depth=3)
EXPECT_MSG = {0: "boom", 1: "5", 2: "2", 3: "line one\nline two"}
PREFIX = "An error occured while rendering components "
ZERO = {k: 0 for k in tplgen.CENSUS}


def run_faults(chk, n, per_prog):
    for i in range(n):
        r = core.rng(PROP, "faults", i)
        g = tplgen.Gen(core.rng(PROP, "programs", i), PROFILE)
        p = g.program()
        ref = tplgen.run_real(p, limit=20.0)
        chk.count("success", 1, validated=1)
        (rep0, _), = rc.batch([p], with_spec=False)
        dm = rc.cmp_model(ref, rep0)
        if dm is not None:
            pl = rc.replay_payload(p, ref, rep0, None, why=dm)
            chk.violation("model-impl-disagree", "success", pl["program"], impl=pl["real"], model=pl.get("model"),
                          note=dm + " || " + " || ".join(pl["source"]))
            continue
        if ref["err"] is not None:
            chk.errkind("ref:" + ref["err"])
            continue
        if ref["residue"] != ZERO:
            pl = rc.replay_payload(p, ref, rep0, None, why="registries not empty after a successful render")
            chk.violation("impl-violates-spec", "success", pl["program"], impl=pl["real"], note=" || ".join(pl["source"]))
            continue
        ref_out = tplgen.canon_real(ref["out"], ref["hash2name"])
        nev = len(ref["events"])
        if nev == 0:
            continue
        idxs = list(range(nev)) if per_prog is None else sorted(r.sample(range(nev), min(per_prog, nev)))
        faulty = [dict(p, **{"raise": [j, r.randrange(4)]}) for j in idxs]
        reps = rc.batch(faulty, with_spec=False)
        for fp, (rep, _) in zip(faulty, reps):
            j, c = fp["raise"]
            tplgen.clear_census()
            real = tplgen.run_real(fp, limit=20.0)
            chk.count("faults", 1, validated=1)
            chk.branch(["fault_at:" + ref["events"][j][0], "fault_class:%d" % c])
            chk.nontrivial((i, j, c))
            dm = rc.cmp_model(real, rep)
            if dm is not None and len([v for v in chk.violations if v["kind"] == "model-impl-disagree"]) < 3:
                pl = rc.replay_payload(fp, real, rep, None, why=dm)
                chk.violation("model-impl-disagree", "faults", pl["program"], impl=pl["real"], model=pl.get("model"),
                              note=dm + " || " + " || ".join(pl["source"]))
            problems = []
            # the original exception type propagates, annotated with the component path
            if real["err"] != "User:%d" % c:
                problems.append("exception class replaced: expected fault %d, got %s %r" % (c, real["err"], real["exc"]))
            else:
                msg = str(real["exc"].args[0]) if real["exc"].args else ""
                if not msg.startswith(PREFIX):
                    problems.append("message not annotated with the component path: %r" % msg[:200])
                elif not msg.endswith("\n" + EXPECT_MSG[c]):
                    problems.append("original message altered: %r" % msg[:300])
            # the caller's Context
            if real.get("ctx_before") != real.get("ctx_after"):
                problems.append("caller's Context.dicts changed by the failed render")
            rc_left = real.get("rc_before") != real.get("rc_after")
            # every later render behaves as if the failed one had never happened (registries NOT cleared)
            follow = tplgen.run_real(p, census_clear=False, reset_ids=False, limit=20.0)
            fo = follow["err"] or tplgen.canon_real(follow["out"], follow["hash2name"])
            if fo != ref_out:
                problems.append("follow-up render differs from the reference: %r" % (fo[:200],))
            leaked = real["residue"] != ZERO
            if problems:
                pl = rc.replay_payload(fp, real, rep, None, why="; ".join(problems))
                chk.violation("impl-violates-spec", "faults", pl["program"], impl=pl["real"], model=pl.get("model"),
                              note="; ".join(problems) + " || " + " || ".join(pl["source"]))
            elif rc_left and dm is not None:
                pl = rc.replay_payload(fp, real, rep, None, why="caller's render_context changed by the failed render")
                chk.violation("impl-violates-spec", "faults", pl["program"], impl={"render_context_depth": [real["rc_before"], real["rc_after"]]},
                              model=pl.get("model"), note=" || ".join(pl["source"]))
            elif leaked or rc_left:
                if rc_left:
                    chk.known_hit("failed-render-leaves-render-context-layer", rc.describe(fp))
                if not leaked:
                    pass
                elif dm is None:
                    chk.known_hit("error-leaves-registry-entries", rc.describe(fp))
                else:
                    pl = rc.replay_payload(fp, real, rep, None, why="registries not empty after a failed render")
                    chk.violation("impl-violates-spec", "faults", pl["program"], impl=pl["real"], model=pl.get("model"),
                                  note="registries after failure: %s || " % real["residue"] + " || ".join(pl["source"]))
        tplgen.clear_census()


class Sentinel:
    def __init__(self, s):
        self.s = s

    def __str__(self):
        return self.s

    def __iter__(self):          # `{% for x in a %}`: like the string it stands for
        return iter(self.s)

    def __len__(self):
        return len(self.s)


class Boom:
    """user code inside a template: printing it raises (a variable whose __str__, a filter or a tag raises)"""

    def __init__(self, c):
        self.c = c

    def __str__(self):
        raise tplgen.make_fault(self.c)


def run_body_faults(chk, n):
    """(real code; the oracle is the property's own clauses) user code raising *inside the body of a {% component %} tag*
    — while the library reads the body to find the fills, or while it renders the implicit default content — on a page
    rendered with a Context the caller keeps: the exception class survives, the caller's Context has the layers it had,
    the registries are empty, the same failing render fails the same way again, and a later fault-free render *through the
    same Context object* gives what a fresh Context gives (seeded/C06-4: the fill-discovery marker layer stayed on the
    caller's Context)."""
    from django.template import Context, Template
    lit, var = tplgen.lit, tplgen.var
    for i in range(n):
        r = core.rng(PROP, "body-faults", i)
        g = tplgen.Gen(core.rng(PROP, "body-programs", i), dict(PROFILE, w_provide=0, w_inject=0.0, p_side=0.0))
        p = g.program()
        c = r.randrange(4)
        name = p["lib"][0]["name"]
        boom = {"t": "out", "e": var("boom")}
        fill = {"t": "fill", "name": lit(r.choice(tplgen.SLOTS)), "data": None, "dflt": None, "body": [{"t": "text", "s": "F"}]}
        shape = r.choice(["before-fills", "between-fills", "in-loop", "implicit-default", "in-if"])
        if shape == "before-fills":
            body = [boom, fill]
        elif shape == "between-fills":
            body = [fill, boom, dict(fill, name=lit("default"))]
        elif shape == "in-loop":
            body = [{"t": "for", "x": "v", "e": var("sl"), "body": [dict(fill, name=var("v")), {"t": "if", "c": var("boomif"), "a": [boom], "b": []}]}]
        elif shape == "in-if":
            body = [{"t": "if", "c": var("one"), "a": [boom, fill], "b": []}]
        else:
            body = [{"t": "text", "s": "X"}, boom, {"t": "text", "s": "Y"}]
        tag = {"t": "comp", "name": name, "kwargs": [], "only": r.random() < 0.2, "dyn": False, "body": body}
        good = dict(tag, body=[fill] if shape != "implicit-default" else [{"t": "text", "s": "XY"}])
        wrap = r.choice(["plain", "with", "for"])
        def page_of(t):
            if wrap == "with":
                return [{"t": "with", "x": "v", "e": lit("W"), "body": [t]}]
            if wrap == "for":
                return [{"t": "for", "x": "u", "e": var("one"), "body": [t]}]
            return [t]
        chk.branch(["body-fault:" + shape, "body-fault-wrap:" + wrap, "fault_class:%d" % c])
        tplgen.patch_ids()
        tplgen.clear_census()
        tplgen.set_mode(p["isolated"])
        rec = tplgen.Recorder(None)
        built = tplgen.Built(p, rec)
        try:
            vals = {k: tplgen.pyval(v) for k, v in p["ctx"]}
            vals.update(boom=Boom(c), boomif="y")
            bad_t, good_t = Template(tplgen.p_nodes(page_of(tag))), Template(tplgen.p_nodes(page_of(good)))

            def attempt(t, ctx):
                rec.gcds = 0
                try:
                    with core.time_limit(20.0):
                        return None, tplgen.canon_real(str(t.render(ctx)), built.hash2name)
                except Exception as e:  # noqa
                    return tplgen.err_enum(e), None
            ref_err, ref_out = attempt(good_t, Context(dict(vals)))
            if ref_err is not None:
                chk.errkind("body-ref:" + ref_err)
                continue
            tplgen.clear_census()
            ctx = Context(dict(vals))
            before = [dict(d) for d in ctx.dicts]
            rc_before = len(ctx.render_context.dicts)
            err1, _ = attempt(bad_t, ctx)
            chk.count("body-faults", 1, validated=1)
            chk.nontrivial(("body-faults", i, shape, c))
            problems = []
            if err1 != "User:%d" % c:
                problems.append("exception class replaced: expected fault %d, got %s" % (c, err1))
            if [dict(d) for d in ctx.dicts] != before:
                problems.append("caller's Context.dicts changed by the failed render: %d layers before, %d after" % (len(before), len(ctx.dicts)))
            residue = tplgen.census()
            err2, _ = attempt(bad_t, ctx)
            if err2 != err1:
                problems.append("repeating the failing render through the same Context: %s, then %s" % (err1, err2))
            err3, out3 = attempt(good_t, ctx)
            if (err3, out3) != (None, ref_out):
                problems.append("a later fault-free render through the same Context differs from a fresh one: %r vs %r" % (err3 or out3[:120], ref_out[:120]))
            rc_left = len(ctx.render_context.dicts) != rc_before
            if problems or residue != ZERO:
                if not problems and residue != ZERO:
                    problems.append("registries after the failed render: %s" % residue)
                chk.violation("impl-violates-spec", "body-faults",
                              {"program": p, "page": tplgen.p_nodes(page_of(tag)), "fault_class": c, "shape": shape},
                              impl={"first": err1, "second": err2, "third": err3 or out3, "reference": ref_out, "residue": residue,
                                    "layers": [len(before), len(ctx.dicts)]},
                              spec="C06: the original exception propagates; nothing of the failed render stays on the caller's Context; later renders behave as if it had never happened",
                              note="; ".join(problems) + " || PAGE " + tplgen.p_nodes(page_of(tag)) + " || " + " || ".join(rc.describe(p)))
            elif rc_left:
                chk.known_hit("failed-render-leaves-render-context-layer", {"page": tplgen.p_nodes(page_of(tag))})
        finally:
            built.close()
            tplgen.clear_census()


def run_memory(chk, n):
    from django.template import Context, Template
    for i in range(n):
        g = tplgen.Gen(core.rng(PROP, "memory", i), dict(PROFILE, w_provide=1))
        p = g.program()
        ref = tplgen.run_real(p, limit=20.0)
        if ref["err"] is not None:
            continue
        tplgen.set_mode(p["isolated"])
        rec = tplgen.Recorder(None, cap=None)
        built = tplgen.Built(p, rec)
        try:
            src = tplgen.p_nodes(p["entry"]["page"])
            tpl = Template(src)

            def once(track):
                vals = {k: tplgen.pyval(v) for k, v in p["ctx"]}
                s = Sentinel("S")
                vals["a"] = s
                ctx = Context(vals)
                track.append(weakref.ref(s))
                track.append(weakref.ref(ctx))
                tpl.render(ctx)
                del rec.events[:]
                rec.gcds = 0

            refs: list = []
            once(refs)
            gc.collect()
            chk.count("memory/liveness", 1, validated=1)
            alive = [w for w in refs if w() is not None]
            if alive:
                chk.violation("impl-violates-spec", "memory/liveness", p, impl={"alive": [repr(w()) for w in alive]},
                              note="objects passed to a finished render are still reachable || " + " || ".join(rc.describe(p)))
                continue
            for _ in range(30):
                once([])
            gc.collect()
            before = len(gc.get_objects())
            for _ in range(200):
                once([])
            gc.collect()
            after = len(gc.get_objects())
            chk.count("memory/growth", 1, validated=1)
            if after - before > 50:
                chk.violation("impl-violates-spec", "memory/growth", p, impl={"objects_before": before, "objects_after": after},
                              note="200 repetitions grew the object count || " + " || ".join(rc.describe(p)))
        finally:
            built.close()
            tplgen.clear_census()


def run(tier: str) -> int:
    chk = core.Check(PROP, tier, THEOREMS, "DESIGN.md §8 render pipeline / C06")
    chk.build_and_audit()
    core.use_repo()
    core.django_setup()
    if tier == "quick":
        run_faults(chk, 150, 6)
        run_body_faults(chk, 60)
        run_memory(chk, 12)
    else:
        run_faults(chk, 1500, None)
        run_body_faults(chk, 800)
        run_memory(chk, 100)
    chk.assumptions += [
        "user-code points: get_context_data, inject, on_render_before, on_render_after of generated components "
        "(slot functions are not generated; template-level user code is a variable whose __str__ raises, placed in the body of a "
        "page-level component tag — stream body-faults, real code against the property's clauses, no model run)",
        "unreachability and memory growth are runtime facts observed with weakref / gc on the real code only",
    ]
    return chk.finish()


def replay(doc) -> int:
    return rc.replay(PROP, doc)
