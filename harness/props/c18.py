"""
C18 — template caching is transparent and a bounded LRU.

Streams (DESIGN §8 C18):
  blackbox   : op sequences over keys a,b,c(,d) x caps {None,0,1,2,3}; exhaustive at a fixed length
               (every prefix is observed, so shorter sequences are covered) + random long ones.
               Observables: every return value, then `has(k)` of every key, then the eviction
               order read off a deep copy by pushing fresh keys through the public API.
  whitebox   : after the sequence, walk head.next… / tail.prev… / dict and compare with the
               model's item list (skipped, with a note, if the private attributes are gone).
  tmpl       : sequences of cached_template(src) over more sources than the cache size,
               template_cache_size in {0,1,2,3,128}; observables: identity pattern of the returned
               objects, rendered output vs a fresh Template, Template type.
  component  : components with distinct template strings rendered in sequence through a small
               cache; output vs the expected string.
"""
from __future__ import annotations

import copy
import itertools
from typing import Any, List, Optional, Tuple

from .. import core

PROP = "C18"
THEOREMS = [
    "lru_size_le_cap",
    "lru_cap0_noop",
    "lru_keys_nodup",
    "lru_get_returns_last_set",
    "lru_unbounded_refines_dict",
    "lru_sorted_by_recency",
    "lru_evicts_least_recent",
    "lru_no_spurious_eviction",
    "lru_set_then_get_hits",
    "lru_recent_key_survives",
    "lru_has_is_pure_and_clear_empties",
    "cachedTemplate_is_lru_history",
    "cached_transparent",
    "cached_identity_stable",
    "cached_identity_while_recent",
    "cached_miss_is_fresh",
]

KEYS = ["a", "b", "c"]
CAPS = [None, 0, 1, 2, 3]


def alphabet(keys: List[str]) -> List[list]:
    ops: List[list] = []
    for k in keys:
        ops += [["get", k], ["has", k], ["set", k]]
    ops.append(["clear"])
    return ops


def concretise(seq: Tuple[list, ...]) -> List[list]:
    """`set` values are the 1-based step index: unique tokens."""
    out = []
    for i, op in enumerate(seq):
        out.append(["set", op[1], i + 1] if op[0] == "set" else list(op))
    return out


# ---- the implementation under test --------------------------------------------------------------


def run_impl(cap: Optional[int], ops: List[list], keys: List[str]) -> dict:
    from django_components.util.cache import LRUCache

    c = LRUCache(maxsize=cap)
    out: List[Any] = []
    for op in ops:
        if op[0] == "get":
            out.append(c.get(op[1]))
        elif op[0] == "has":
            out.append(bool(c.has(op[1])))
        elif op[0] == "set":
            c.set(op[1], op[2])
            out.append("unit")
        else:
            c.clear()
            out.append("unit")
    final_has = [bool(c.has(k)) for k in keys]
    # eviction order through the public API, on a copy: push fresh keys, watch who disappears
    order: Optional[List[str]] = None
    if cap is not None and cap > 0:
        probe = copy.deepcopy(c)
        present = [k for k in keys if probe.has(k)]
        order = []
        i = 0
        while present and i < cap + 2:
            probe.set(f"~fresh{i}", -1)
            gone = [k for k in present if not probe.has(k)]
            order += gone  # evicted first = least recently used
            present = [k for k in present if k not in gone]
            i += 1
        order = order + present  # never evicted within cap+2 pushes: report at the MRU end
    white = None
    try:
        fwd = []
        n = c.head.next
        guard = 0
        while n is not c.tail and n is not None and guard < 1000:
            fwd.append([n.key, n.value])
            n = n.next
            guard += 1
        bwd = []
        n = c.tail.prev
        guard = 0
        while n is not c.head and n is not None and guard < 1000:
            bwd.append([n.key, n.value])
            n = n.prev
            guard += 1
        white = {"fwd": fwd, "bwd": list(reversed(bwd)), "dict": sorted(map(str, c.cache.keys()))}
    except AttributeError:
        white = None
    return {"out": out, "has": final_has, "evict_order": order, "white": white}


def model_view(reply: dict, cap: Optional[int], keys: List[str]) -> dict:
    items = reply["items"]
    ks = [k for k, _ in items]
    order = None
    if cap is not None and cap > 0:
        order = list(reversed(ks))  # LRU first
    return {
        "out": reply["out"],
        "has": [k in ks for k in keys],
        "evict_order": order,
        "white": {"fwd": items, "bwd": items, "dict": sorted(ks)},
    }


def clause(cap, ops, impl_out) -> str:
    """Which clause of the property do the impl's observations break (python re-statement of the
    Lean spec functions dictGet / size bound, evaluated on the implementation's outputs)."""
    d = {}
    for op, o in zip(ops, impl_out["out"]):
        if op[0] == "set":
            if cap is None or cap > 0:
                d[op[1]] = op[2]
        elif op[0] == "clear":
            d.clear()
        elif op[0] == "get" and o is not None and d.get(op[1]) != o:
            return f"lru_get_returns_last_set: get {op[1]} returned {o}, dictionary holds {d.get(op[1])}"
    # lru_recent_key_survives / lru_set_then_get_hits evaluated on the implementation's own outputs:
    # a key set fewer than `cap` non-clear operations ago must still be found.
    if cap is None or cap > 0:
        last_set = {}
        for i, (op, o) in enumerate(zip(ops, impl_out["out"])):
            if op[0] == "clear":
                last_set.clear()
            elif op[0] == "set":
                last_set[op[1]] = i
            elif op[0] in ("get", "has") and op[1] in last_set:
                between = i - last_set[op[1]] - 1
                if (cap is None or between < cap) and (o is None or o is False):
                    name = "lru_set_then_get_hits" if between == 0 else "lru_recent_key_survives"
                    return f"{name}: {op[0]} {op[1]} misses {between} operations after its set, cap {cap}"
    if cap is not None and sum(impl_out["has"]) > cap:
        return f"lru_size_le_cap: {sum(impl_out['has'])} keys present, cap {cap}"
    if cap is None:
        return "lru_unbounded_refines_dict: unbounded cache differs from a dictionary"
    return "lru_evicts_least_recent / lru_no_spurious_eviction: hit/miss pattern or eviction order differs from LRU"


def compare(ch: core.Check, stream: str, cap, ops, keys, impl, model) -> bool:
    """Returns True when they agree."""
    black_ok = impl["out"] == model["out"] and impl["has"] == model["has"] and impl["evict_order"] == model["evict_order"]
    if not black_ok:
        ch.violation(
            "impl-violates-spec", stream, {"cap": cap, "ops": ops, "keys": keys},
            impl={k: impl[k] for k in ("out", "has", "evict_order")},
            model={k: model[k] for k in ("out", "has", "evict_order")},
            spec=clause(cap, ops, impl),
            note="observable behaviour through get/has/set/clear differs from the proved LRU model",
        )
        return False
    if impl["white"] is not None and impl["white"] != model["white"]:
        ch.violation(
            "model-impl-disagree", "whitebox", {"cap": cap, "ops": ops, "keys": keys},
            impl=impl["white"], model=model["white"],
            note="linked list / dict out of sync with the model although public observations agree so far",
        )
        return False
    return True


def batch(ch: core.Check, stream: str, cases: List[Tuple[Optional[int], List[list]]], keys: List[str]) -> List[Tuple]:
    reqs = [{"op": "lru", "cap": (None if cap is None else max(cap, 0)), "ops": ops} for cap, ops in cases]
    replies = core.drive(reqs)
    bad = []
    for (cap, ops), rep in zip(cases, replies):
        if "error" in rep:
            raise core.InfraError(f"driver: {rep['error']}")
        impl = run_impl(cap, ops, keys)
        model = model_view(rep, cap, keys)
        ch.count(stream, 1, 1)
        hits = sum(1 for op, o in zip(ops, impl["out"]) if op[0] == "get" and o is not None)
        evicted = cap is not None and cap > 0 and len({op[1] for op in ops if op[0] == "set"}) > cap
        if hits:
            ch.branch(["get-hit"])
        if any(op[0] == "get" and o is None for op, o in zip(ops, impl["out"])):
            ch.branch(["get-miss"])
        if evicted:
            ch.branch(["evict"])
        if cap == 0:
            ch.branch(["disabled"])
        if any(op[0] == "clear" for op in ops):
            ch.branch(["clear"])
        if hits or evicted:
            ch.nontrivial((cap, ops))
        if not compare(ch, stream, cap, ops, keys, impl, model):
            bad.append((cap, ops))
    return bad


def shrink_case(cap, ops, keys) -> List[list]:
    def fails(cand):
        rep = core.drive([{"op": "lru", "cap": (None if cap is None else max(cap, 0)), "ops": cand}])[0]
        impl = run_impl(cap, cand, keys)
        model = model_view(rep, cap, keys)
        return not (impl["out"] == model["out"] and impl["has"] == model["has"]
                    and impl["evict_order"] == model["evict_order"] and (impl["white"] is None or impl["white"] == model["white"]))

    return core.shrink_list(ops, fails)


# ---- cached_template ----------------------------------------------------------------------------


def tmpl_impl(size: Optional[int], key_seq: List[str]) -> dict:
    from django.template import Context, Template
    from django.test import override_settings

    import django_components.cache as dcache
    from django_components import cached_template

    with override_settings(COMPONENTS={"template_cache_size": size, "autodiscover": False}):
        dcache.template_cache = None
        try:
            objs = []
            idents = []
            seen = {}
            transparent = True
            types_ok = True
            for k in key_seq:
                src = f"<{k}>{{{{ v }}}}</{k}>"
                t = cached_template(src)
                objs.append(t)  # keep alive: id() must stay unique
                idents.append(seen.setdefault(id(t), len(seen)))
                fresh = Template(src)
                if t.render(Context({"v": k + "!"})) != fresh.render(Context({"v": k + "!"})):
                    transparent = False
                if type(t) is not Template:
                    types_ok = False
            cache = dcache.get_template_cache()
            n = len(getattr(cache, "cache", {}))
            cap = getattr(cache, "maxsize", None)
        finally:
            dcache.template_cache = None
    return {"idents": idents, "transparent": transparent, "types_ok": types_ok, "entries": n, "maxsize": cap}


def many_keys_stream(ch: core.Check, n: int) -> None:
    """Transparency over many distinct keys at once: `n` distinct sources compiled through one cache large enough to
    hold them all; every returned Template must be the compilation of *its* source (`.source`), and a repeated key
    must return the identical object.  A lossy cache key (a digest, a prefix, a normalised source) makes two sources
    share an entry; with n = 20 000 a key narrower than ~28 bits collides with near certainty."""
    from django.template import Template
    from django.test import override_settings

    import django_components.cache as dcache
    from django_components import cached_template

    with override_settings(COMPONENTS={"template_cache_size": 4 * n, "autodiscover": False}):
        dcache.template_cache = None
        try:
            first = {}
            for i in range(n):
                src = "<li>row %d: {{ value }}</li>" % i
                t = cached_template(src)
                ch.count("many-keys", 1, 1)
                if getattr(t, "source", src) != src or type(t) is not Template:
                    ch.violation(
                        "impl-violates-spec", "many-keys",
                        {"template_cache_size": 4 * n, "sources": ["<li>row %d: {{ value }}</li>" % j for j in (i,)],
                         "earlier_source": getattr(t, "source", None), "index": i},
                        impl={"returned_source": getattr(t, "source", None), "type": type(t).__name__}, spec="cached_transparent: "
                        "the Template returned for a source is the compilation of that source (distinct sources never share an entry)",
                    )
                    return
                first[i] = t
            for i in range(0, n, max(1, n // 500)):
                if cached_template("<li>row %d: {{ value }}</li>" % i) is not first[i]:
                    ch.violation("impl-violates-spec", "many-keys", {"template_cache_size": 4 * n, "index": i},
                                 impl="a different object for a key that is still cached", spec="cached_identity_stable")
                    return
            ch.nontrivial(("many-keys", n))
        finally:
            dcache.template_cache = None


def inherit_stream(ch: core.Check, r, rounds: int) -> None:
    """Component classes related by inheritance: a subclass that overrides the static `template` renders its own
    template, one that does not renders its parent's — under every cache size and every render order (whatever is
    remembered per class must not be read through the MRO by a subclass with another template)."""
    import re as _re

    from django.template import Context, Template
    from django.test import override_settings

    import django_components.cache as dcache
    from django_components import Component, registry

    for rnd in range(rounds):
        for size in (0, 1, 2, 128):
            with override_settings(COMPONENTS={"template_cache_size": size, "autodiscover": False}):
                dcache.template_cache = None
                names, classes, src = [], [], []
                try:
                    for i in range(4):
                        parent = r.choice([None] + classes) if classes else None
                        override = parent is None or r.random() < 0.7
                        body: dict = {"get_context_data": (lambda self, x=None: {"x": x})}
                        if override:
                            body["template"] = f"[{rnd}.{i}:{{{{ x }}}}]"   # no angle brackets: the library adds id attributes to HTML root elements
                        cls = type(f"C18Inh{rnd}x{i}", (parent or Component,), body)
                        nm = f"c18inh{i}"
                        registry.register(nm, cls)
                        names.append(nm)
                        classes.append(cls)
                        src.append(i if override else src[classes.index(parent)])
                    seq = [r.randrange(4) for _ in range(10)]
                    for pos, j in enumerate(seq):
                        out = Template("{% component '" + names[j] + "' x=val / %}").render(Context({"val": j * 7}))
                        ch.count("inherit", 1, 1)
                        plain = _re.sub(r"<!--.*?-->", "", out)
                        want = f"[{rnd}.{src[j]}:{j * 7}]"
                        if plain != want:
                            ch.violation(
                                "impl-violates-spec", "inherit",
                                {"template_cache_size": size, "render_sequence": seq[: pos + 1], "at": j,
                                 "bases": [c.__mro__[1].__name__ for c in classes],
                                 "overrides_template": ["template" in c.__dict__ for c in classes]},
                                impl=plain, spec=f"cached_transparent: compiling the class's template afresh gives {want}",
                            )
                            return
                        ch.nontrivial(("inherit", size, tuple(src), tuple(seq[: pos + 1])))
                finally:
                    for nm in names:
                        try:
                            registry.unregister(nm)
                        except Exception:
                            pass
                    dcache.template_cache = None


def component_stream(ch: core.Check, r) -> None:
    from django.template import Context, Template
    from django.test import override_settings

    import django_components.cache as dcache
    from django_components import Component, registry

    for size in (0, 1, 2):
        with override_settings(COMPONENTS={"template_cache_size": size, "autodiscover": False}):
            dcache.template_cache = None
            names = []
            try:
                for i in range(4):
                    nm = f"c18comp{i}"

                    class _C(Component):
                        template = f"[{i}:{{{{ x }}}}]"

                        def get_context_data(self, x=None):
                            return {"x": x}

                    _C.__name__ = f"C18Comp{i}"
                    registry.register(nm, _C)
                    names.append(nm)
                seq = [r.randrange(4) for _ in range(12)]
                for j in seq:
                    out = Template("{% component '" + names[j] + "' x=val / %}").render(Context({"val": j * 7}))
                    ch.count("component", 1, 1)
                    import re as _re

                    plain = _re.sub(r"<!--.*?-->", "", out)
                    if plain != f"[{j}:{j * 7}]":
                        ch.violation(
                            "impl-violates-spec", "component",
                            {"template_cache_size": size, "render_sequence": seq, "at": j},
                            impl=plain, spec=f"cached_transparent: expected [{j}:{j * 7}]",
                        )
                        return
                    ch.nontrivial(("component", size, tuple(seq[: seq.index(j) + 1])))
            finally:
                for nm in names:
                    try:
                        registry.unregister(nm)
                    except Exception:
                        pass
                dcache.template_cache = None


# ---- entry point -----------------------------------------------------------------------------------


def run(tier: str) -> int:
    ch = core.Check(PROP, tier, THEOREMS)
    ch.assumptions += [
        "cache values are unique tokens (set value = step index), so value equality stands for object identity",
        "template identity compared through id() with all returned objects kept alive",
        "negative maxsize behaves as 0 (same branch in LRUCache.set)",
    ]
    ch.build_and_audit()
    core.django_setup()
    r = core.rng(PROP, "main")
    scale = ch.budget_scale

    # -- corpus first
    corpus = core.CORPUS / "C18.json"
    if corpus.exists():
        import json

        cs = [(c["cap"], c["ops"]) for c in json.loads(corpus.read_text())]
        batch(ch, "corpus", cs, KEYS + ["d"])

    # -- exhaustive
    L = 4 if tier == "quick" else 5
    alpha = alphabet(KEYS)
    cases = []
    for seq in itertools.product(alpha, repeat=L):
        ops = concretise(seq)
        for cap in CAPS:
            cases.append((cap, ops))
    bad = []
    for i in range(0, len(cases), 20000):
        bad += batch(ch, "blackbox-exhaustive", cases[i:i + 20000], KEYS)
        if bad:
            break
    ch.cov["exhaustive"] = not bad
    ch.cov["exhaustive_length"] = L

    # -- random long
    n_rand = int((2000 if tier == "quick" else 50000) * scale)
    keys4 = KEYS + ["d", "e"]
    alpha4 = alphabet(keys4)
    cases = []
    for i in range(n_rand):
        rr = core.rng(PROP, "random", i)
        n = rr.randint(20, 200)
        seq = tuple(rr.choices(alpha4, weights=[3, 1, 4] * len(keys4) + [1], k=n))
        cap = rr.choice([None, 0, 1, 2, 3, 4, 5, -1])
        cases.append((cap, concretise(seq)))
    if not bad:
        for i in range(0, len(cases), 5000):
            bad += batch(ch, "blackbox-random", cases[i:i + 5000], keys4)
            if bad:
                break
    if bad:
        cap, ops = bad[0]
        small = shrink_case(cap, ops, keys4)
        # re-report with the shrunk case first
        rep = core.drive([{"op": "lru", "cap": (None if cap is None else max(cap, 0)), "ops": small}])[0]
        ch.violations.insert(0, ch.violations.pop())  # keep order stable
        first = ch.violations[0]
        impl = run_impl(cap, small, keys4)
        model = model_view(rep, cap, keys4)
        first["input"] = {"cap": cap, "ops": small, "keys": keys4, "shrunk_from_len": len(ops)}
        first["impl"], first["model"] = impl, model
        if first["kind"] == "model-impl-disagree":
            # search continuations for a public-API difference (failing-input search, DESIGN §4.3)
            found = None
            for ext_len in (1, 2, 3):
                for ext in itertools.product(alpha4, repeat=ext_len):
                    cand = small + concretise(tuple([["has", "a"]] * len(small)) + ext)[len(small):]
                    rep2 = core.drive([{"op": "lru", "cap": (None if cap is None else max(cap, 0)), "ops": cand}])[0]
                    i2 = run_impl(cap, cand, keys4)
                    m2 = model_view(rep2, cap, keys4)
                    if (i2["out"], i2["has"], i2["evict_order"]) != (m2["out"], m2["has"], m2["evict_order"]):
                        found = (cand, i2, m2)
                        break
                if found:
                    break
            if found:
                cand, i2, m2 = found
                first.update(kind="impl-violates-spec", input={"cap": cap, "ops": cand, "keys": keys4},
                             impl=i2, model=m2, spec=clause(cap, cand, i2))

    # -- cached_template
    n_t = int((150 if tier == "quick" else 3000) * scale)
    sizes = [0, 1, 2, 3, 128]
    tcases = []
    for i in range(n_t):
        rr = core.rng(PROP, "tmpl", i)
        size = rr.choice(sizes)
        nkeys = rr.randint(2, 5)
        ks = [f"k{j}" for j in range(nkeys)]
        seq = [rr.choice(ks) for _ in range(rr.randint(3, 14))]
        tcases.append((size, seq))
    reps = core.drive([{"op": "tmpl", "cap": size, "keys": seq} for size, seq in tcases])
    for (size, seq), rep in zip(tcases, reps):
        impl = tmpl_impl(size, seq)
        ch.count("tmpl", 1, 1)
        if len(set(seq)) > size > 0:
            ch.nontrivial(("tmpl", size, tuple(seq)))
            ch.branch(["tmpl-evict"])
        if not impl["transparent"] or not impl["types_ok"]:
            ch.violation("impl-violates-spec", "tmpl", {"template_cache_size": size, "sources": seq}, impl=impl,
                         spec="cached_transparent: rendered output must equal compiling afresh")
            break
        if impl["entries"] > size:
            ch.violation("impl-violates-spec", "tmpl", {"template_cache_size": size, "sources": seq}, impl=impl,
                         spec="lru_size_le_cap (through cachedTemplate_is_lru_history)")
            break
        if impl["idents"] != rep["idents"]:
            ch.violation("impl-violates-spec", "tmpl", {"template_cache_size": size, "sources": seq},
                         impl=impl["idents"], model=rep["idents"],
                         spec="cached_identity_stable / cached_miss_is_fresh: identical object exactly while cached (LRU)")
            break
    ch.cov["extracted_template_cache_size_default"] = ch.cov.get("extracted", {}).get("template_cache_size")

    component_stream(ch, core.rng(PROP, "component"))
    inherit_stream(ch, core.rng(PROP, "inherit"), 6 if tier == "quick" else 40)
    n_many = 20000 if tier == "quick" else 120000
    many_keys_stream(ch, n_many)
    ch.cov["many_keys"] = n_many

    ch.cov["rule"] = (
        f"blackbox: all op sequences of length {L} over get/has/set x {KEYS} + clear (every prefix observed) x caps "
        f"{CAPS}, plus {n_rand} random sequences of length 20-200 over 5 keys and caps None,-1,0..5; tmpl: {n_t} "
        "cached_template call sequences; non-trivial = at least one get hit or one eviction (tmpl: more distinct "
        "sources than the cache size); distinct = distinct (cap, ops) / (size, sources)"
    )
    ch.sample({"cap": 2, "ops": concretise((["set", "a"], ["set", "b"], ["get", "a"], ["set", "c"], ["has", "b"]))})
    if tcases:
        ch.sample({"template_cache_size": tcases[0][0], "sources": tcases[0][1]})
    return ch.finish()
