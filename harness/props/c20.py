"""
C20 — autodiscovery selects exactly the public modules, with the right import paths.

Per case a temporary project (outside /repo and /verif, removed afterwards) is generated:
  BASE_DIR/<components dirs>/…  under COMPONENTS.dirs, or legacy STATICFILES_DIRS (str and
  (prefix, path) tuple form), plus 0-2 generated apps (temp packages on sys.path, INSTALLED_APPS
  overridden) with an app-level components directory.
Observables: `get_component_files(suffix)` as a list of (dot_path, path relative to its
directory), in order; for dot-free names additionally `importlib.import_module(dot_path).__file__`.
Oracle: the property's own predicate evaluated on the generated tree.
"""
from __future__ import annotations

import importlib
import os
import shutil
import sys
import tempfile
from typing import Any, Dict, List, Optional, Tuple

from .. import core

PROP = "C20"
THEOREMS = [
    "select_iff",
    "search_nodup",
    "search_dirs_nodup_of_unnested",
    "dotpath_correct",
    "dotpath_injective_on_plain_modules",
    "dotdot_filter_keeps_plain_modules",
    "init_module_is_package",
]

FILE_NAMES = ["a.py", "b.py", "_b.py", "__init__.py", "__main__.py", "x.y.py", "z..py", ".g.py", "n.js", "c.PY", "d.pyc",
              "e.py.txt", "py", "f_.py", "_", "g.css", "h.html", "mod.py", "__init__.pyi"]
DIR_NAMES = ["sub", "_priv", ".hid", "we-ird", "pkg", "deep", "__pycache__", "a.b", "_", "x_"]

_app_counter = [0]


def gen_tree(r, n=None) -> List[List[str]]:
    files = set()
    for _ in range(n or r.randint(1, 9)):
        depth = r.choice([0, 0, 1, 1, 2, 3])
        parts = [r.choice(DIR_NAMES) for _ in range(depth)] + [r.choice(FILE_NAMES)]
        files.add(tuple(parts))
    # avoid a file and a directory with the same path
    dirs = {f[:i] for f in files for i in range(1, len(f))}
    return [list(f) for f in sorted(files) if f not in dirs]


def write_tree(root: str, tree: List[List[str]]) -> None:
    os.makedirs(root, exist_ok=True)
    for f in list(tree):
        p = os.path.join(root, *f)
        try:
            os.makedirs(os.path.dirname(p), exist_ok=True)
            if os.path.isdir(p):
                raise IsADirectoryError(p)
            open(p, "w").close()
        except (NotADirectoryError, IsADirectoryError, FileExistsError):
            # a file and a directory of the same name (possible when several trees share a root): the entry is dropped
            tree.remove(f)


def public(f: List[str], suffix: str) -> bool:
    """the property's predicate"""
    name = f[-1]
    if not name.endswith(suffix):
        return False
    if any(p.startswith(".") for p in f):
        return False
    if any(p.startswith("_") for p in f[:-1]):
        return False
    if name.startswith("_") and name != "__init__.py":
        return False
    return True


def plain(parts: List[str], suffix: str) -> bool:
    """every part is a plain module name: no dot besides the suffix of the file name"""
    name = parts[-1]
    if not name.endswith(suffix) or suffix != ".py":
        return False
    base = name[: -len(suffix)]
    return all("." not in p and p for p in parts[:-1] + [base])


def expected_dot(prefix: List[str], f: List[str], suffix: str) -> str:
    parts = prefix + f[:-1] + [f[-1][: -len(suffix)]]
    if parts[-1] == "__init__":
        parts = parts[:-1]
    return ".".join(parts)


def gen_case(r) -> dict:
    mode = r.choice(["dirs", "dirs", "dirs2", "legacy", "legacy-tuple", "nested"])
    case: Dict[str, Any] = {"mode": mode, "suffix": r.choice([".py", ".py", ".py", ".js", ".css"]), "dirs": [], "apps": []}
    if mode == "nested":
        t = gen_tree(r)
        merged = []
        for f in t + [["sub"] + f for f in gen_tree(r, 3)]:
            if f not in merged:            # the two generated trees may name the same file
                merged.append(f)
        dirs_ = {tuple(f[:i]) for f in merged for i in range(1, len(f))}
        merged = [f for f in merged if tuple(f) not in dirs_]
        case["dirs"] = [{"above": ["components"], "tree": merged},
                        {"above": ["components", "sub"], "tree": None}]
    else:
        names = [["components"]] if mode != "dirs2" else [["components"], ["other", "comps"]]
        for nm in names:
            case["dirs"].append({"above": nm, "tree": gen_tree(r)})
    for _ in range(r.choice([0, 0, 1, 2])):
        _app_counter[0] += 1
        case["apps"].append({"pkg": f"c20app{_app_counter[0]}", "tree": gen_tree(r)})
    # how the directory is spelled in settings: the same directory written un-normalised is the same directory
    # (drawn from a generator of its own so that the trees of earlier runs stay the same)
    r2 = core.rng(PROP, "spell", r.random())
    case["spell"] = [r2.choice(["plain", "plain", "dotdot", "dot", "slash", "Path", "dotdot-Path"]) for _ in case["dirs"]]
    # an explicitly empty `dirs` / `app_dirs` means "none" (not "the default"): the trees stay on disk as decoys
    x = core.rng(PROP, "explicit-empty", r.random()).random()
    if mode in ("dirs", "dirs2") and x < 0.12:
        case["decoy_dir"] = case["dirs"][0]["tree"]
        case["dirs"], case["spell"], case["explicit_empty"] = [], [], "dirs"
    elif case["apps"] and x < 0.24:
        case["decoy_apps"], case["apps"], case["explicit_empty"] = case["apps"], [], "app_dirs"
    # where the project lives: only the path *relative to the component directory* counts, so a hidden or
    # underscore-prefixed directory above the project (~/.local/…, ~/.jenkins/workspace/…, /srv/_build/…) changes nothing
    case["ancestor"] = core.rng(PROP, "ancestor", r.random()).choice([None, None, None, ".ws", "_build", ".hidden/_x"])
    return case


def spelled(base: str, root: str, how: str):
    """`root` (absolute, normalised, below `base`) written the way a settings file might write it"""
    from pathlib import Path

    rel = os.path.relpath(root, base)
    if how.startswith("dotdot"):
        os.makedirs(os.path.join(base, "_cfg"), exist_ok=True)
        p = os.path.join(base, "_cfg", "..", rel)
    elif how == "dot":
        p = os.path.join(base, ".", rel)
    elif how == "slash":
        p = root + "/"
    else:
        p = root
    return Path(p) if how.endswith("Path") else p


def run_case(case: dict) -> Tuple[Any, List[dict], Any]:
    from django.test import override_settings

    from django_components import get_component_files

    tmp_root = os.path.realpath(tempfile.mkdtemp(prefix="djc_c20_"))
    base = os.path.join(tmp_root, *case["ancestor"].split("/"), "proj") if case.get("ancestor") else tmp_root
    os.makedirs(base, exist_ok=True)
    appbase = os.path.join(base, "_site")
    os.makedirs(appbase)
    sys.path.insert(0, appbase)
    try:
        dir_paths = []
        for d in case["dirs"]:
            root = os.path.join(base, *d["above"])
            if d["tree"] is not None:
                write_tree(root, d["tree"])
            dir_paths.append(root)
        # the tree below a nested directory is what is on disk there
        for d, root in zip(case["dirs"], dir_paths):
            if d["tree"] is None:
                t = []
                for dp, _, fns in os.walk(root):
                    for fn in fns:
                        t.append(os.path.relpath(os.path.join(dp, fn), root).split("/"))
                d["tree"] = sorted(t)
        if case.get("decoy_dir") is not None:
            write_tree(os.path.join(base, "components"), case["decoy_dir"])
        installed = ["django_components"]
        for a in case["apps"] + (case.get("decoy_apps") or []):
            pk = os.path.join(appbase, a["pkg"])
            os.makedirs(pk)
            open(os.path.join(pk, "__init__.py"), "w").close()
            write_tree(os.path.join(pk, "components"), a["tree"])
            installed.append(a["pkg"])
        importlib.invalidate_caches()
        comps: Dict[str, Any] = {"autodiscover": False, "app_dirs": [] if case.get("explicit_empty") == "app_dirs" else ["components"]}
        extra: Dict[str, Any] = {"BASE_DIR": base, "INSTALLED_APPS": installed, "STATICFILES_DIRS": []}
        cfg_paths = [spelled(base, p, how) for p, how in zip(dir_paths, case.get("spell") or ["plain"] * len(dir_paths))]
        if case.get("explicit_empty") == "dirs":
            # `dirs = []` is a setting, not the absence of one: the legacy STATICFILES_DIRS fallback must stay off
            extra["STATICFILES_DIRS"] = [os.path.join(base, "components")]
        if case["mode"] == "legacy":
            extra["STATICFILES_DIRS"] = cfg_paths
        elif case["mode"] == "legacy-tuple":
            extra["STATICFILES_DIRS"] = [("pfx", p) for p in cfg_paths]
        else:
            comps["dirs"] = cfg_paths
        impl: Any
        with override_settings(COMPONENTS=comps, **extra):
            try:
                entries = get_component_files(case["suffix"])
                impl = []
                for e in entries:
                    fp = str(e.filepath)
                    owner = None
                    for i, root in enumerate(dir_paths):
                        if fp.startswith(root + "/"):
                            owner = ("dir", i, os.path.relpath(fp, root))
                    for a in case["apps"]:
                        ar = os.path.join(appbase, a["pkg"], "components")
                        if fp.startswith(ar + "/"):
                            owner = ("app", a["pkg"], os.path.relpath(fp, ar))
                    if owner is None and fp.startswith(os.path.dirname(sys.modules["django_components"].__file__)):
                        continue  # the library's own app-level components directory
                    impl.append([e.dot_path, list(owner) if owner else ["?", "", os.path.relpath(fp, base)]])
            except Exception as ex:
                impl = "EXC:" + type(ex).__name__ + ":" + str(ex)[:200]
            # importability of plain modules
            imports = []
            if isinstance(impl, list) and case["suffix"] == ".py":
                sys.path.insert(0, base)
                try:
                    for dot, owner in impl:
                        if owner[0] == "?":
                            continue
                        rel = owner[2].split("/")
                        above = case["dirs"][owner[1]]["above"] if owner[0] == "dir" else [owner[1], "components"]
                        if not plain(above + rel, ".py") or any("-" in p for p in above + rel):
                            continue
                        try:
                            m = importlib.import_module(dot)
                            got = getattr(m, "__file__", None)
                            want = os.path.join(base if owner[0] == "dir" else appbase, *above, *rel)
                            imports.append([dot, got == want])
                        except Exception as ex:
                            imports.append([dot, "EXC:" + type(ex).__name__])
                finally:
                    sys.path.remove(base)
                    for k in list(sys.modules):
                        top = k.split(".")[0]
                        if top in ("components", "other") or top.startswith("c20app"):
                            del sys.modules[k]
        reqs = []
        for d in case["dirs"]:
            reqs.append({"op": "discover", "suffix": case["suffix"], "kind": "dir", "above": d["above"], "tree": d["tree"]})
        for a in case["apps"]:
            reqs.append({"op": "discover", "suffix": case["suffix"], "kind": "app", "pkg": a["pkg"], "above": ["components"], "tree": a["tree"]})
        return impl, reqs, imports
    finally:
        sys.path.remove(appbase)
        shutil.rmtree(tmp_root, ignore_errors=True)
        importlib.invalidate_caches()


def nested(case: dict) -> bool:
    ds = [d["above"] for d in case["dirs"]]
    return any(a != b and a == b[: len(a)] for a in ds for b in ds)


def run(tier: str) -> int:
    ch = core.Check(PROP, tier, THEOREMS)
    ch.assumptions += [
        "glob.iglob(recursive=True) is a parameter: all paths below the directory whose name matches *suffix, names starting with '.' skipped",
        "POSIX paths; component directories are below BASE_DIR; the entries of one run are compared as multisets per directory (glob order is OS order)",
        "a 'plain' path has no dot besides the file suffix and no hyphen; only for those is the dotted path imported and its __file__ compared",
    ]
    ch.build_and_audit()
    core.django_setup()
    n = int((400 if tier == "quick" else 8000) * ch.budget_scale)
    fixed = [{"mode": "nested", "suffix": ".py", "apps": [],
              "dirs": [{"above": ["components"], "tree": [["a.py"], ["sub", "b.py"], ["sub", "__init__.py"]]}, {"above": ["components", "sub"], "tree": None}]},
             {"mode": "dirs", "suffix": ".py", "apps": [{"pkg": "c20appfixed", "tree": [["x.y.py"], ["sub", "z..py"], ["__init__.py"], ["m.py"]]}],
              "dirs": [{"above": ["components"], "tree": [["x.y.py"], ["sub", "z..py"], ["_b.py"], ["_priv", "p.py"], [".hid", "h.py"], ["sub", ".g.py"],
                                                           ["we-ird", "h.py"], ["__init__.py"], ["sub", "__init__.py"], ["pkg", "mod.py"]]}]}]
    fixed += [{"mode": m, "suffix": sfx, "ancestor": anc, "spell": ["plain"], "apps": [{"pkg": f"c20appanc{j}", "tree": [["k.py"], ["k.js"], ["sub", "l.py"]]}],
               "dirs": [{"above": ["components"], "tree": [["a.py"], ["a.js"], ["sub", "b.py"], ["_p.py"], [".h", "c.py"], ["__init__.py"]]}]}
              for j, (m, sfx, anc) in enumerate([("dirs", ".py", ".ws"), ("legacy-tuple", ".py", ".hidden/_x"), ("legacy", ".js", "_build")])]
    fixed += [{"mode": "dirs", "suffix": ".py", "dirs": [], "apps": [], "spell": [], "explicit_empty": "dirs",
               "decoy_dir": [["a.py"], ["sub", "b.py"]]},
              {"mode": "dirs", "suffix": ".py", "dirs": [{"above": ["components"], "tree": [["a.py"]]}], "apps": [], "spell": ["plain"],
               "explicit_empty": "app_dirs", "decoy_apps": [{"pkg": "c20appdecoy", "tree": [["x.py"], ["sub", "y.py"]]}]}]
    cases = fixed + [gen_case(core.rng(PROP, "tree", i)) for i in range(n)]
    results = [run_case(c) for c in cases]
    flat = [r for _, reqs, _ in results for r in reqs]
    reps = core.drive(flat)
    k = 0
    for case, (impl, reqs, imports) in zip(cases, results):
        mine = reps[k:k + len(reqs)]
        k += len(reqs)
        ch.count("tree", 1, 1)
        for rep in mine:
            if "error" in rep:
                raise core.InfraError(f"driver: {rep['error']}")
        shown = {"mode": case["mode"], "suffix": case["suffix"], "dirs": case["dirs"], "apps": case["apps"], "spell": case.get("spell"),
                 "ancestor": case.get("ancestor")}
        if case.get("ancestor"):
            ch.cov["streams"].setdefault("dot-or-underscore-ancestor", {"cases": 0})["cases"] += 1   # a view of `tree`, not extra evaluations
        if case.get("explicit_empty"):
            shown.update(explicit_empty=case["explicit_empty"], decoy_dir=case.get("decoy_dir"), decoy_apps=case.get("decoy_apps"))
        if not isinstance(impl, list):
            ch.violation("impl-violates-spec", "tree", shown, impl=impl, spec="get_component_files raised")
            break
        # model: entries per directory / app
        model = []
        for i, (d, rep) in enumerate(zip(case["dirs"], mine)):
            model += [[dot, ["dir", i, "/".join(f)]] for dot, f in rep["entries"]]
        for a, rep in zip(case["apps"], mine[len(case["dirs"]):]):
            model += [[dot, ["app", a["pkg"], "/".join(f)]] for dot, f in rep["entries"]]
        # oracle: the property's predicate
        exp = []
        for i, d in enumerate(case["dirs"]):
            for f in d["tree"]:
                if public(f, case["suffix"]):
                    exp.append(("dir", i, "/".join(f), expected_dot(d["above"], f, case["suffix"]) if plain(d["above"] + f, case["suffix"]) else None))
        for a in case["apps"]:
            for f in a["tree"]:
                if public(f, case["suffix"]):
                    exp.append(("app", a["pkg"], "/".join(f), expected_dot([a["pkg"], "components"], f, case["suffix"]) if plain([a["pkg"], "components"] + f, case["suffix"]) else None))
        feats = [case["mode"], "apps" if case["apps"] else "no-apps"] + (["explicit-empty-" + case["explicit_empty"]] if case.get("explicit_empty") else [])
        got_keys = sorted((o[0], str(o[1]), o[2]) for _, o in impl)
        exp_keys = sorted((e[0], str(e[1]), e[2]) for e in exp)
        if len(exp) and len(exp) < sum(len(d["tree"]) for d in case["dirs"]) + sum(len(a["tree"]) for a in case["apps"]):
            ch.nontrivial((str(case["dirs"]), str(case["apps"]), case["suffix"]))
        ch.branch(feats)
        problem = None
        if any(o[0] == "?" for _, o in impl):
            problem = "an entry outside every configured directory was returned"
        # a file below two configured directories is attributed to the innermost one by the harness:
        # compare selection as a set of absolute files plus multiplicity
        elif nested(case):
            def absolute(kind, idx, rel):
                return "/".join(case["dirs"][idx]["above"]) + "/" + rel if kind == "dir" else f"{idx}:{rel}"
            got_abs = sorted(absolute(o[0], o[1], o[2]) for _, o in impl)
            exp_abs = sorted({absolute(e[0], e[1], e[2]) for e in exp})
            if sorted(set(got_abs)) != exp_abs:
                problem = "select_iff: the set of selected files differs from the public files with the suffix"
            elif len(got_abs) != len(set(got_abs)):
                dup_model = sorted(absolute(o[0], o[1], o[2]) for _, o in model)
                if got_abs == dup_model:
                    ch.known_hit("nested-dirs-duplicates", {"case": shown, "returned": got_abs})
                    continue
                problem = "search_dirs_nodup: a file is returned more than once"
        elif got_keys != exp_keys:
            problem = "select_iff: the selected files differ from the public files with the suffix (each once)"
        if problem is None:
            # dotted paths of plain modules
            expd = {(e[0], str(e[1]), e[2]): e[3] for e in exp}
            for dot, o in impl:
                want = expd.get((o[0], str(o[1]), o[2]))
                if want is not None and dot != want and not nested(case):
                    problem = f"dotpath_correct: {o[2]} got dot path {dot!r}, Python imports it as {want!r}"
                    break
            for dot, ok in imports:
                if ok is not True:
                    problem = f"dotpath_correct: importing {dot!r} gives {ok} (expected the selected file)"
                    break
        if problem:
            ch.violation("impl-violates-spec", "tree", shown, impl=impl, model=model, spec=problem)
            break
        # dotted names of non-plain files: known finding when the model predicts the same
        bad_dots = [(dot, o) for dot, o in impl if not plain((case["dirs"][o[1]]["above"] if o[0] == "dir" else [o[1], "components"]) + o[2].split("/"), case["suffix"])
                    and case["suffix"] == ".py"]
        if sorted(map(str, impl)) != sorted(map(str, model)):
            ch.violation("model-impl-disagree", "tree", shown, impl=impl, model=model,
                         note="implementation satisfies the property's predicate but the Lean model differs")
            if sum(1 for v in ch.violations if v["kind"] == "model-impl-disagree") > 3:
                break
        elif any("." in f.split("/")[-1][:-3] or any("." in p for p in f.split("/")[:-1]) for _, (_, _, f) in [(d, o) for d, o in bad_dots]):
            ch.known_hit("dotted-names-unimportable", {"entries": [[d, o[2]] for d, o in bad_dots][:3]})
    ch.cov["rule"] = (
        f"{n} random projects: 1-2 component directories (COMPONENTS.dirs, legacy STATICFILES_DIRS in str and tuple form, or a "
        f"nested pair) and 0-2 generated apps, each with a tree of 1-9 files from {len(FILE_NAMES)} names x {len(DIR_NAMES)} directory "
        "names (underscore-/dot-prefixed, dotted, hyphenated, __init__/__main__, wrong-case and look-alike suffixes) at depth 0-3; "
        "suffix from .py/.js/.css; plus 2 fixed cases; non-trivial = some but not all files selected; distinct = distinct project"
    )
    ch.sample(fixed[1])
    return ch.finish()
