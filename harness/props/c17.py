"""
C17 — the static-files finder exposes exactly the allowed, non-forbidden files.

Per case: a temporary tree (outside /repo and /verif, removed afterwards) below a `components`
directory, plus decoys outside it; an allowed / forbidden configuration (suffix strings incl.
multi-dot and regex metacharacters, compiled regexes, empty lists, the deprecated setting name);
then `finder.find(p)` for every file and for traversal / absolute / prefix-trick paths, and
`finder.list([])`.  Compared with the Lean model (driver op `finder`) and with the property's own
predicate (`str.endswith` / `regex.search` on the relative path).
"""
from __future__ import annotations

import os
import re
import shutil
import tempfile
from typing import Any, List, Optional, Tuple

from .. import core

PROP = "C17"
THEOREMS = [
    "valid_iff",
    "suffix_means_endsWith",
    "forbidden_wins",
    "find_iff_list",
    "find_stays_inside",
    "defaults_disjoint_from_backend",
    "defaults_hide_backend",
    "defaults_forbid_backend_explicitly",
    "widened_allowed_still_hides_python",
]

NAMES = ["a.js", "b.min.js", "a.minXjs", "x.JS", "style.css", "t.html", "m.py", "m.pyc", "n.jsx", "weird[1].js", "a+b.css",
         "c.js.py", "d.py.js", "noext", "e.j", ".hidden.js", "ajs", "img.png", "tpl.django", "q.jsX", "z.cssx", "k.tsx"]
DIRS = ["", "sub", "sub/deep", "_priv", "we.ird", "sub/a.js.d"]
SUFFIXES = [".js", ".min.js", ".css", "js", ".j", ".py", "[1].js", "+b.css", ".JS", ".js.py", ".png", ".html", ".jsx", "s", ".d/a.js"]
REGEXES = [r"\.jsx?$", r"min", r"\.(css|png)$", r"[A-Z]", r"^sub/", r"/_"]
PREFIX_SENSITIVE = {r"^sub/", r"/_"}


def gen_case(r, allow_sensitive: bool):
    files = set()
    for _ in range(r.randint(2, 9)):
        d = r.choice(DIRS)
        files.add((d + "/" if d else "") + r.choice(NAMES))
    files = sorted(files)

    def pats(default_ok: bool):
        k = r.random()
        if default_ok and k < 0.25:
            return None  # use the default list
        out: List[Any] = []
        for _ in range(r.randint(0, 4)):
            if r.random() < 0.7:
                out.append(("s", r.choice(SUFFIXES)))
            else:
                rx = r.choice(REGEXES)
                if rx in PREFIX_SENSITIVE and not allow_sensitive:
                    rx = r"min"
                out.append(("r", rx))
        return out

    return {"files": files, "allowed": pats(True), "forbidden": pats(True), "deprecated_name": r.random() < 0.2}


_CASE_NO = [0]


def run_case(case: dict, defaults: dict) -> Tuple[dict, dict, dict]:
    """Returns (impl observation, driver request, oracle expectation)."""
    from django.core.exceptions import SuspiciousFileOperation
    from django.test import override_settings

    from django_components.finders import ComponentsFileSystemFinder

    # a directory whose absolute path holds no random letters: find() tests the patterns against the *absolute* path
    # (known finding), so a random "…min…" in a mkdtemp name would make an unrelated case hit that finding by chance
    _CASE_NO[0] += 1
    base = os.path.join(tempfile.gettempdir(), "djc_c17_%d_%d" % (os.getpid(), _CASE_NO[0]))
    shutil.rmtree(base, ignore_errors=True)
    os.makedirs(base)
    try:
        base = os.path.realpath(base)
        root = os.path.join(base, "components")
        os.makedirs(root)
        for f in case["files"]:
            p = os.path.join(root, f)
            os.makedirs(os.path.dirname(p), exist_ok=True)
            open(p, "w").write("x")
        # decoys outside the component directory
        open(os.path.join(base, "outside.js"), "w").write("x")
        os.makedirs(os.path.join(base, "components_evil"))
        open(os.path.join(base, "components_evil", "a.js"), "w").write("x")

        def conv(ps):
            return None if ps is None else [re.compile(v) if k == "r" else v for k, v in ps]

        comps = {"dirs": [root], "app_dirs": [], "autodiscover": False}
        if case["allowed"] is not None:
            comps["static_files_allowed"] = conv(case["allowed"])
        if case["forbidden"] is not None:
            comps["forbidden_static_files" if case["deprecated_name"] else "static_files_forbidden"] = conv(case["forbidden"])
        queries = list(case["files"]) + [
            "../outside.js", "sub/../../outside.js", os.path.join(base, "outside.js"), "../components_evil/a.js",
            os.path.join(base, "components_evil", "a.js"), "nonexistent.js", "sub/../" + case["files"][0], "./" + case["files"][0],
            root + "/" + case["files"][0], "sub//" + os.path.basename(case["files"][0]),
        ]
        impl = {"find": [], "errors": []}
        with override_settings(COMPONENTS=comps, BASE_DIR=base, STATICFILES_DIRS=[]):
            finder = ComponentsFileSystemFinder()
            for q in queries:
                try:
                    res = finder.find(q)
                    impl["find"].append(os.path.relpath(res, root) if res else None)
                except SuspiciousFileOperation:
                    impl["find"].append(None)
                    impl["errors"].append("SuspiciousFileOperation")
                except Exception as e:
                    impl["find"].append("EXC:" + type(e).__name__)
                    impl["errors"].append(type(e).__name__)
            try:
                impl["list"] = sorted(p for p, _ in finder.list([]))
            except Exception as e:
                impl["list"] = "EXC:" + type(e).__name__
                impl["errors"].append(type(e).__name__)
        # --- model request
        allowed = case["allowed"] if case["allowed"] is not None else [("s", s) for s in defaults["static_files_allowed"]]
        forbidden = case["forbidden"] if case["forbidden"] is not None else [("s", s) for s in defaults["static_files_forbidden"]]
        rxs = sorted({v for k, v in allowed + forbidden if k == "r"})
        rxid = {v: i for i, v in enumerate(rxs)}
        root_comps = [c for c in root.split("/") if c]
        strings = set(case["files"])
        for q in queries:
            strings.add(os.path.abspath(os.path.join(root, q)))
        rxtrue = [[rxid[v], s] for v in rxs for s in sorted(strings) if re.search(v, s)]
        req = {
            "op": "finder",
            "allowed": [["s", v] if k == "s" else ["r", rxid[v]] for k, v in allowed],
            "forbidden": [["s", v] if k == "s" else ["r", rxid[v]] for k, v in forbidden],
            "rxtrue": rxtrue, "root": root_comps, "files": [f.split("/") for f in case["files"]],
            "queries": [{"abs": q.startswith("/"), "path": q.split("/")} for q in queries],
        }

        # --- the property's own predicate, on the relative path
        def matches(p, s):
            k, v = p
            return s.endswith(v) if k == "s" else re.search(v, s) is not None

        def exposed(rel):
            return any(matches(a, rel) for a in allowed) and not any(matches(f, rel) for f in forbidden)

        exp_find = []
        for q in queries:
            ap = os.path.abspath(os.path.join(root, q))
            if ap.startswith(root + "/") and os.path.isfile(ap) and exposed(os.path.relpath(ap, root)):
                exp_find.append(os.path.relpath(ap, root))
            else:
                exp_find.append(None)
        oracle = {"find": exp_find, "list": sorted(f for f in case["files"] if exposed(f))}
        # does some pattern judge a file differently on its absolute path (what find() tests) and on its path relative to
        # the component directory (what list() tests)?  = complement of Djc.Props.C17.PrefixBlind on this case
        blind = all(matches(p_, os.path.join(root, f)) == matches(p_, f) for p_ in allowed + forbidden for f in case["files"])
        meta = {"queries": [q.replace(base, "<base>") for q in queries], "root_len": len(root_comps), "prefix_blind": blind}
        return impl, req, dict(oracle, meta=meta)
    finally:
        shutil.rmtree(base, ignore_errors=True)


def sensitive(case: dict) -> bool:
    for ps in (case["allowed"], case["forbidden"]):
        for k, v in ps or []:
            if (k == "r" and v in PREFIX_SENSITIVE) or (k == "s" and "/" in v):
                return True
    return False


def run_reconfigure(ch, defaults: dict, n: int) -> None:
    """One finder instance that outlives a change of the settings (Django keeps one instance per finder class): built
    while configuration A is in force, asked while configuration B is — what it exposes must be what B says
    (seeded/C17-5: patterns compiled once at construction).  Oracle: the property's own predicate on the relative path;
    prefix-sensitive pattern sets (the listed finding) are left out."""
    from django.test import override_settings

    from django_components.finders import ComponentsFileSystemFinder

    def conv(ps):
        return None if ps is None else [re.compile(v) if k == "r" else v for k, v in ps]

    def comps_of(case, root):
        comps = {"dirs": [root], "app_dirs": [], "autodiscover": False}
        if case["allowed"] is not None:
            comps["static_files_allowed"] = conv(case["allowed"])
        if case["forbidden"] is not None:
            comps["static_files_forbidden"] = conv(case["forbidden"])
        return comps

    done = 0
    for i in range(n * 6):
        if done >= n:
            break
        r = core.rng(PROP, "reconfigure", i)
        a, b = gen_case(r, False), gen_case(r, False)
        if sensitive(a) or sensitive(b):
            continue
        files = a["files"]
        _CASE_NO[0] += 1
        base = os.path.join(tempfile.gettempdir(), "djc_c17_%d_%d" % (os.getpid(), _CASE_NO[0]))
        shutil.rmtree(base, ignore_errors=True)
        os.makedirs(base)
        try:
            base = os.path.realpath(base)
            root = os.path.join(base, "components")
            for f in files:
                p = os.path.join(root, f)
                os.makedirs(os.path.dirname(p), exist_ok=True)
                open(p, "w").write("x")
            allowed = b["allowed"] if b["allowed"] is not None else [("s", x) for x in defaults["static_files_allowed"]]
            forbidden = b["forbidden"] if b["forbidden"] is not None else [("s", x) for x in defaults["static_files_forbidden"]]

            def matches(pt, x):
                k, v = pt
                return x.endswith(v) if k == "s" else re.search(v, x) is not None
            if not all(matches(p_, os.path.join(root, f)) == matches(p_, f) for p_ in allowed + forbidden for f in files):
                continue
            exp = sorted(f for f in files if any(matches(x, f) for x in allowed) and not any(matches(x, f) for x in forbidden))
            with override_settings(COMPONENTS=comps_of(a, root), BASE_DIR=base, STATICFILES_DIRS=[]):
                finder = ComponentsFileSystemFinder()
                warm = sorted(p for p, _ in finder.list([]))
            with override_settings(COMPONENTS=comps_of(b, root), BASE_DIR=base, STATICFILES_DIRS=[]):
                try:
                    got_list = sorted(p for p, _ in finder.list([]))
                    got_find = sorted(f for f in files if finder.find(f))
                except Exception as e:  # noqa
                    got_list = got_find = "EXC:" + type(e).__name__
            done += 1
            ch.count("reconfigure", 1, 1)
            ch.nontrivial(("reconfigure", tuple(files), str(a["allowed"]), str(b["allowed"]), str(b["forbidden"])))
            if got_list != exp or got_find != exp:
                ch.violation("impl-violates-spec", "reconfigure",
                             {"files": files, "built_under": {"allowed": a["allowed"], "forbidden": a["forbidden"]},
                              "asked_under": {"allowed": b["allowed"], "forbidden": b["forbidden"]}},
                             impl={"list": got_list, "find": got_find, "list_when_built": warm},
                             spec={"expected": exp, "clause": "valid_iff: a file is exposed iff the lists in force allow it and do not forbid it"})
                return
        finally:
            shutil.rmtree(base, ignore_errors=True)


def run(tier: str) -> int:
    ch = core.Check(PROP, tier, THEOREMS)
    ch.assumptions += [
        "file names contain no newline (Python's `$` also matches before a final newline; modelled, excluded by hypothesis)",
        "compiled regex entries are opaque predicates; their verdicts on the paths of the case are passed to the model as a table",
        "safe_join / get_files / os.path.exists are Django / OS code: modelled on '/'-separated components, POSIX only",
    ]
    ch.build_and_audit()
    core.django_setup()
    defaults = ch.cov.get("extracted", {})
    if "static_files_allowed" not in defaults or "static_files_forbidden" not in defaults:
        raise core.InfraError("default lists not extracted")
    n = int((1000 if tier == "quick" else 8000) * ch.budget_scale)
    cases = []
    fixed = [
        {"files": ["a.minXjs", "b.min.js"], "allowed": [("s", ".min.js")], "forbidden": [], "deprecated_name": False},
        {"files": ["a.js", "ajs"], "allowed": [("s", "js")], "forbidden": None, "deprecated_name": False},
        {"files": ["m.py", "c.js.py", "d.py.js", "t.html"], "allowed": None, "forbidden": None, "deprecated_name": False},
        {"files": ["sub/a.js", "a.js"], "allowed": [("r", r"^sub/")], "forbidden": [], "deprecated_name": False},
    ]
    for c in fixed:
        cases.append(c)
    for i in range(n):
        r = core.rng(PROP, "tree", i)
        cases.append(gen_case(r, allow_sensitive=(i % 10 == 0)))
    triples = [run_case(c, defaults) for c in cases]
    reps = core.drive([t[1] for t in triples])
    for case, (impl, req, oracle), rep in zip(cases, triples, reps):
        if "error" in rep:
            raise core.InfraError(f"driver: {rep['error']}")
        ch.count("tree", 1, 1)
        for e in impl["errors"]:
            ch.errkind(e)
        root_len = oracle["meta"]["root_len"]
        model = {"find": [("/".join(q[root_len:]) if q is not None else None) for q in rep["find"]],
                 "list": sorted("/".join(f) for f in rep["list"])}
        exposed_n = len(impl["list"]) if isinstance(impl["list"], list) else 0
        if 0 < exposed_n < len(case["files"]):
            ch.nontrivial((tuple(case["files"]), str(case["allowed"]), str(case["forbidden"])))
        ch.branch(["default-allowed" if case["allowed"] is None else "custom-allowed",
                   "default-forbidden" if case["forbidden"] is None else "custom-forbidden"]
                  + (["regex"] if any(k == "r" for k, _ in (case["allowed"] or []) + (case["forbidden"] or [])) else [])
                  + (["prefix-sensitive"] if sensitive(case) else []))
        shown = {"files": case["files"], "allowed": case["allowed"], "forbidden": case["forbidden"],
                 "deprecated_setting_name": case["deprecated_name"], "queries": oracle["meta"]["queries"]}
        obs = {"find": impl["find"], "list": impl["list"]}
        exp = {"find": oracle["find"], "list": oracle["list"]}
        if obs != exp:
            if (sensitive(case) or not oracle["meta"]["prefix_blind"]) and obs == model:
                ch.known_hit("pattern-sees-absolute-path-in-find", {"case": shown, "impl": obs, "expected": exp})
                continue
            ch.violation("impl-violates-spec", "tree", shown, impl=obs, model=model,
                         spec={"expected": exp, "clause": "valid_iff / suffix_means_endsWith / find_iff_list / find_stays_inside"})
            break
        if obs != model:
            ch.violation("model-impl-disagree", "tree", shown, impl=obs, model=model,
                         note="implementation satisfies the property's predicate but the Lean model differs")
            if sum(1 for v in ch.violations if v["kind"] == "model-impl-disagree") > 3:
                break
    run_reconfigure(ch, defaults, 60 if tier == "quick" else 800)
    ch.cov["rule"] = (
        f"{n} random trees of 2-9 files (names from {len(NAMES)} incl. multi-dot, upper-case, look-alike, metacharacter names; "
        f"dirs {DIRS}) x allowed/forbidden lists of 0-4 entries from {len(SUFFIXES)} suffix strings and {len(REGEXES)} compiled "
        "regexes (or the defaults; deprecated setting name in 20%), each queried with find() for every file and 10 traversal / "
        "absolute / prefix-trick paths and with list(); plus 4 fixed cases (witnesses of the repaired defects first); "
        "non-trivial = some but not all files exposed; distinct = distinct (files, allowed, forbidden)"
    )
    ch.sample({"files": ["a.minXjs", "b.min.js"], "allowed": [".min.js"], "forbidden": [], "list": ["b.min.js"]})
    ch.sample(cases[5] if len(cases) > 5 else cases[0])
    return ch.finish()
