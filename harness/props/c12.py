"""
C12 — parsing any tag or template terminates with success or TemplateSyntaxError.

Streams:
  parse_tag   : every string up to a length bound over the 22-symbol syntax alphabet, random strings
                to length 60, mutations of valid tags — `parse_tag(s, None)` vs the Lean model:
                outcome class, `normalized`, and the whole AST.
  template    : the same strings placed inside {% component … %}, {% slot %}, {% fill %},
                {% html_attrs %}, {% provide %} and compiled with `Template(source)`; whole random
                template sources — outcome must be success or TemplateSyntaxError.
  roundtrip   : for every successfully parsed tag, re-parsing the serialisation of every attribute
                gives the same AST (up to start_index).
  cost        : deterministic step counts (`sys.monitoring` line events inside the parser modules)
                for inputs scaled x1, x2, x4; required to stay below c·n² — no wall-clock times.
"""
from __future__ import annotations

import itertools
import sys
from typing import Any, List, Optional

from .. import core

PROP = "C12"
THEOREMS = [
    "step_decreases_measure",
    "parseTag_never_out_of_fuel",
    "run_mono",
    "parseTag_steps_linear",
    "parseTag_total",
    "ws_table_matches_source",
]

ALPHA = ['"', "'", "[", "]", "{", "}", ":", ",", "|", "=", "*", ".", "_", "(", ")", "\\", " ", "\n", "a", "/", "%", "1"]
VALID = ['component "x" a=1', "a=[1, 2,]", 'k={"a": 1, **b}', "...attrs", "x|f:'a b'", '_("t")', "a=[*b, [1]]", 'd={"k": v|f, }',
         "data-x=1 @click=\"f()\"", "a = 1", 'attrs:class="x"', "a=b|f:c|g", "...[1]", 'x=_(  "y"  )', "required / ", '"un', "a='b\\' c'"]


def ast_py(attrs) -> list:
    from django_components.util.tag_parser import TagValue

    def val(v):
        if isinstance(v, TagValue):
            return {"t": "value", "parts": [[p.value, p.quoted, p.spread, p.translation, p.filter] for p in v.parts]}
        return {"t": v.type, "spread": v.spread, "entries": [val(e) for e in v.entries]}

    return [{"key": a.key, "start": a.start_index, "value": val(a.value)} for a in attrs]


def impl_parse(s: str) -> dict:
    from django.template.exceptions import TemplateSyntaxError

    from django_components.util.tag_parser import parse_tag

    try:
        with core.time_limit(5.0):
            norm, attrs = parse_tag(s, None)
        return {"ok": {"norm": norm, "attrs": ast_py(attrs)}}
    except core.Hang:
        return {"err": "HANG(>5s)"}
    except TemplateSyntaxError:
        return {"err": "TemplateSyntaxError"}
    except RecursionError:
        return {"err": "RecursionError"}
    except Exception as e:
        return {"err": type(e).__name__}


def strip_start(a):
    return [{"key": x["key"], "value": x["value"]} for x in a]


def roundtrip(s: str) -> Optional[str]:
    from django_components.util.tag_parser import parse_tag

    try:
        with core.time_limit(5.0):
            _, attrs = parse_tag(s, None)
    except (Exception, core.Hang):
        return None
    try:
        ser = " ".join(a.serialize() for a in attrs)
    except Exception as e:
        return f"serialize raised {type(e).__name__}"
    try:
        with core.time_limit(5.0):
            _, attrs2 = parse_tag(ser, None)
    except core.Hang:
        return f"re-parsing the serialisation {ser!r} hangs"
    except Exception as e:
        return f"re-parsing the serialisation {ser!r} raised {type(e).__name__}"
    if strip_start(ast_py(attrs)) != strip_start(ast_py(attrs2)):
        return f"serialisation {ser!r} parses to different arguments"
    return None


def documented(s: str) -> bool:
    """tags 'written in the documented syntax': assembled by the generator below from grammar productions"""
    return s in _DOCUMENTED


_DOCUMENTED: set = set()


def gen_value(r, depth=0) -> str:
    k = r.random()
    if depth < 3 and k < 0.15:
        items = [r.choice(["", "*"]) + gen_value(r, depth + 1) if r.random() < 0.8 else "*" + r.choice(["xs", "[1, 2]"]) for _ in range(r.randint(0, 3))]
        return "[" + r.choice([", ", ",", " , "]).join(items) + r.choice(["", ",", " ,"]) + "]"
    if depth < 3 and k < 0.3:
        items = []
        for _ in range(r.randint(0, 3)):
            if r.random() < 0.2:
                items.append("**" + r.choice(["d", '{"z": 1}']))
            else:
                items.append(r.choice(['"k"', "key", "'a b'", "k|upper"]) + r.choice([": ", ":", " : "]) + gen_value(r, depth + 1))
        return "{" + ", ".join(items) + r.choice(["", ","]) + "}"
    if k < 0.5:
        lit = r.choice(['"a b"', "'x'", '"it\'s"', "'%}'", '"{{ v }}"', '_("t")', "_('u')", '""'])
        if r.random() < 0.25:      # a literal head with a filter chain (translated filter arguments included)
            lit += "|" + r.choice(["upper", "default", "add"]) + (":" + r.choice(['"z"', '_("tr")', "w"]) if r.random() < 0.6 else "")
        return lit
    base = r.choice(["v", "a.b", "1", "2.5", "True", "None", "x_1"])
    for _ in range(r.choice([0, 0, 1, 2])):
        base += r.choice(["|", " | "]) + r.choice(["upper", "default", "add"]) + (r.choice([":", " : "]) + r.choice(['"z"', "1", "w", '_("tr")', "_('q r')"]) if r.random() < 0.5 else "")
    return base


def gen_tag(r) -> str:
    bits = []
    for _ in range(r.randint(0, 5)):
        k = r.random()
        if k < 0.2:
            bits.append(gen_value(r))
        elif k < 0.3:
            bits.append("..." + r.choice(["attrs", "[1, 2]", '{"a": 1}']))
        else:
            bits.append(r.choice(["a", "b2", "data-x", "@click", "attrs:class", "x:y-z"]) + "=" + gen_value(r))
    s = r.choice([" ", "  ", "\n"]).join(bits)
    _DOCUMENTED.add(s)
    return s


def mutate(r, s: str) -> str:
    s = list(s)
    for _ in range(r.randint(1, 3)):
        k = r.random()
        if s and k < 0.4:
            del s[r.randrange(len(s))]
        elif k < 0.8:
            s.insert(r.randint(0, len(s)), r.choice(ALPHA))
        elif s:
            s[r.randrange(len(s))] = r.choice(ALPHA)
    return "".join(s)


def compile_outcome(src: str) -> str:
    from django.template import Template
    from django.template.exceptions import TemplateSyntaxError

    try:
        with core.time_limit(5.0):
            Template(src)
        return "ok"
    except core.Hang:
        return "HANG(>5s)"
    except TemplateSyntaxError:
        return "TemplateSyntaxError"
    except RecursionError:
        return "RecursionError"
    except Exception as e:
        return type(e).__name__


WRAPPERS = ["{{% component {s} %}}{{% endcomponent %}}", "{{% slot {s} %}}{{% endslot %}}", "{{% component 'c' %}}{{% fill {s} %}}{{% endfill %}}{{% endcomponent %}}",
            "{{% html_attrs {s} %}}", "{{% provide {s} %}}{{% endprovide %}}", "{{% component {s} / %}}", "{{% component_css_dependencies {s} %}}"]


def line_events(fn) -> int:
    """deterministic cost: number of Python line events inside django_components while fn runs"""
    count = [0]
    prefix = str(core.REPO / "src" / "django_components")

    def tracer(frame, event, arg):
        if frame.f_code.co_filename.startswith(prefix):
            if event == "line":
                count[0] += 1
            return tracer
        return None

    old = sys.gettrace()
    sys.settrace(tracer)
    try:
        try:
            with core.time_limit(20.0):
                fn()
        except (Exception, core.Hang):
            pass
    finally:
        sys.settrace(old)
    return count[0]


def run_regex_growth(ch):
    """The parser's regular expressions run in C, where neither line events nor a signal reach: their cost is measured as
    wall-clock time (minimum of 3 runs) on short adversarial inputs that grow by two units per step — an unclosed nested-tag
    opener followed by white space / words, the shape on which an ambiguous alternation backtracks exponentially.  Any
    input of at most ~60 characters on which one match takes more than 0.2 s is reported (the unchanged patterns take
    microseconds)."""
    import importlib
    import re as _re
    import time as _time

    targets = []
    for modname in ("django_components.expression", "django_components.util.tag_parser", "django_components.util.template_parser",
                    "django_components.util.template_tag", "django_components.attributes", "django_components.slots"):
        try:
            mod = importlib.import_module(modname)
        except Exception:  # noqa
            continue
        for name, val in sorted(vars(mod).items()):
            if isinstance(val, _re.Pattern):
                targets.append((modname.split(".")[-1] + "." + name, val.search))
    from django_components.expression import is_dynamic_expression
    targets.append(("expression.is_dynamic_expression", is_dynamic_expression))
    prefixes = ['"{{', '"{%', '"{#', "'{{", "'{% ", "{{", "{% ", "{#", '"', ""]
    units = [" a", " ", "a ", "\n", "a\n", " a\t", "{{ "]
    tails = ["", '"', "'"]
    worst = {}
    for tname, fn in targets:
        for pre in prefixes:
            for unit in units:
                for tail in tails:
                    for k in range(8, 26, 2):
                        src = pre + unit * k + tail
                        best = None
                        for _ in range(3):
                            t0 = _time.perf_counter()
                            try:
                                fn(src)
                            except Exception:  # noqa
                                pass
                            dt = _time.perf_counter() - t0
                            best = dt if best is None or dt < best else best
                            if dt < 0.05:
                                break
                        ch.count("regex-growth", 1, 1)
                        worst[tname] = max(worst.get(tname, 0.0), best)
                        if best > 0.2:
                            ch.violation("impl-violates-spec", "regex-growth", {"function": tname, "input": src, "length": len(src)},
                                         impl={"seconds_min_of_3": round(best, 3)},
                                         spec="time bounded by a quadratic in the input length: one match on an input of %d characters took %.2f s and grows with every unit added" % (len(src), best))
                            ch.cov["regex_growth_worst_seconds"] = {k_: round(v, 6) for k_, v in worst.items()}
                            return
    ch.cov["regex_growth_worst_seconds"] = {k_: round(v, 6) for k_, v in worst.items()}
    ch.assumptions.append("regex-growth: wall-clock (minimum of 3 runs, threshold 0.2 s on inputs of at most ~80 characters); the unchanged patterns need microseconds")


def run(tier: str) -> int:
    ch = core.Check(PROP, tier, THEOREMS)
    ch.assumptions += [
        "wall-clock time and memory are runtime behaviour the model cannot exhibit: the step bound is proved on the model and the real parser's cost is measured in deterministic line events for inputs scaled x1/x2/x4",
        "Django's own Parser / FilterExpression / smart_split are outside the model; the whole-template stream observes only the exception class",
        "'documented syntax' for the round trip = tags assembled by the grammar-directed generator (nested lists/dicts, spreads, filters, translations, special keys)",
    ]
    ch.build_and_audit()
    core.django_setup()
    from django_components import Component, registry

    class _C(Component):
        template = "x"

    try:
        registry.register("c", _C)
    except Exception:
        pass
    L = 4 if tier == "quick" else 5
    strings: List[str] = list(VALID)
    corpus = core.CORPUS / "C12.json"
    if corpus.exists():
        import json

        strings += json.loads(corpus.read_text())
    n_fixed = len(strings)
    alpha = ALPHA if tier == "thorough" else ALPHA[:20]
    for n in range(0, L + 1):
        for tup in itertools.product(alpha, repeat=n):
            strings.append("".join(tup))
    n_ex = len(strings) - n_fixed
    n_rand = int((4000 if tier == "quick" else 100000) * ch.budget_scale)
    for i in range(n_rand):
        r = core.rng(PROP, "rand", i)
        k = i % 3
        if k == 0:
            strings.append("".join(r.choice(ALPHA) for _ in range(r.randint(5, 60))))
        elif k == 1:
            strings.append(gen_tag(r))
        else:
            strings.append(mutate(r, gen_tag(r)))
    # characters outside the syntax alphabet: white space that is not TAG_WHITESPACE (vertical tab, NBSP, NEL, the
    # separators \x1c-\x1f, Unicode spaces), a NUL, a non-ASCII letter — inside and right after unquoted tokens (seeded/C12-4)
    EXOTIC = ["\x0b", "\xa0", "\x85", "\x1c", "\x1f", "\u2003", "\u2028", "\u3000", "\x00", "\u00e9", "\t", "\r", "\x0c"]
    n_exo = int((1500 if tier == "quick" else 30000) * ch.budget_scale)
    n_before_exo = len(strings)
    for i in range(n_exo):
        r = core.rng(PROP, "exotic", i)
        base = list(r.choice(VALID) if i % 3 == 0 else (gen_tag(r) if i % 3 == 1 else "".join(r.choice(ALPHA) for _ in range(r.randint(2, 10)))))
        for _ in range(r.randint(1, 2)):
            c = r.choice(EXOTIC)
            if base and r.random() < 0.4:
                base[r.randrange(len(base))] = c
            else:
                base.insert(r.randint(0, len(base)), c)
        strings.append("".join(base))
    stop = False
    for off in range(0, len(strings), 60000):
        chunk = strings[off:off + 60000]
        reps = core.drive([{"op": "parsetag", "s": s} for s in chunk])
        for k, (s, rep) in enumerate(zip(chunk, reps)):
            if "error" in rep:
                raise core.InfraError(f"driver: {rep['error']}")
            idx = off + k
            stream = "fixed" if idx < n_fixed else ("exhaustive" if idx < n_fixed + n_ex else ("random" if idx < n_before_exo else "exotic"))
            ch.count("parse_tag/" + stream, 1, 1)
            impl = impl_parse(s)
            if "err" in impl:
                ch.errkind(impl["err"])
                if impl["err"] != "TemplateSyntaxError":
                    ch.violation("impl-violates-spec", "parse_tag", {"tag": s}, impl=impl, model=rep,
                                 spec="parseTag_total: outcome must be success or TemplateSyntaxError")
                    stop = True
                    break
            else:
                if len(impl["ok"]["attrs"]) >= 2 or any(a["value"]["t"] != "simple" for a in impl["ok"]["attrs"]):
                    ch.nontrivial(s)
                if documented(s):
                    rt = roundtrip(s)
                    ch.count("roundtrip", 1, 1)
                    if rt:
                        ch.violation("impl-violates-spec", "roundtrip", {"tag": s}, impl=rt,
                                     spec="serialize_parse_roundtrip: re-parsing the canonical serialisation yields the same arguments")
                        stop = True
                        break
            model = {"err": rep["err"]} if "err" in rep else {"ok": rep["ok"]}
            if impl != model:
                ch.violation("model-impl-disagree", "parse_tag", {"tag": s}, impl=impl, model=rep,
                             note="outcome class is fine but the AST / normalized text differs from the Lean model")
                if sum(1 for v in ch.violations if v["kind"] == "model-impl-disagree") > 3:
                    stop = True
                    break
        if stop:
            break
    # whole templates
    if not stop:
        tcases = []
        n_t = int((2500 if tier == "quick" else 60000) * ch.budget_scale)
        for i in range(n_t):
            r = core.rng(PROP, "tmpl", i)
            k = i % 4
            s = r.choice(VALID) if k == 0 else (gen_tag(r) if k == 1 else (mutate(r, gen_tag(r)) if k == 2 else "".join(r.choice(ALPHA) for _ in range(r.randint(1, 12)))))
            if "%}" in s or "{%" in s or "{{" in s or "{#" in s:
                s = s.replace("%}", "% }").replace("{%", "{ %").replace("{{", "{ {").replace("{#", "{ #")
            tcases.append(r.choice(WRAPPERS).format(s=s))
        for src in tcases:
            ch.count("template", 1, 1)
            out = compile_outcome(src)
            ch.errkind("template:" + out)
            if out not in ("ok", "TemplateSyntaxError"):
                ch.violation("impl-violates-spec", "template", {"source": src}, impl=out,
                             spec="componentTag_total: compiling a template raises TemplateSyntaxError or nothing")
                break
    # truncated / damaged templates whose tags hold quoted `%}` (the quote-aware template lexer at work)
    if not stop and not [v for v in ch.violations if v["kind"] == "impl-violates-spec"]:
        seeds_ = ['{% component "c" body="{% lorem 3 w %}" / %}', "{% component 'c' a='%}' b=\"x %} y\" %}z{% endcomponent %}",
                  '<p>{% component "c" t="{{ v }} %}" %}{% fill "s" %}{{ a }}{% endfill %}{% endcomponent %}</p>',
                  '{% x "a %} b" %}', "{%\"%}\"%}", '{% component "c" a="\\" %}" %}{% endcomponent %}',
                  '{# c #}{% component "c" %}{% slot "s" d="%" %}{% endslot %}{% endcomponent %}%']
        tr = []
        # unterminated strings followed by many escapes / quotes (time must stay linear: the watchdog reports a hang)
        for n_ in (8, 30, 60):
            tr += ['{% component "c" a="x ' + "\\\\" * n_, "{% component 'c' p='C:" + "\\\\dir" * n_ + " %}tail",
                   '{% x "' + "\\\"" * n_, '{% component "c" a="' + "ab\\\\" * n_ + '" %}{% endcomponent %}' + "\\\\" * n_ + '{% y "']
        for src in seeds_:
            tr += [src[:k] for k in range(len(src) + 1)]
            tr += [src[:k] + "%" for k in range(0, len(src), 3)]
        n_m = int((600 if tier == "quick" else 20000) * ch.budget_scale)
        for i in range(n_m):
            r = core.rng(PROP, "trunc", i)
            src = r.choice(seeds_)
            a, b = sorted((r.randrange(len(src) + 1), r.randrange(len(src) + 1)))
            tr.append(src[:a] + r.choice(["", "%", '"', "'", "%}", "{%", " "]) + src[b:] if r.random() < 0.5 else src[:a] + src[b:] + r.choice(["%", "", '"']))
        for src in tr:
            ch.count("template/truncated", 1, 1)
            out = compile_outcome(src)
            ch.errkind("truncated:" + out)
            if out not in ("ok", "TemplateSyntaxError"):
                ch.violation("impl-violates-spec", "template/truncated", {"source": src}, impl=out,
                             spec="compiling any template source raises TemplateSyntaxError or nothing")
                break
    # deterministic cost
    from django_components.util.tag_parser import parse_tag

    shapes = {"nested-lists": lambda n: "a=" + "[" * n + "1" + "]" * n, "many-attrs": lambda n: " ".join(f"k{i}=v{i}|f:'x'" for i in range(n)),
              "long-string": lambda n: "a='" + "x\\'" * n + "'", "open-brackets": lambda n: "a=" + "[" * n, "filters": lambda n: "v" + "|f:1" * n,
              "backslashes": lambda n: '"' + "\\" * n, "dict": lambda n: "d={" + ", ".join(f'"k{i}": {i}' for i in range(n)) + "}"}
    cost = {}
    for name, mk in shapes.items():
        base = 40
        c1 = line_events(lambda: parse_tag(mk(base), None))
        c2 = line_events(lambda: parse_tag(mk(base * 2), None))
        c4 = line_events(lambda: parse_tag(mk(base * 4), None))
        n1, n4 = len(mk(base)), len(mk(base * 4))
        cost[name] = {"n": [n1, len(mk(base * 2)), n4], "line_events": [c1, c2, c4]}
        ch.count("cost", 3, 3)
        # quadratic bound: c(4n) <= 16 * c(n) * slack
        if c1 > 0 and c4 > 24 * c1 + 2000:
            ch.violation("impl-violates-spec", "cost", {"shape": name, "sizes": cost[name]["n"]}, impl=cost[name],
                         spec="parseTag_steps_linear / quadratic time: line events grow faster than n^2 when the input is scaled x4")
    ch.cov["cost_line_events"] = cost
    run_regex_growth(ch)
    ch.cov["exhaustive"] = not stop
    ch.cov["rule"] = (
        f"parse_tag: all strings of length <= {L} over {len(alpha)} syntax symbols ({n_ex} strings) + {n_rand} random (uniform to length 60 / "
        "grammar-generated documented tags / mutations of those) + fixed list; every documented tag round-tripped through serialize; "
        "templates: tags wrapped in the 7 django-components tags and compiled; cost: 7 adversarial shapes x 3 sizes in line events; "
        "non-trivial = parse succeeded with >= 2 attributes or a list/dict literal; distinct = distinct string"
    )
    ch.sample({"tag": VALID[1]})
    ch.sample({"tag": strings[-1]})
    return ch.finish()
