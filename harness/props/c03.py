"""
C03 — variable scoping follows the configured context behaviour.

Streams:
  bindings   small directed programs: fills under two to four {% with %} / {% for %} layers written between the
             component tag and the fill, several binding the same name, every fill / slot default / template
             printing every name.  real vs Djc.Render vs Djc.SpecRender (which binding is seen).
  programs        generated programs with colliding names (page context, component data, with / for
                  bindings, slot-data aliases drawn from one small pool), `only` on/off, both modes:
                  real vs Djc.Render (model of the code) and vs Djc.SpecRender (scoping rules of the
                  property: isolated = data + built-ins, fills lexical; django = layering).
  noninterference 2-run: a page that holds one component tag whose arguments are literals is rendered
                  under two outer contexts that differ in every variable; in isolated mode (or with
                  `only`) the outputs must be identical.
  restore         the caller's Context.dicts and render_context depth before vs after a render
                  (successful or failing).
"""
from __future__ import annotations

from .. import core, tplgen
from .. import render_common as rc

PROP = "C03"
THEOREMS = ["fill_content_scope_in_trees", "insert_pop_restores", "insert_minus_one_restores", "isolated_copy_hides", "not_isolated_hides_everything",
            "captured_between_outer_and_inner", "captured_above_inner_data_when_nested", "plain_output_independent_of_world", "usable_name_facts", "leaf_component_isolated_sees_only_its_data", "leaf_component_isolated_noninterference", "leaf_component_with_slots_isolated", "fill_is_lexically_scoped_isolated"]

PROFILE = dict(parentloop_in_fill=True, collide=0.8, p_only=0.25, w_with=3, w_for=2, w_slot=4, w_comp=5, p_data_alias=0.5, p_default_alias=0.2,
               p_fill_in_ctl=0.5, p_forloop_print=0.35)
REGIONS = ["isolated-captured-under-enclosing-data", "default-alias-render-sees-fill-aliases", "captured-parentloop-aliased", "forloop-layer-leaks-into-isolated", "django-only-fill-loses-outer", "django-slot-owner-override",
           "django-captured-over-data"]


def run_programs(chk, n):
    progs = []
    for i in range(n):
        g = tplgen.Gen(core.rng(PROP, "programs", i), PROFILE)
        p = g.program()
        if i % 4 == 3:
            # the mode comes from the registry's own settings; the global setting says the opposite
            p["own_registry"] = True
        progs.append(p)
        chk.branch(list(g.features.keys()) + ["mode:" + ("isolated" if p["isolated"] else "django"),
                                              "registry:own" if p.get("own_registry") else "registry:default"])
    reps = rc.batch(progs)
    for p, (rep, sp) in zip(progs, reps):
        real = tplgen.run_real(p, limit=20.0)
        chk.count("programs", 1, validated=1)
        chk.errkind(real["err"] or "ok")
        chk.nontrivial(real["out"] or real["err"])
        rc.classify(chk, "programs", p, real, rep, sp, REGIONS)
        # restore: the caller's context is what it was
        if "ctx_before" in real:
            chk.count("restore", 1, validated=1)
            if real["ctx_before"] != real["ctx_after"] or real["rc_before"] != real["rc_after"]:
                pl = rc.replay_payload(p, real, rep, sp, why="caller's Context changed by the render")
                chk.violation("impl-violates-spec", "restore", pl["program"], impl={"before": str(real["ctx_before"])[:500],
                              "after": str(real["ctx_after"])[:500], "rc": [real["rc_before"], real["rc_after"]]},
                              note=" || ".join(pl["source"]))


def gen_bindings(r):
    """a small directed program: fills under two to four binding layers ({% with %} / {% for %}) written between the
    component tag and the fill, several of them binding the *same* name, every fill printing every name"""
    T, V, L = tplgen.lit, tplgen.var, (lambda s: {"t": "text", "s": s})
    names = ["a", "b", "c"]
    show = lambda tag: [L(tag)] + [nd for n in names for nd in ({"t": "out", "e": V(n)}, L(","))]
    slots = ["s1", "s2"]
    inner_data = [[n, {"const": tplgen.sval("I" + n)}] for n in r.sample(names, r.randint(0, 2))]
    c0 = {"name": "c0", "data": inner_data,
          "template": [{"t": "slot", "name": T(sl), "default": False, "required": False,
                        "data": [["k1", V("a")]] if r.random() < 0.3 else [], "body": show("D")} for sl in slots] + show("T")}

    def layers(k, body):
        for j in range(k):
            x = r.choice(names[:2]) if r.random() < 0.75 else r.choice(names)
            if r.random() < 0.75:
                body = [{"t": "with", "x": x, "e": T("W%d%s" % (j, x)) if r.random() < 0.7 else V(r.choice(names)), "body": body}]
            else:
                body = [{"t": "for", "x": x, "e": V("one"), "body": body}]
        return body
    fills = []
    for sl in r.sample(slots, r.randint(1, 2)):
        f = {"t": "fill", "name": T(sl), "data": "sd" if r.random() < 0.3 else None, "dflt": None, "body": show("F")}
        fills += layers(r.randint(1, 3), [f])
    if r.random() < 0.5:
        fills = layers(1, fills)              # a layer shared by all fills
    tag = {"t": "comp", "name": "c0", "kwargs": [["a", T("Ka")]] if r.random() < 0.3 else [], "only": r.random() < 0.2, "dyn": False,
           "body": fills}
    outer = r.random()
    lib = [c0]
    if outer < 0.4:
        page = [tag]
    elif outer < 0.7:
        page = [{"t": "with", "x": r.choice(names), "e": T("P"), "body": [tag]}]
    else:
        lib = [{"name": "c1", "data": [[n, {"const": tplgen.sval("O" + n)}] for n in r.sample(names, r.randint(0, 2))],
                "template": [tag] + show("U")}, c0]
        page = [{"t": "comp", "name": "c1", "kwargs": [], "only": False, "dyn": False, "body": []}]
    ctx = [[n, tplgen.sval("X" + n)] for n in names if r.random() < 0.7] + [["one", {"l": [tplgen.sval("o")]}]]
    return {"isolated": r.random() < 0.5, "lib": lib, "entry": {"page": page}, "ctx": ctx, "raise": None}


def run_bindings(chk, n):
    """which binding does a fill see when several layers between the component tag and the fill bind one name"""
    progs = [gen_bindings(core.rng(PROP, "bindings", i)) for i in range(n)]
    reps = rc.batch(progs)
    for p, (rep, sp) in zip(progs, reps):
        real = tplgen.run_real(p, limit=20.0)
        chk.count("bindings", 1, validated=1)
        chk.errkind(real["err"] or "ok")
        chk.nontrivial(real["out"] or real["err"])
        chk.branch(["bindings:mode:" + ("isolated" if p["isolated"] else "django")])
        rc.classify(chk, "bindings", p, real, rep, sp, REGIONS)


def gen_loops(r):
    """directed: a component tag under two or three nested {% for %} loops written in *another component's template* (so
    the instance is queued and rendered after the loops have finished), whose own template — and, under the tag, fill
    content — reads the loop state through `forloop` / `forloop.parentloop` / `forloop.parentloop.parentloop`: what
    prints is the state at the tag, not the state the loops have reached later (seeded/C03-4: the outermost loop's
    dict stayed shared with the running loop)."""
    T, V, L = tplgen.lit, tplgen.var, (lambda s: {"t": "text", "s": s})
    depth = r.choice([2, 2, 3])
    chain = [["forloop", "counter"], ["forloop", "parentloop", "counter"], ["forloop", "parentloop", "parentloop", "counter"]][:depth]
    show = lambda tag: [L(tag)] + [nd for c in chain for nd in ({"t": "out", "e": V(*c)}, L("."))]
    c1 = {"name": "c1", "data": [], "template": [L("[")] + show("T") + [
        {"t": "slot", "name": T("s1"), "default": False, "required": False, "data": [], "body": show("D")}, L("]")]}
    body = [{"t": "fill", "name": T("s1"), "data": None, "dflt": None, "body": show("F")}] if r.random() < 0.3 else []
    node = [{"t": "comp", "name": "c1", "kwargs": [], "only": False, "dyn": False, "body": body}, L("|")]
    lists = ["xs", "ys", "zs"]
    for j in range(depth):
        node = [{"t": "for", "x": "v%d" % j, "e": V(lists[j]), "body": node}]
    c0 = {"name": "c0", "data": [[l, {"kwarg": l}] for l in lists], "template": [L("(")] + node + [L(")")]}
    page = [{"t": "comp", "name": "c0", "kwargs": [[l, V(l)] for l in lists], "only": False, "dyn": False, "body": []}]
    ctx = [[l, {"l": [tplgen.sval(w) for w in r.sample(tplgen.WORDS, r.randint(2, 3))]}] for l in lists]
    return {"isolated": r.random() < 0.4, "lib": [c0, c1], "entry": {"page": page}, "ctx": ctx, "raise": None}


def run_loops(chk, n):
    progs = [gen_loops(core.rng(PROP, "loops", i)) for i in range(n)]
    reps = rc.batch(progs)
    for p, (rep, sp) in zip(progs, reps):
        real = tplgen.run_real(p, limit=20.0)
        chk.count("loops", 1, validated=1)
        chk.errkind(real["err"] or "ok")
        chk.nontrivial(("loops", real["out"] or real["err"]))
        chk.branch(["loops:mode:" + ("isolated" if p["isolated"] else "django")])
        rc.classify(chk, "loops", p, real, rep, sp, REGIONS)


def gen_alias_layer(r):
    """directed: an isolated component (isolated mode, or `only`) used inside a fill whose `data=` / `default=` alias was set
    while a provider of the inner component is alive around the slot — the alias lives on the Context layer that also
    holds the provider's key, and must still not reach the isolated component (seeded/C03-5: whole layers forwarded)"""
    T, V, L = tplgen.lit, tplgen.var, (lambda s: {"t": "text", "s": s})
    alias = r.choice(["a", "b", "sd"])
    names = ["a", "b", "c", "sd"]
    show = [L("[")] + [nd for n in names for nd in ({"t": "out", "e": V(n)}, L(","))] + [L("]")]
    isolated = r.random() < 0.6
    c1 = {"name": "c1", "data": [["g", {"inject": "pk", "dflt": "none"}]] if r.random() < 0.5 else [], "template": show + [{"t": "out", "e": V(alias, "k1")}]}
    slot = {"t": "slot", "name": T("s1"), "default": False, "required": False, "data": [["k1", T("SD")]], "body": [L("D")]}
    inner = [slot] if r.random() < 0.15 else [{"t": "provide", "key": "pk", "kwargs": [["k1", T("P")]], "body": [slot]}]
    c0 = {"name": "c0", "data": [], "template": [L("(")] + inner + [L(")")]}
    tag1 = {"t": "comp", "name": "c1", "kwargs": [], "only": (not isolated) or r.random() < 0.3, "dyn": False, "body": []}
    fill = {"t": "fill", "name": T("s1"), "data": alias if r.random() < 0.7 else None, "dflt": None if r.random() < 0.7 else "df",
            "body": [L("F")] + show + [tag1]}
    page = [{"t": "comp", "name": "c0", "kwargs": [], "only": False, "dyn": False, "body": [fill]}]
    ctx = [[n, tplgen.sval("X" + n)] for n in names if r.random() < 0.5]
    return {"isolated": isolated, "lib": [c0, c1], "entry": {"page": page}, "ctx": ctx, "raise": None}


def run_alias_layer(chk, n):
    progs = [gen_alias_layer(core.rng(PROP, "alias-layer", i)) for i in range(n)]
    reps = rc.batch(progs)
    for p, (rep, sp) in zip(progs, reps):
        real = tplgen.run_real(p, limit=20.0)
        chk.count("alias-layer", 1, validated=1)
        chk.errkind(real["err"] or "ok")
        chk.nontrivial(("alias-layer", real["out"] or real["err"]))
        chk.branch(["alias-layer:mode:" + ("isolated" if p["isolated"] else "django")])
        rc.classify(chk, "alias-layer", p, real, rep, sp, REGIONS)


def run_noninterference(chk, n):
    for i in range(n):
        r = core.rng(PROP, "noninterference", i)
        g = tplgen.Gen(r, dict(PROFILE, p_only=0.0))
        p = g.program()
        name = p["lib"][0]["name"]
        isolated = r.random() < 0.7
        only = (not isolated)
        kw = [[k, tplgen.lit(g.word())] for k in r.sample(tplgen.KEYS + tplgen.SCALARS, r.randint(0, 3))]
        page = [{"t": "comp", "name": name, "only": only, "dyn": False, "body": [], "kwargs": kw}]
        # every component tag inside the library is `only` too when the mode is django
        def fix(nd):
            if nd["t"] == "comp" and not isolated:
                nd = dict(nd, only=True)
            return nd
        lib = [dict(d, template=tplgen.map_nodes(d["template"], fix)) for d in p["lib"]]
        ctx1 = p["ctx"]
        ctx2 = [[k, tplgen.sval("Z" + str(j))] for j, k in enumerate(tplgen.SCALARS + ["v", "w", "u", "g", "h"])] + \
               [["xs", {"l": [tplgen.sval("Z")]}], ["ys", {"l": []}], ["one", {"l": []}], ["sl", {"l": [tplgen.sval("s1")]}]]
        p1 = dict(p, isolated=isolated, lib=lib, entry={"page": page}, ctx=ctx1)
        p2 = dict(p1, ctx=ctx2)
        a = tplgen.run_real(p1, limit=20.0)
        b = tplgen.run_real(p2, limit=20.0)
        chk.count("noninterference", 1, validated=2)
        oa = a["err"] or tplgen.canon_real(a["out"], a["hash2name"])
        ob = b["err"] or tplgen.canon_real(b["out"], b["hash2name"])
        if oa == ob:
            continue
        (rep, sp), = rc.batch([p1])
        if rc.cmp_model(a, rep) is None and (rc.r_forloop_leak(p1) or (not isolated and rc.r_django_only_fill(p1))):
            chk.known_hit("forloop-layer-leaks-into-isolated" if rc.r_forloop_leak(p1) else "django-only-fill-loses-outer",
                          rc.describe(p1))
            continue
        pl = rc.replay_payload(p1, a, rep, sp, why="output depends on a variable that was not passed")
        chk.violation("impl-violates-spec", "noninterference", pl["program"], impl={"ctx1": oa, "ctx2": ob},
                      note=" || ".join(pl["source"]) + " || CTX2 " + str(ctx2))


def run(tier: str) -> int:
    chk = core.Check(PROP, tier, THEOREMS, "DESIGN.md §8 render pipeline / C03")
    chk.build_and_audit()
    core.use_repo()
    core.django_setup()
    n = 600 if tier == "quick" else 12000
    run_programs(chk, n)
    run_bindings(chk, n // 2)
    run_loops(chk, 30 if tier == "quick" else 400)
    run_alias_layer(chk, 40 if tier == "quick" else 500)
    run_noninterference(chk, n // 3)
    chk.assumptions += [
        "names from a pool of eight so that collisions are common; values str / list[str] / dict",
        "noninterference stream: arguments are literals, so nothing of the outer context is passed",
    ]
    return chk.finish()


def replay(doc) -> int:
    return rc.replay(PROP, doc)
