"""
C10 — stock templating is preserved: unchanged alone, composes with components.

Streams:
  pinned      fixed families inside the region of the known finding (extends-based components nested in each other / in a
              block of an extending page): the real output must equal the flattening's, or exactly the output recorded
              for the unchanged tree in findings/C10-pinned.json (KNOWN-FINDING); anything else is a violation.
  stock      generated templates and template families that do not use the library (extends, include,
             block with block.super, for / if / with / filter / autoescape / firstof / cycle / comment,
             quotes of both kinds with spaces in tag arguments), over generated contexts and both
             engine.debug values: compiled and rendered once with the patched Template class and once
             with the ORIGINAL Template.compile_nodelist / Template.render (saved before django.setup()
             applies the patch): tokens, output bytes, exception type and message, Context.dicts and
             render_context depth afterwards must be identical.
  flatten    stock families vs Djc.Blocks.flattenTpl of the family (op "flatten"), both rendered by
             Django: validates the flattener that the composition stream uses as its oracle.
  compose    generated component programs (as in C01) in which the page and/or component templates are
             split into base + child (+ include) families, rendered by the real code, compared with the
             real render of the flattened program; both context_behavior values.
"""
from __future__ import annotations

import copy
import json
import os
import sys

from .. import core, tplgen
from .. import render_common as rc

PROP = "C10"
THEOREMS = ["lexer_neutral_without_quotes", "plain_template_takes_stock_path", "only_marked_templates_differ",
            "block_without_override", "override_wins", "subst_without_super", "override_without_super_replaces", "flatten_plain", "flatten_leaves_plain_templates_alone"]

ORIG = {}


def save_originals():
    """before django.setup(): the methods the library replaces"""
    from django.template.base import Template
    if not ORIG:
        assert not getattr(Template, "_djc_patched", False), "Template already patched: originals are lost"
        ORIG["compile_nodelist"] = Template.compile_nodelist
        ORIG["render"] = Template.render


class stock_template_class:
    """temporarily the unpatched Template class"""

    def __enter__(self):
        from django.template.base import Template
        self.saved = (Template.compile_nodelist, Template.render)
        Template.compile_nodelist = ORIG["compile_nodelist"]
        Template.render = ORIG["render"]

    def __exit__(self, *a):
        from django.template.base import Template
        Template.compile_nodelist, Template.render = self.saved


# ------------------------------------------------------------------ stock template generator

WORDS = ["A", "b1", "C c", "x", "-", "..", "q"]
NAMES = ["a", "b", "c", "xs", "m"]


class StockGen:
    def __init__(self, r):
        self.r = r

    def quoted(self):
        r = self.r
        s = r.choice(["v", "two words", "it's", 'say "hi"', "%", "a}b", "{", "x y z", "", "two  spaces", " lead", "tab\there"])
        q = r.choice(["'", '"'])
        if q in s:
            # the other quote kind is dropped, or (as often) kept as a backslash-escaped quote
            s = s.replace(q, "\\" + q if r.random() < 0.5 else "")
        if r.random() < 0.15:
            # backslash escapes: inside the string, and an escaped backslash right before the closing quote (seeded/C10-3)
            s = r.choice(["a\\\\b", s + "\\\\", "\\\\", "C:\\\\", "x\\\\" + "\\" + q + "y"])
        return q + s + q

    def expr(self):
        r = self.r
        e = r.choice(NAMES + ["m.k", "xs.0", "nope"]) if r.random() < 0.7 else self.quoted()
        for _ in range(r.randint(0, 2)):
            f = r.choice(["upper", "lower", "length", "default:" + self.quoted(), "add:" + self.quoted(), "join:" + self.quoted(),
                          "safe", "escape", "first", "cut:" + self.quoted(), "yesno:" + self.quoted()])
            e += "|" + f
        return e

    def body(self, d, blocks=None, in_for=False):
        return "".join(self.item(d, blocks, in_for) for _ in range(self.r.randint(1, 3)))

    def item(self, d, blocks, in_for):
        r = self.r
        k = r.random()
        if d <= 0 or k < 0.25:
            return r.choice(WORDS) + r.choice(["", " ", "\n"])
        if k < 0.45:
            return "{{ " + self.expr() + " }}"
        if k < 0.55:
            return "{% if " + r.choice(NAMES + ["nope"]) + r.choice(["", " == " + self.quoted(), " and b", " or not c"]) + " %}" + \
                self.body(d - 1, blocks, in_for) + ("{% else %}" + self.body(d - 1, blocks, in_for) if r.random() < 0.5 else "") + "{% endif %}"
        if k < 0.65:
            return "{% for v in " + r.choice(["xs", "m", "nope", "a"]) + " %}" + self.body(d - 1, blocks, True) + \
                ("{{ forloop.counter }}" if r.random() < 0.5 else "") + \
                ("{% empty %}E" if r.random() < 0.3 else "") + "{% endfor %}"
        if k < 0.72:
            return "{% with w=" + self.expr() + " %}" + self.body(d - 1, blocks, in_for) + "{{ w }}{% endwith %}"
        if k < 0.77:
            return "{% autoescape " + r.choice(["on", "off"]) + " %}" + self.body(d - 1, blocks, in_for) + "{% endautoescape %}"
        if k < 0.82:
            return "{% firstof " + " ".join(r.choice(NAMES + ["nope", self.quoted()]) for _ in range(r.randint(1, 3))) + " %}"
        if k < 0.86 and in_for:
            return "{% cycle " + " ".join(self.quoted() for _ in range(r.randint(1, 3))) + " %}"
        if k < 0.885:
            # verbatim blocks (bare or named without quotes) whose body holds tags with quoted arguments: stock keeps every
            # character of the body as text (seeded/C10-5: quoted tags inside the block came alive)
            nm = r.choice(["", "", " vb"])
            inner = r.choice(["{% if a == " + self.quoted() + " %}hi{% endif %}", "{{ a|default:" + self.quoted() + " }}",
                              "{% firstof " + self.quoted() + " %}", "{% include " + self.quoted() + " %}", "{% load " + self.quoted() + " %}t",
                              "x{% for v in xs %}" + self.quoted() + "{% endfor %}"])
            return "{% verbatim" + nm + " %}" + inner + "{% endverbatim" + nm + " %}"
        if k < 0.9:
            return r.choice(["{# note #}", "{% comment %}hidden {{ a }}{% endcomment %}", "{% comment " + self.quoted() + " %}x{% endcomment %}"])
        if k < 0.95 and blocks is not None and len(blocks) < 4:
            name = "blk%d" % len(blocks)
            blocks.append(name)
            return "{% block " + name + " %}" + self.body(d - 1, blocks, in_for) + "{% endblock %}"
        return "{% now " + self.quoted().replace("%", "") + " %}" if r.random() < 0.0 else r.choice(WORDS)

    def family(self):
        """{name: source}, root name"""
        r = self.r
        fam = {}
        blocks = []
        fam["base"] = self.body(3, blocks)
        root = "base"
        if r.random() < 0.2:
            fam["inc"] = self.body(2, None)
            fam["base"] += '{% include "inc" %}' if r.random() < 0.7 else "{% include " + r.choice(["'inc'", '"inc"']) + " with a=" + self.quoted() + " %}"
        if blocks and r.random() < 0.3:
            # an included template that is itself a family with the SAME block names
            fam["inc_base"] = "".join("[{% block " + b + " %}I" + b + "{% endblock %}]" for b in blocks)
            fam["inc_child"] = '{% extends "inc_base" %}' + "".join(
                "{% block " + b + " %}J{{ block.super }}{% endblock %}" for b in r.sample(blocks, r.randint(0, len(blocks))))
            fam["base"] += '{% include "inc_child" %}'
        depth = r.randint(0, 2)
        parent = "base"
        for lvl in range(depth):
            name = "child%d" % lvl
            src = '{% extends "' + parent + '" %}' if r.random() < 0.7 else "{% extends '" + parent + "' %}"
            for b in r.sample(blocks, r.randint(0, len(blocks))) if blocks else []:
                inner = self.body(2, None)
                if r.random() < 0.5:
                    inner = inner + "{{ block.super }}" if r.random() < 0.5 else "{{ block.super }}" + inner
                src += r.choice(["", "\n"]) + "{% block " + b + " %}" + inner + "{% endblock %}"
            fam[name] = src
            parent = name
            root = name
        return fam, root

    def context(self):
        r = self.r
        return {"a": r.choice(["", "val", "<b>", "it's"]), "b": r.choice([True, False, 0, 3]), "c": r.choice([None, "c"]),
                "xs": r.choice([[], ["p", "q"], ["<i>"]]), "m": r.choice([{}, {"k": "kv", "z": 1}])}


def make_engine(fam, debug):
    from django.template import Engine
    return Engine(debug=debug, loaders=[("django.template.loaders.locmem.Loader", dict(fam))],
                  builtins=["django_components.templatetags.component_tags"])


def observe(fam, root, ctxvals, debug):
    from django.template import Context
    from django.template.base import DebugLexer, Lexer
    eng = make_engine(fam, debug)
    obs = {}
    try:
        t = eng.get_template(root)
        ctx = Context(copy.deepcopy(ctxvals))
        ctx.template = None
        before = (len(ctx.dicts), len(ctx.render_context.dicts))
        try:
            out = t.render(ctx)
            obs["out"] = str(out)
            obs["safe"] = type(out).__name__
        except Exception as e:  # noqa
            obs["render_err"] = [type(e).__name__, str(e)[:300]]
        obs["ctx"] = [repr(ctx.dicts), len(ctx.dicts) - before[0], len(ctx.render_context.dicts) - before[1]]
    except Exception as e:  # noqa
        obs["compile_err"] = [type(e).__name__, str(e)[:300]]
    return obs


def run_stock(chk, n):
    for i in range(n):
        r = core.rng(PROP, "stock", i)
        g = StockGen(r)
        fam, root = g.family()
        ctx = g.context()
        for debug in (False, True):
            a = observe(fam, root, ctx, debug)
            with stock_template_class():
                b = observe(fam, root, ctx, debug)
            chk.count("stock", 1, validated=1)
            chk.errkind("compile_err" if "compile_err" in b else "render_err" if "render_err" in b else "ok")
            chk.nontrivial((b.get("out"), tuple(sorted(fam.items()))))
            chk.branch(["family_depth:%d" % (len([k for k in fam if k.startswith("child")])), "debug:%s" % debug,
                        "include" if "inc" in fam else "noinclude", "quotes" if any(q in s for s in fam.values() for q in "'\"") else "noquotes"])
            if a != b:
                chk.violation("impl-violates-spec", "stock", {"family": fam, "root": root, "context": repr(ctx), "debug": debug},
                              impl=a, spec=b, note="patched Template class differs from the original methods")
                return


# ------------------------------------------------------------------ families of component programs

def split_template(r, nodes, name, fam, shared_names):
    """split a node list into base + child: some top-level stretches become blocks; the child overrides some"""
    if len(nodes) < 1:
        return nodes
    base = []
    overrides = []
    k = 0
    for nd in nodes:
        if r.random() < 0.5:
            bname = ("b%d" % k) if shared_names else ("%s_b%d" % (name, k))
            k += 1
            mode = r.random()
            if mode < 0.4:
                # the child overrides the block entirely: the base holds a decoy
                base.append({"t": "block", "name": bname, "body": [{"t": "text", "s": "DECOY"}]})
                overrides.append({"t": "block", "name": bname, "body": [nd]})
            elif mode < 0.7:
                # the child extends the parent's content with block.super
                base.append({"t": "block", "name": bname, "body": [nd]})
                overrides.append({"t": "block", "name": bname, "body": [{"t": "text", "s": "("}, {"t": "super"}, {"t": "text", "s": ")"}]})
            else:
                base.append({"t": "block", "name": bname, "body": [nd]})
        elif r.random() < 0.15:
            inc = name + "_inc%d" % len(fam)
            fam[inc] = [nd]
            base.append({"t": "include", "name": inc})
        else:
            base.append(nd)
    fam[name + "_base"] = base
    return [{"t": "extends", "parent": name + "_base"}] + overrides


def p_family_node(n):
    t = n["t"]
    if t == "block":
        return "{% block " + n["name"] + " %}" + p_family(n["body"]) + "{% endblock %}"
    if t == "super":
        return "{{ block.super }}"
    if t == "extends":
        return '{% extends "' + n["parent"] + '" %}'
    if t == "include":
        return '{% include "' + n["name"] + '" %}'
    return None


def p_family(nodes):
    out = []
    for n in nodes:
        s = p_family_node(n)
        if s is None:
            # plain node: print with family-aware bodies
            m = dict(n)
            s = tplgen.p_node(m) if not any(k in n for k in ("a", "b", "body")) else p_plain_with_children(n)
        out.append(s)
    return "".join(out)


def p_plain_with_children(n):
    """print a structural node whose bodies may contain family nodes: print bodies separately and splice"""
    marks = {}
    m = dict(n)
    for key in ("a", "b", "body"):
        if key in n:
            token = "\x00%s\x00" % key
            marks[token] = p_family(n[key])
            m[key] = [{"t": "text", "s": token}] if n[key] else []
    s = tplgen.p_node(m)
    for token, val in marks.items():
        s = s.replace(token, val)
    return s


def run_compose(chk, n):
    from django.template import engines
    loader = engines["django"].engine.template_loaders[0]
    for i in range(n):
        r = core.rng(PROP, "compose", i)
        g = tplgen.Gen(core.rng(PROP, "programs", i), dict(p_required=0.0, p_malformed=0.0, w_comp=5, w_slot=4, depth=3))
        p = g.program()
        shared = r.random() < 0.5
        fam = {}
        famprog = copy.deepcopy(p)
        split_any = False
        for d in famprog["lib"]:
            if r.random() < 0.5:
                d["template"] = split_template(r, d["template"], d["name"], fam, shared)
                split_any = True
        if r.random() < 0.5 or not split_any:
            famprog["entry"]["page"] = split_template(r, famprog["entry"]["page"], "page", fam, shared)
        # flatten with the Lean model
        family_json = [[k, v] for k, v in fam.items()] + [[d["name"], d["template"]] for d in famprog["lib"]] + \
                      [["__page__", famprog["entry"]["page"]]]
        roots = [d["name"] for d in famprog["lib"]] + ["__page__"]
        rep = core.drive([{"op": "flatten", "family": family_json, "roots": roots}])[0]
        if "error" in rep:
            raise core.InfraError("flatten: " + rep["error"])
        flat = copy.deepcopy(p)
        for d, t in zip(flat["lib"], rep["flat"]):
            d["template"] = t
        flat["entry"]["page"] = rep["flat"][-1]
        # the flattening must give back the original program (the split is its inverse up to the wrappers)
        # real renders: family program vs flattened program
        for name, nodes in fam.items():
            loader.templates_dict[name] = p_family(nodes)
        old_p_nodes = tplgen.p_nodes
        try:
            tplgen.p_nodes = p_family
            a = tplgen.run_real(famprog, limit=20.0)
        finally:
            tplgen.p_nodes = old_p_nodes
            for name in fam:
                loader.templates_dict.pop(name, None)
        b = tplgen.run_real(flat, limit=20.0)
        chk.count("compose", 1, validated=2)
        chk.branch(["shared_block_names" if shared else "distinct_block_names", "mode:" + ("isolated" if p["isolated"] else "django"),
                    "families:%d" % len([k for k in fam if k.endswith("_base")])])
        oa = a["err"] or tplgen.canon_real(a["out"], a["hash2name"])
        ob = b["err"] or tplgen.canon_real(b["out"], b["hash2name"])
        chk.nontrivial(oa)
        if oa == ob:
            continue
        # known region (coarse, for this random stream): at least two {% extends %}-based template instances
        # that define a common block name take part in the render (the page counts as one).  The shapes in
        # which no extends-based template is rendered inside another one are checked strictly by the
        # directed stream.
        def blocknames(nodes, base):
            if not (nodes and nodes[0]["t"] == "extends"):
                return set()
            return {nd["name"] for nd in tplgen.walk(nodes) if nd["t"] == "block"} | \
                   {nd["name"] for nd in tplgen.walk(fam.get(base, [])) if nd["t"] == "block"}
        ext = {d["name"]: blocknames(d["template"], d["name"] + "_base") for d in famprog["lib"]
               if d["template"] and d["template"][0]["t"] == "extends"}
        page_blocks = blocknames(famprog["entry"]["page"], "page_base")
        inst = []
        if page_blocks:
            inst.append(page_blocks)
        for c, names_ in ext.items():
            k_ = max(str(oa).count("«%s#" % c), str(ob).count("«%s#" % c))
            inst += [names_] * k_
        nested = any(a_ & b_ for i_, a_ in enumerate(inst) for b_ in inst[i_ + 1:])
        if "«" not in str(oa) or "«" not in str(ob):
            # an error outcome shows no instances: fall back to the static reading of the program
            nested = bool(ext)
        if nested:
            chk.known_hit("block-context-shared-between-components", {"family": {k: p_family(v) for k, v in fam.items()}})
            continue
        chk.violation("impl-violates-spec", "compose", {"family_program": famprog, "family": {k: p_family(v) for k, v in fam.items()}},
                      impl={"family": oa}, spec={"flattened": ob},
                      note="family renders differently from its flattening || " + " || ".join(rc.describe(flat)) +
                      " || FAMILY " + json.dumps({k: p_family(v) for k, v in fam.items()}) +
                      " || LIB " + json.dumps({d["name"]: p_family(d["template"]) for d in famprog["lib"]}) +
                      " || PAGE " + p_family(famprog["entry"]["page"]))


def run_compose_directed(chk, n):
    """the placements the property names, from schemas: extends-based components as siblings / in loops /
    in fills under a parent with or without blocks, a page that extends, shared and distinct block names"""
    from django.template import engines
    loader = engines["django"].engine.template_loaders[0]
    T = lambda s: {"t": "text", "s": s}
    blk = lambda n, body: {"t": "block", "name": n, "body": body}
    comp = lambda name, body=(): {"t": "comp", "name": name, "kwargs": [], "only": False, "dyn": False, "body": list(body)}
    slot = lambda: {"t": "slot", "name": tplgen.lit("s1"), "default": True, "required": False, "data": [], "body": [T("d")]}
    for i in range(n):
        r = core.rng(PROP, "compose-directed", i)
        shared = r.random() < 0.6
        b1 = "title"
        b2 = "title" if shared else "title2"
        fam = {"card_base": [T("<h1>"), blk(b1, [T("Untitled")]), T("</h1><p>"), blk("body", [T("plain")]), T("</p>")],
               "note_base": [T("<h2>"), blk(b2, [T("Note")]), T("</h2>"), blk("body" if shared else "nbody", [T("nb")])]}
        lib = [{"name": "card", "data": [], "template": [{"t": "extends", "parent": "card_base"}] +
                ([blk(b1, [T("Fancy"), {"t": "super"}])] if r.random() < 0.6 else []) + ([blk("body", [T("fb"), slot()])] if r.random() < 0.5 else [])},
               {"name": "plaincard", "data": [], "template": [{"t": "extends", "parent": "card_base"}]},
               {"name": "note", "data": [], "template": [{"t": "extends", "parent": "note_base"}] +
                ([blk(b2, [T("N!")])] if r.random() < 0.5 else [])},
               {"name": "box", "data": [], "template": [T("["), slot(), T("]")]}]
        schema = r.randrange(8)
        kids = [comp(r.choice(["card", "plaincard", "note"])) for _ in range(r.randint(2, 3))]
        if schema == 0:      # siblings inside a parent that has no blocks
            page = [comp("box", kids)]
        elif schema == 1:    # siblings on the page
            page = kids
        elif schema == 2:    # in a loop inside a parent without blocks
            page = [comp("box", [{"t": "for", "x": "v", "e": tplgen.var("xs"), "body": kids[:1]}] + kids[1:])]
        elif schema == 3:    # parent without blocks inside a parent without blocks
            page = [comp("box", [comp("box", kids), T("|")] + kids[:1])]
        elif schema == 4:    # the page itself extends a base with other block names
            fam["page_base"] = [T("P("), blk("pagebody", [T("pb")]), T(")")]
            page = [{"t": "extends", "parent": "page_base"}, blk("pagebody", [comp("box", kids)])]
        elif schema == 5:    # a block INSIDE fill content of the base page, overridden (with block.super) by the child page
            fam["page_base"] = [T("P("), comp("box", [T("a"), blk("foo", [T("MID")]), T("b")]), T(")")]
            fam["page_mid"] = [{"t": "extends", "parent": "page_base"}] + ([blk("foo", [T("M2+"), {"t": "super"}])] if r.random() < 0.5 else [])
            page = [{"t": "extends", "parent": "page_mid"}, blk("foo", [T("PAGE+"), {"t": "super"}])]
        elif schema == 7:    # {{ block.super }} inside fill content: evaluated when the component is rendered, i.e. after the
            #                      page's block has finished — against the block lists as they were at the component tag
            fam["page_base"] = [T("P("), blk("pagebody", [T("BASE")]), T("|"), blk("other", [T("o")]), T(")")]
            inner = [T("<"), {"t": "super"}, T(">")]
            if r.random() < 0.5:
                inner = [{"t": "for", "x": "v", "e": tplgen.var("xs"), "body": inner}]
            body = [comp("box", inner)] + ([T("+"), {"t": "super"}] if r.random() < 0.5 else []) + ([comp("box", [T("x"), {"t": "super"}])] if r.random() < 0.5 else [])
            page = [{"t": "extends", "parent": "page_base"}, blk("pagebody", body)] + ([blk("other", [T("O2"), comp("box", [{"t": "super"}])])] if r.random() < 0.5 else [])
        else:                # three levels; the block sits in a fill inside the middle template's override, and the
            #                      component forwards that fill into a nested component (slot pass-through)
            fill_ = lambda n, body: {"t": "fill", "name": tplgen.lit(n), "data": None, "dflt": None, "body": body}
            nslot = lambda n, body: {"t": "slot", "name": tplgen.lit(n), "default": False, "required": False, "data": [], "body": body}
            lib.append({"name": "inner", "data": [], "template": [T("("), nslot("b", [T("B-DEFAULT")]), T(")")]})
            lib.append({"name": "outer", "data": [], "template": [comp("inner", [fill_("b", [nslot("a", [T("A-DEFAULT")])])])]})
            direct = r.random() < 0.3
            fam["page_base"] = [T("P("), blk("body", [T("BODY")]), T(")")]
            fam["page_mid"] = [{"t": "extends", "parent": "page_base"},
                               blk("body", [comp("inner" if direct else "outer", [fill_("b" if direct else "a", [T("["), blk("foo", [T("MID")]), T("]")])])])]
            page = [{"t": "extends", "parent": "page_mid"}, blk("foo", [T("PAGE+"), {"t": "super"}])]
        famprog = {"isolated": r.random() < 0.5, "lib": lib, "entry": {"page": page}, "ctx": [["xs", {"l": [tplgen.sval("1"), tplgen.sval("2")]}]], "raise": None}
        family_json = [[k, v] for k, v in fam.items()] + [[d["name"], d["template"]] for d in lib] + [["__page__", page]]
        roots = [d["name"] for d in lib] + ["__page__"]
        rep = core.drive([{"op": "flatten", "family": family_json, "roots": roots}])[0]
        flat = copy.deepcopy(famprog)
        for d, t in zip(flat["lib"], rep["flat"]):
            d["template"] = t
        flat["entry"]["page"] = rep["flat"][-1]
        for name, nodes in fam.items():
            loader.templates_dict[name] = p_family(nodes)
        old = tplgen.p_nodes
        try:
            tplgen.p_nodes = p_family
            a = tplgen.run_real(famprog, limit=20.0)
        finally:
            tplgen.p_nodes = old
            for name in fam:
                loader.templates_dict.pop(name, None)
        b = tplgen.run_real(flat, limit=20.0)
        chk.count("compose-directed", 1, validated=2)
        chk.branch(["schema:%d" % schema, "shared" if shared else "distinct"])
        oa = a["err"] or tplgen.canon_real(a["out"], a["hash2name"])
        ob = b["err"] or tplgen.canon_real(b["out"], b["hash2name"])
        if oa != ob:
            chk.violation("impl-violates-spec", "compose-directed", {"family_program": famprog, "family": {k: p_family(v) for k, v in fam.items()}},
                          impl={"family": oa}, spec={"flattened": ob},
                          note="family renders differently from its flattening (no extends-based template is nested in another one here) || " +
                          " || ".join("%s :: %s" % (d["name"], p_family(d["template"])) for d in lib) + " || PAGE " + p_family(page) +
                          " || FAMILY " + json.dumps({k: p_family(v) for k, v in fam.items()}))
            return


def family_vs_flat(fam, lib, page, isolated):
    """render a family program with the real code, and its Lean flattening with the real code"""
    from django.template import engines
    loader = engines["django"].engine.template_loaders[0]
    famprog = {"isolated": isolated, "lib": lib, "entry": {"page": page}, "ctx": [["xs", {"l": [tplgen.sval("1"), tplgen.sval("2")]}]], "raise": None}
    family_json = [[k, v] for k, v in fam.items()] + [[d["name"], d["template"]] for d in lib] + [["__page__", page]]
    roots = [d["name"] for d in lib] + ["__page__"]
    rep = core.drive([{"op": "flatten", "family": family_json, "roots": roots}])[0]
    if "error" in rep:
        raise core.InfraError("flatten: " + rep["error"])
    flat = copy.deepcopy(famprog)
    for d, t in zip(flat["lib"], rep["flat"]):
        d["template"] = t
    flat["entry"]["page"] = rep["flat"][-1]
    for name, nodes in fam.items():
        loader.templates_dict[name] = p_family(nodes)
    old = tplgen.p_nodes
    try:
        tplgen.p_nodes = p_family
        a = tplgen.run_real(famprog, limit=20.0)
    finally:
        tplgen.p_nodes = old
        for name in fam:
            loader.templates_dict.pop(name, None)
    b = tplgen.run_real(flat, limit=20.0)
    oa = a["err"] or tplgen.canon_real(a["out"], a["hash2name"])
    ob = b["err"] or tplgen.canon_real(b["out"], b["hash2name"])
    return famprog, oa, ob


def pinned_cases():
    """fixed families INSIDE the region of the known finding block-context-shared-between-components; what the unchanged
    code prints for each is recorded in findings/C10-pinned.json, so that a change of behaviour inside the region is
    still reported"""
    T = lambda s: {"t": "text", "s": s}
    blk = lambda n, body: {"t": "block", "name": n, "body": body}
    comp = lambda name, body=(): {"t": "comp", "name": name, "kwargs": [], "only": False, "dyn": False, "body": list(body)}
    slot = lambda: {"t": "slot", "name": tplgen.lit("s1"), "default": True, "required": False, "data": [], "body": [T("d")]}
    ext = lambda p: {"t": "extends", "parent": p}
    card_base = [T("["), blk("title", [T("DECOY")]), T("]"), blk("body", [T("DECOY2")])]
    card = {"name": "card", "data": [], "template": [ext("card_base"), blk("title", [T("Fancy")]), blk("body", [slot()])]}
    card2 = {"name": "card2", "data": [], "template": [ext("card_base"), blk("title", [T("Other"), {"t": "super"}])]}
    box = {"name": "box", "data": [], "template": [T("("), slot(), T(")")]}
    page_base = [T("P<"), blk("title", [T("PT")]), T("|"), blk("body", [T("PB")]), T(">")]
    out = []
    for isolated in (False, True):
        m = "isolated" if isolated else "django"
        out += [
            ("card-in-card/" + m, {"card_base": card_base}, [card], [comp("card", [comp("card")])], isolated),
            ("card-in-page-block/" + m, {"card_base": card_base, "page_base": page_base}, [card, box],
             [ext("page_base"), blk("title", [T("T:"), comp("card"), T("+"), {"t": "super"}]), blk("body", [comp("box", [comp("card")])])], isolated),
            ("two-kinds-in-page-block/" + m, {"card_base": card_base, "page_base": page_base}, [card, card2, box],
             [ext("page_base"), blk("body", [comp("card", [comp("card2")]), comp("card2"), {"t": "super"}])], isolated),
            ("card-in-loop-in-card/" + m, {"card_base": card_base}, [card, card2],
             [comp("card", [{"t": "for", "x": "v", "e": tplgen.var("xs"), "body": [comp("card2")]}])], isolated),
        ]
    return out


def run_pinned(chk):
    pins = json.load(open(os.path.join(os.path.dirname(os.path.dirname(os.path.dirname(os.path.abspath(__file__)))), "findings", "C10-pinned.json")))
    for name, fam, lib, page, isolated in pinned_cases():
        famprog, oa, ob = family_vs_flat(fam, lib, page, isolated)
        chk.count("pinned", 1, validated=2)
        chk.nontrivial(("pinned", name, oa))
        if oa == ob:
            continue
        case = {"case": name, "family": {k: p_family(v) for k, v in fam.items()}, "lib": {d["name"]: p_family(d["template"]) for d in lib},
                "page": p_family(page)}
        if oa == pins.get(name):
            chk.known_hit("block-context-shared-between-components", case)
            continue
        chk.violation("impl-violates-spec", "pinned", dict(case, family_program=famprog), impl={"family": oa, "recorded_for_the_known_finding": pins.get(name)},
                      spec={"flattened": ob},
                      note="inside the region of the known finding the family renders neither like its flattening nor like the recorded defect: " + name)


def run_flatten_stock(chk, n):
    """the flattener against stock Django on component-free families built from the same AST"""
    from django.template import Context
    for i in range(n):
        r = core.rng(PROP, "flatten", i)
        g = tplgen.Gen(core.rng(PROP, "flatten-programs", i), dict(w_comp=0, w_slot=0, w_provide=0, depth=3, w_if=2, w_for=2, w_with=2, w_elem=2))
        p = g.program()
        page = [nd for nd in p["entry"]["page"] if nd["t"] != "comp"]
        fam = {}
        fpage = split_template(r, page, "page", fam, True)
        if r.random() < 0.5 and "page_base" in fam:
            # a second level
            fam["mid"] = fpage
            fpage = [{"t": "extends", "parent": "mid"}] + [
                {"t": "block", "name": nd["name"], "body": [{"t": "text", "s": "["}, {"t": "super"}, {"t": "text", "s": "]"}]}
                for nd in fpage[1:] if r.random() < 0.5]
        fam["__page__"] = fpage
        rep = core.drive([{"op": "flatten", "family": [[k, v] for k, v in fam.items()], "roots": ["__page__"]}])[0]
        flat = rep["flat"][0]
        ctx = {k: tplgen.pyval(v) for k, v in p["ctx"]}
        eng = make_engine({k: p_family(v) for k, v in fam.items()}, False)
        eng2 = make_engine({"__page__": tplgen.p_nodes(flat)}, False)
        with stock_template_class():
            try:
                a = str(eng.get_template("__page__").render(Context(dict(ctx))))
            except Exception as e:  # noqa
                a = "ERR " + type(e).__name__
            try:
                b = str(eng2.get_template("__page__").render(Context(dict(ctx))))
            except Exception as e:  # noqa
                b = "ERR " + type(e).__name__
        chk.count("flatten", 1, validated=1)
        if a != b:
            chk.violation("model-impl-disagree", "flatten", {"family": {k: p_family(v) for k, v in fam.items()}, "flat": tplgen.p_nodes(flat)},
                          impl={"family": a}, model={"flattened": b}, note="Djc.Blocks.flattenTpl does not preserve stock Django's rendering")
            return


# ------------------------------------------------------------------ stream: the lexer opt-out (own process per configuration)

OPTOUT_SCRIPT = r"""
import json, sys, re
sys.path.insert(0, sys.argv[1])
cfg = json.loads(sys.argv[2])
srcs = json.loads(sys.stdin.read())
import django.template.base as b
orig = (b.tag_re.pattern, b.tag_re.flags)
stock_re = re.compile(*orig)
from django.conf import settings
settings.configure(INSTALLED_APPS=("django_components",), COMPONENTS=cfg, SECRET_KEY="s",
    TEMPLATES=[{"BACKEND": "django.template.backends.django.DjangoTemplates", "DIRS": [],
                "OPTIONS": {"builtins": ["django_components.templatetags.component_tags"]}}])
import django
django.setup()
after = (b.tag_re.pattern, b.tag_re.flags)
def toks(src):
    return [[int(t.token_type.value), t.contents] for t in b.Lexer(src).tokenize()]
out = []
for src in srcs:
    got = toks(src)
    saved = b.tag_re
    b.tag_re = stock_re
    try:
        want = toks(src)
    finally:
        b.tag_re = saved
    out.append(got == want)
print(json.dumps({"orig": list(orig), "after": list(after), "same": out}))
"""


def run_optout(chk, n):
    """`COMPONENTS.multiline_tags = False` is the documented way to keep Django's own `tag_re`: in a fresh process with
    that setting, installing the library must leave `django.template.base.tag_re` as it was and lex every source —
    also those with a newline between the delimiters of a tag — as stock Django does"""
    import subprocess
    stream = "opt-out"
    r = core.rng(PROP, stream)
    pieces = ["{{ a }}", "{{ a\n}}", "{{\na }}", "{% if a %}", "{% if\n a %}", "{% endif %}", "{# c #}", "{#\n c #}", "x", "\n", " ",
              "{% with\n b=a %}", "{% endwith %}", "{{ a|default:'q'\n}}", "{%\ncomment %}", "{% endcomment %}", "}}", "{{"]
    srcs = ["{{ a\n}}", "{% if\n a %}T{% endif %}", "{#\n c #}", "{{ a }}"]
    for _ in range(n):
        srcs.append("".join(r.choice(pieces) for _ in range(r.randint(1, 7))))
    for cfg in ({"multiline_tags": False, "autodiscover": False},):
        try:
            p = subprocess.run([sys.executable, "-c", OPTOUT_SCRIPT, str(core.REPO / "src"), json.dumps(cfg)],
                               input=json.dumps(srcs), capture_output=True, text=True, timeout=300)
        except subprocess.TimeoutExpired:
            raise core.InfraError("opt-out subprocess timed out")
        if p.returncode != 0:
            raise core.InfraError("opt-out subprocess failed: " + p.stderr[-800:])
        res = json.loads(p.stdout.strip().splitlines()[-1])
        chk.count(stream, len(srcs), validated=len(srcs))
        for s_ in srcs:
            chk.branch(["optout-multiline" if "\n" in s_ else "optout-single-line"])
        if res["after"] != res["orig"]:
            chk.violation("impl-violates-spec", stream, {"COMPONENTS": cfg}, impl={"tag_re": res["after"]},
                          spec={"tag_re": res["orig"]},
                          note="with multiline_tags=False the library must leave django.template.base.tag_re alone")
            return
        for src, same in zip(srcs, res["same"]):
            if not same:
                chk.violation("impl-violates-spec", stream, {"COMPONENTS": cfg, "src": src},
                              note="token stream differs from stock Django's under multiline_tags=False")
                return


def run(tier: str) -> int:
    save_originals()
    chk = core.Check(PROP, tier, THEOREMS, "DESIGN.md §8 C10")
    chk.build_and_audit()
    core.use_repo()
    core.django_setup()
    n = 400 if tier == "quick" else 8000
    run_optout(chk, 60 if tier == "quick" else 2000)
    run_stock(chk, n)
    run_flatten_stock(chk, n // 2)
    run_compose_directed(chk, n // 2)
    run_pinned(chk)
    run_compose(chk, n)
    chk.assumptions += [
        "stock stream: block tags have balanced quotes (the property's precondition); no {% verbatim %} with a quoted name (C09 finding)",
        "families: {% extends %} is the first tag; block names unique per template; blocks at the top level of a template",
        "the original methods are captured from django.template.base.Template before django.setup() runs the library's AppConfig.ready()",
    ]
    return chk.finish()
