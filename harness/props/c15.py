"""
C15 — registries behave as dictionaries and keep the tag library consistent.

Streams:
  exhaustive : every op sequence up to a length bound over 3 names (one of them the protected
               built-in `slot`) x 3 classes, for the default and the shorthand formatter, with and
               without `mark_protected_tags`, each on a private `Library()` that already holds the
               built-in tags `slot` and `fill`.
  random     : longer random sequences, 4 names (two protected) x 3 classes.
Observables (black box): outcome of every call (value / exception class), `all()` (ordered),
`set(library.tags)`, identity of the tag functions of the pre-existing tags.
White box (second stream, skipped if the attribute is gone): `_tags`.
"""
from __future__ import annotations

import itertools
from typing import Any, Dict, List, Tuple

from .. import core

PROP = "C15"
THEOREMS = [
    "reg_refines_dict",
    "no_internal_error",
    "tags_consistent",
    "lib_tag_iff_used",
    "protected_untouched",
    "shipped_protected_untouched",
    "shipped_list_covers_builtins",
    "world_step_local",
]

FORMATTERS = {
    "default": "django_components.component_formatter",
    "shorthand": "django_components.component_shorthand_formatter",
}
LIB0 = ["slot", "fill"]

_classes: Dict[str, Any] = {}


def classes():
    if not _classes:
        from django_components import Component

        for nm in ("A", "B", "C"):
            _classes[nm] = type(f"C15Cls{nm}", (Component,), {"template": nm})
    return _classes


def alphabet(names: List[str], clss: List[str]) -> List[list]:
    ops: List[list] = []
    for n in names:
        for c in clss:
            ops.append(["register", n, c])
    for n in names:
        ops.append(["unregister", n])
    for n in names:
        ops.append(["get", n])
    ops += [["all"], ["clear"]]
    return ops


def run_impl(fmt: str, protect: bool, ops: List[list]) -> dict:
    from django.template import Library

    import django_components.component_registry as cr
    from django_components import AlreadyRegistered, ComponentRegistry, NotRegistered, RegistrySettings
    from django_components.library import TagProtectedError, mark_protected_tags

    cls = classes()
    inv = {v: k for k, v in cls.items()}
    lib = Library()
    builtins = {}
    for t in LIB0:
        fn = (lambda parser, token, _t=t: None)
        lib.tag(t, fn)
        builtins[t] = fn
    if protect:
        mark_protected_tags(lib)
    reg = ComponentRegistry(library=lib, settings=RegistrySettings(tag_formatter=FORMATTERS[fmt]))
    out: List[Any] = []
    try:
        for op in ops:
            try:
                if op[0] == "register":
                    reg.register(op[1], cls[op[2]])
                    out.append("ok")
                elif op[0] == "unregister":
                    reg.unregister(op[1])
                    out.append("ok")
                elif op[0] == "get":
                    out.append(["cls", inv.get(reg.get(op[1]), "?")])
                elif op[0] == "all":
                    out.append(["all", [[n, inv.get(c, "?")] for n, c in reg.all().items()]])
                else:
                    reg.clear()
                    out.append("ok")
            except AlreadyRegistered:
                out.append("AlreadyRegistered")
            except NotRegistered:
                out.append("NotRegistered")
            except TagProtectedError:
                out.append("TagProtectedError")
            except Exception as e:  # anything else is an observation, not a crash of the harness
                out.append(type(e).__name__)
        final_all = [[n, inv.get(c, "?")] for n, c in reg.all().items()]
        lib_tags = {}
        for t, fn in lib.tags.items():
            lib_tags[t] = "builtin" if builtins.get(t) is fn else "component"
        white = None
        if hasattr(reg, "_tags"):
            white = sorted([t, sorted(ns)] for t, ns in reg._tags.items())
    finally:
        try:
            cr.all_registries.remove(reg)
        except (ValueError, AttributeError):
            pass
    return {"out": out, "all": final_all, "lib": lib_tags, "tags": white}


def model_view(rep: dict) -> dict:
    lib = {}
    for t, o in rep["lib"]:
        lib[t] = "builtin" if isinstance(o, list) else "component"
    return {"out": rep["out"], "all": rep["all"], "lib": lib,
            "tags": sorted([t, sorted(ns)] for t, ns in rep["tags"])}


def oracle(fmt: str, protect: bool, ops: List[list], impl: dict) -> str:
    """The property evaluated directly on the implementation's observations (plain dict + the two
    tag predicates) — python re-statement of Spec.Registry.dstep / Used / protected_untouched."""
    prot = set(core_protected()) if protect else set()
    tagof = (lambda n: n) if fmt == "shorthand" else (lambda n: "component")
    d: Dict[str, str] = {}
    for op, o in zip(ops, impl["out"]):
        if op[0] == "register":
            n, c = op[1], op[2]
            if n in d and d[n] != c:
                exp = "AlreadyRegistered"
            elif tagof(n) in prot:
                exp = "TagProtectedError"
            else:
                d[n] = c
                exp = "ok"
        elif op[0] == "unregister":
            if op[1] in d:
                del d[op[1]]
                exp = "ok"
            else:
                exp = "NotRegistered"
        elif op[0] == "get":
            exp = ["cls", d[op[1]]] if op[1] in d else "NotRegistered"
        elif op[0] == "all":
            exp = ["all", [[k, v] for k, v in d.items()]]
        else:
            d.clear()
            exp = "ok"
        if o != exp:
            return f"reg_refines_dict: {op} gave {o}, a dictionary gives {exp}"
    if impl["all"] != [[k, v] for k, v in d.items()]:
        return f"reg_refines_dict: all() = {impl['all']}, dictionary holds {list(d.items())}"
    used = {tagof(n) for n in d}
    for t in set(impl["lib"]) | used:
        if t in LIB0:
            continue
        if (t in impl["lib"]) != (t in used):
            return f"lib_tag_iff_used: tag {t!r} in library={t in impl['lib']} used={t in used}"
    for t in prot:
        if t in LIB0 and impl["lib"].get(t) != "builtin":
            return f"protected_untouched: protected tag {t!r} is now {impl['lib'].get(t)}"
    return ""


_prot_cache: List[str] = []


def core_protected() -> List[str]:
    if not _prot_cache:
        from django_components.library import PROTECTED_TAGS

        _prot_cache.extend(PROTECTED_TAGS)
    return _prot_cache


def batch(ch: core.Check, stream: str, cases: List[Tuple[str, bool, List[list]]]) -> int:
    reqs = [{"op": "registry", "fmt": fmt, "lib0": LIB0, "prot": (core_protected() if protect else []), "ops": ops}
            for fmt, protect, ops in cases]
    reps = core.drive(reqs)
    bad = 0
    for (fmt, protect, ops), rep in zip(cases, reps):
        if "error" in rep:
            raise core.InfraError(f"driver: {rep['error']}")
        impl = run_impl(fmt, protect, ops)
        model = model_view(rep)
        ch.count(stream, 1, 1)
        outs = impl["out"]
        kinds = {o if isinstance(o, str) else o[0] for o in outs}
        for k in kinds:
            ch.errkind(k)
        if len(kinds - {"ok"}) >= 1 and "ok" in kinds:
            ch.nontrivial((fmt, protect, ops))
        verdict = oracle(fmt, protect, ops, impl)
        black_same = all(impl[k] == model[k] for k in ("out", "all", "lib"))
        if verdict:
            ch.violation("impl-violates-spec", stream, {"formatter": fmt, "protect": protect, "lib0": LIB0, "ops": ops},
                         impl=impl, model=model, spec=verdict)
            bad += 1
        elif not black_same:
            # oracle satisfied but model differs: model misrepresents the code (or under-determined clause)
            ch.violation("model-impl-disagree", stream, {"formatter": fmt, "protect": protect, "lib0": LIB0, "ops": ops},
                         impl=impl, model=model, note="public observations differ from the model; oracle found no clause broken")
            bad += 1
        elif impl["tags"] is not None and impl["tags"] != model["tags"]:
            ch.violation("model-impl-disagree", "whitebox", {"formatter": fmt, "protect": protect, "lib0": LIB0, "ops": ops},
                         impl=impl["tags"], model=model["tags"], note="_tags differs from the model (tags_consistent)")
            bad += 1
        if bad >= 3:
            break
    return bad


def shrink(fmt, protect, ops):
    def fails(cand):
        rep = core.drive([{"op": "registry", "fmt": fmt, "lib0": LIB0, "prot": (core_protected() if protect else []), "ops": cand}])[0]
        impl = run_impl(fmt, protect, cand)
        model = model_view(rep)
        return bool(oracle(fmt, protect, cand, impl)) or impl != model

    return core.shrink_list(ops, fails)


def run(tier: str) -> int:
    ch = core.Check(PROP, tier, THEOREMS)
    ch.assumptions += [
        "classes are distinguished by _class_hash (three generated classes with distinct hashes)",
        "each registry owns a private Library (registries sharing one library are outside the property's quantifier)",
        "the formatter of a registry is fixed for its lifetime",
    ]
    ch.build_and_audit()
    core.django_setup()
    names = ["a", "b", "slot"]
    configs = [(f, p) for f in ("default", "shorthand") for p in (False, True)]
    L = 3 if tier == "quick" else 4
    alpha = alphabet(names, ["A", "B", "C"])
    cases = []
    for n in range(1, L + 1):
        for seq in itertools.product(alpha, repeat=n):
            for f, p in configs:
                cases.append((f, p, [list(o) for o in seq]))
    # quick: length 4 over a reduced alphabet (2 classes, 2 names + protected)
    if tier == "quick":
        alpha2 = alphabet(["a", "slot"], ["A", "B"])
        for seq in itertools.product(alpha2, repeat=4):
            for f, p in configs:
                cases.append((f, p, [list(o) for o in seq]))
        # a protected name the private Library does *not* define as a tag (seeded/C15-5: protection applied only to
        # names the Library already holds)
        for seq in itertools.product(alphabet(["a", "provide"], ["A", "B"]), repeat=4):
            for f, p in configs:
                cases.append((f, p, [list(o) for o in seq]))
        for seq in itertools.product(alphabet(["a", "b"], ["A"]) , repeat=5):
            cases.append(("shorthand", True, [list(o) for o in seq]))
            cases.append(("default", True, [list(o) for o in seq]))
    bad = 0
    for i in range(0, len(cases), 20000):
        bad += batch(ch, "exhaustive", cases[i:i + 20000])
        if bad:
            break
    ch.cov["exhaustive"] = bad == 0
    # random long
    n_rand = int((1500 if tier == "quick" else 40000) * ch.budget_scale)
    names4 = ["a", "b", "slot", "fill", "c", "provide", "component"]
    alpha4 = alphabet(names4, ["A", "B", "C"])
    rc = []
    for i in range(n_rand):
        rr = core.rng(PROP, "random", i)
        f, p = rr.choice(configs)
        seq = [list(rr.choice(alpha4)) for _ in range(rr.randint(5, 40))]
        rc.append((f, p, seq))
    if not bad:
        for i in range(0, len(rc), 10000):
            bad += batch(ch, "random", rc[i:i + 10000])
            if bad:
                break
    if ch.violations:
        v = ch.violations[0]
        inp = v["input"]
        small = shrink(inp["formatter"], inp["protect"], inp["ops"])
        rep = core.drive([{"op": "registry", "fmt": inp["formatter"], "lib0": LIB0,
                           "prot": (core_protected() if inp["protect"] else []), "ops": small}])[0]
        impl = run_impl(inp["formatter"], inp["protect"], small)
        v["input"] = dict(inp, ops=small)
        v["impl"], v["model"] = impl, model_view(rep)
        verdict = oracle(inp["formatter"], inp["protect"], small, impl)
        if verdict:
            v["kind"], v["spec"] = "impl-violates-spec", verdict
    ch.cov["rule"] = (
        f"all op sequences of length <= {L} over register(3 names x 3 classes)/unregister/get/all/clear (17 ops) x "
        "{default, shorthand} formatter x {protected, unprotected} private Library holding slot+fill"
        + ("; plus length 4 over 2 names x 2 classes and length 5 over 2 names x 1 class" if tier == "quick" else "")
        + f"; plus {n_rand} random sequences of length 5-40 over 5 names; non-trivial = at least one success and one "
        "refusal/lookup/all in the sequence; distinct = distinct (formatter, protect, ops)"
    )
    ch.sample({"formatter": "shorthand", "protect": True,
               "ops": [["register", "a", "A"], ["register", "slot", "B"], ["register", "a", "B"], ["unregister", "a"], ["all"]]})
    return ch.finish()
