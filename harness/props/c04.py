"""
C04 — exactly the JS/CSS of the rendered components is delivered, once, in order.

Streams:
  pages   generated pages whose components carry random subsets of js / css / Media.js / Media.css
          (files shared between components, single inheritance, dict-form css), class names from a
          pool with non-ASCII identifiers; rendered 0..n times, nested, in loops and slots.  The page is
          rendered with Template.render (markers kept), then completed by render_dependencies()
          in document and fragment mode, by the middleware, and by Component.render().
          model-free reading of the result: every class carries unique tokens in its js, css and
          Media URLs; tokens are counted in the final HTML and in the decoded loader JSON.
          model: the marker sequence is fed to Djc.Collect.process (op "collect") and its lists are
          compared with what was found in the real output.
"""
from __future__ import annotations

import base64
import json
import re

from .. import core, tplgen
from .. import render_common as rc

PROP = "C04"
THEOREMS = ["no_placeholder_survives_component_trees", "collect_eq_firstOcc", "dedupe_eq_firstOcc", "inline_js_exactly_once", "inline_css_exactly_once",
            "inline_js_in_order_of_first_appearance", "media_js_exactly_once", "media_css_exactly_once",
            "fragment_declares_same_set", "marker_roundtrip", "not_marker_roundtrip_unicode", "collect_idempotent"]

PROFILE = dict(w_comp=7, w_slot=2, w_elem=2, w_for=1.5, p_required=0.0, p_malformed=0.0, p_default_flag=0.1,
               ncomp=(2, 5), p_only=0.0, p_is_filled=0.0)
CLSNAMES = ["Table", "card_2", "Ünï", "naïve", "X9", "Δelta", "Gen_plain"]
MARK = re.compile(r"<!-- _RENDERED (.+?),(\w{6}),, -->")


def decorate(p, r, uniq):
    """random js / css / Media on the generated classes"""
    urls_js = ["/m/shared.js", "/m/lib.js"]
    urls_css = ["/m/shared.css"]
    # class names are unique per program: the script cache is keyed by class name + import path (C19 finding)
    names = [n + "_%s" % uniq for n in r.sample(CLSNAMES, len(p["lib"]))] if r.random() < 0.5 else \
            ["Plain%d_%s" % (k, uniq) for k in range(len(p["lib"]))]
    for i, d in enumerate(p["lib"]):
        a = {}
        d["tok"] = "T%dT" % i
        if r.random() < 0.6:
            a["js"] = "/*JS:%s*/" % d["tok"]
        if r.random() < 0.6:
            a["css"] = "/*CSS:%s*/" % d["tok"]
        mjs = ["/m/own_%d_%d.js" % (i, j) for j in range(r.randint(0, 2))] + r.sample(urls_js, r.randint(0, 2))
        mcss = ["/m/own_%d_%d.css" % (i, j) for j in range(r.randint(0, 2))] + r.sample(urls_css, r.randint(0, 1))
        r.shuffle(mjs)
        if mjs or mcss or r.random() < 0.3:
            css = mcss if r.random() < 0.5 else {"all": mcss[:1], "print": mcss[1:]}
            a["Media"] = type("Media", (), {"js": list(mjs), "css": css})
        d["pyattrs"] = a
        d["own_mjs"], d["own_mcss"] = mjs, mcss
        d["clsname"] = names[i]
        if i > 0 and r.random() < 0.25:
            d["base"] = p["lib"][r.randrange(i)]["name"]
        # mixins: further bases (Component subclasses that only declare Media), after the generated base if there is one
        d["mixins"] = []
        if r.random() < 0.25:
            for j in range(r.randint(1, 2)):
                d["mixins"].append({"mjs": ["/m/mix_%d_%d.js" % (i, j)], "mcss": ["/m/mix_%d_%d.css" % (i, j)] if r.random() < 0.5 else []})
            if r.random() < 0.5:
                # no Media of its own: everything comes from the bases (all of them)
                a.pop("Media", None)
                d["own_mjs"], d["own_mcss"] = [], []
                if not d.get("base") and len(d["mixins"]) < 2:
                    d["mixins"].append({"mjs": ["/m/mix_%d_9.js" % i], "mcss": []})
    by = {d["name"]: d for d in p["lib"]}
    for d in p["lib"]:
        # expected Media = own + inherited (C16); js / css strings are inherited as class attributes
        mjs, mcss = list(d["own_mjs"]), list(d["own_mcss"])
        js, css = d["pyattrs"].get("js"), d["pyattrs"].get("css")
        b = d.get("base")
        chain = []
        while b:
            chain.append(by[b])
            b = by[b].get("base")
        for m in d["mixins"]:
            mjs += [u for u in m["mjs"] if u not in mjs]
            mcss += [u for u in m["mcss"] if u not in mcss]
        for anc in chain:
            mjs += [u for u in anc["own_mjs"] + [u2 for m in anc["mixins"] for u2 in m["mjs"]] if u not in mjs]
            mcss += [u for u in anc["own_mcss"] + [u2 for m in anc["mixins"] for u2 in m["mcss"]] if u not in mcss]
            if js is None:
                js = anc["pyattrs"].get("js")
            if css is None:
                css = anc["pyattrs"].get("css")
        d["exp"] = {"js": js, "css": css, "mjs": mjs, "mcss": mcss}
    return p


def wrap_page(src, r):
    head = "<head>%s</head>" % ("{% component_css_dependencies %}" if r.random() < 0.5 else "") if r.random() < 0.7 else ""
    jsph = "{% component_js_dependencies %}" if r.random() < 0.4 else ""
    if r.random() < 0.7:
        return "<html>%s<body>%s%s</body></html>" % (head, src, jsph)
    return head + src + jsph


def analyse(final, lib, hash2idx):
    """what the final HTML delivers"""
    out = {"js": [], "css": [], "mjs": [], "mcss": [], "load_js": [], "load_css": [], "load_mjs": [], "load_mcss": []}
    body = final
    m = re.search(r'<script type="application/json" data-djc>(.*?)</script>', final, re.S)
    if m:
        body = final[:m.start()] + final[m.end():]
        data = json.loads(m.group(1))
        dec = lambda xs: [base64.b64decode(x).decode() for x in xs]
        for tag in dec(data["toLoadJsTags"]):
            u = re.search(r'src="([^"]+)"', tag).group(1)
            mm = re.match(r"/components/cache/(.+)\.js$", u)
            if mm:
                out["load_js"].append(hash2idx.get(mm.group(1), mm.group(1)))
            elif u.startswith("/m/"):
                out["load_mjs"].append(u)
        for tag in dec(data["toLoadCssTags"]):
            u = re.search(r'href="([^"]+)"', tag).group(1)
            mm = re.match(r"/components/cache/(.+)\.css$", u)
            if mm:
                out["load_css"].append(hash2idx.get(mm.group(1), mm.group(1)))
            elif u.startswith("/m/"):
                out["load_mcss"].append(u)
    out["js"] = [int(x) for x in re.findall(r"/\*JS:T(\d+)T\*/", body)]
    out["css"] = [int(x) for x in re.findall(r"/\*CSS:T(\d+)T\*/", body)]
    out["mjs"] = re.findall(r'<script src="(/m/[^"]+)"', body)
    out["mcss"] = re.findall(r'<link href="(/m/[^"]+)"', body)
    out["survive"] = [k for k in ("_RENDERED", "djc-render-id", "_PLACEHOLDER") if k in final]
    return out


def run_pages(chk, n):
    from django.http import HttpResponse
    from django.template import Context, Template
    from django_components import render_dependencies
    from django_components.dependencies import ComponentDependencyMiddleware

    for i in range(n):
        r = core.rng(PROP, "pages", i)
        g = tplgen.Gen(core.rng(PROP, "programs", i), PROFILE)
        p = decorate(g.program(isolated=True), r, "%s_%d" % (core.seed(), i))
        tplgen.patch_ids()
        tplgen._counter[0] = 0
        tplgen.clear_census()
        tplgen.set_mode(True)
        rec = tplgen.Recorder(None)
        built = tplgen.Built(p, rec)
        try:
            src = wrap_page(tplgen.p_nodes(p["entry"]["page"]), r)
            try:
                html0 = str(Template(src).render(Context({k: tplgen.pyval(v) for k, v in p["ctx"]})))
            except Exception as e:  # noqa
                chk.errkind("render:" + type(e).__name__)
                continue
            lib = p["lib"]
            hash2idx = {built.classes[d["name"]]._class_hash: k for k, d in enumerate(lib)}
            markers = [(hash2idx.get(h), rid) for h, rid in MARK.findall(html0)]
            if any(c is None for c, _ in markers):
                chk.errkind("foreign-marker")
                continue
            rendered = []
            for c, _ in markers:
                if c not in rendered:
                    rendered.append(c)
            chk.count("pages", 1, validated=1)
            chk.nontrivial((tuple(rendered), src))
            chk.branch(["rendered_classes:%d" % min(len(rendered), 5), "markers:%d" % min(len(markers), 9),
                        "nonascii" if any(d.get("clsname") and not d["clsname"].isascii() for d in lib) else "ascii",
                        "inherit" if any(d.get("base") for d in lib) else "flat",
                        "mixins" if any(d.get("mixins") for d in lib) else "no-mixins",
                        "mixins-without-own-Media" if any(d.get("mixins") and "Media" not in d.get("pyattrs", {}) and
                                                          (d.get("base") or len(d["mixins"]) > 1) for d in lib) else "-",
                        "head" if "<head>" in src else "nohead", "jsph" if "js_dependencies" in src else "nojsph"])
            classes = [{"js": bool(d["exp"]["js"]), "css": bool(d["exp"]["css"]), "mjs": d["exp"]["mjs"], "mcss": d["exp"]["mcss"],
                        "hash": built.classes[d["name"]]._class_hash} for d in lib]
            reqs = [{"op": "collect", "doc": doc, "classes": classes, "markers": [[c, rid] for c, rid in markers]} for doc in (True, False)]
            mdoc, mfrag = core.drive(reqs)
            variants = [("render_dependencies/document", True, lambda: str(render_dependencies(html0, "document"))),
                        ("render_dependencies/fragment", False, lambda: str(render_dependencies(html0, "fragment"))),
                        ("middleware", True, lambda: ComponentDependencyMiddleware(
                            lambda req: HttpResponse(html0, content_type="text/html; charset=utf-8"))(None).content.decode())]
            for label, doc, fn in variants:
                try:
                    final = fn()
                except Exception as e:  # noqa
                    final = None
                    err = "%s: %s" % (type(e).__name__, str(e)[:200])
                model = mdoc if doc else mfrag
                chk.count(label, 1, validated=1)
                judge(chk, p, src, lib, rendered, doc, label, final, model, hash2idx, html0, err if final is None else None)
        finally:
            built.close()
            tplgen.clear_census()


def judge(chk, p, src, lib, rendered, doc, label, final, model, hash2idx, html0, err):
    if final is None:
        chk.violation("impl-violates-spec", label, {"src": src}, impl={"error": err}, note="dependency processing raised || " + " || ".join(rc.describe(p)))
        return
    got = analyse(final, lib, hash2idx)
    tokid = lambda s: int(re.search(r"T(\d+)T", s).group(1))
    exp_js = [c for c in rendered if lib[c]["exp"]["js"]]
    exp_css = [c for c in rendered if lib[c]["exp"]["css"]]
    # inherited js / css strings carry the ancestor's token
    exp_js_tok = [tokid(lib[c]["exp"]["js"]) for c in exp_js]
    exp_css_tok = [tokid(lib[c]["exp"]["css"]) for c in exp_css]
    # documented insertion points: the placeholder tag, else the end of <body> (JS) / <head> (CSS)
    js_point = "js_dependencies" in src or "</body>" in src
    css_point = "css_dependencies" in src or "</head>" in src
    exp_mjs = []
    exp_mcss = []
    for c in rendered:
        exp_mjs += [u for u in lib[c]["exp"]["mjs"] if u not in exp_mjs]
        exp_mcss += [u for u in lib[c]["exp"]["mcss"] if u not in exp_mcss]
    problems = []
    if doc:
        if got["js"] != (exp_js_tok if js_point else []):
            problems.append("inline JS %s, expected %s (rendered classes in order of first appearance)" % (got["js"], exp_js_tok))
        if sorted(got["css"]) != sorted(exp_css_tok if css_point else []):
            problems.append("inline CSS %s, expected %s" % (got["css"], exp_css_tok))
        if sorted(got["mjs"]) != sorted(exp_mjs if js_point else []):
            problems.append("Media.js files %s, expected each of %s once" % (got["mjs"], exp_mjs))
        if sorted(got["mcss"]) != sorted(exp_mcss if css_point else []):
            problems.append("Media.css files %s, expected each of %s once" % (got["mcss"], exp_mcss))
    else:
        if got["js"] or got["css"] or got["mjs"] or got["mcss"]:
            problems.append("fragment mode inlined something: %s" % {k: got[k] for k in ("js", "css", "mjs", "mcss")})
        if got["load_js"] != exp_js or sorted(got["load_css"]) != sorted(exp_css):
            problems.append("fragment declares component scripts %s / %s, expected %s / %s" % (got["load_js"], got["load_css"], exp_js, exp_css))
        if sorted(got["load_mjs"]) != sorted(exp_mjs) or sorted(got["load_mcss"]) != sorted(exp_mcss):
            problems.append("fragment declares Media files %s / %s, expected %s / %s" % (got["load_mjs"], got["load_mcss"], exp_mjs, exp_mcss))
    if got["survive"]:
        problems.append("bookkeeping survives in the output: %s" % got["survive"])
    # the model of the code on the same marker sequence
    mjs = model["inlineJs"] if doc else model["loadJs"]
    mcss = model["inlineCss"] if doc else model["loadCss"]
    rjs = got["js"] if doc else got["load_js"]
    rcss = got["css"] if doc else got["load_css"]
    rmj = got["mjs"] if doc else got["load_mjs"]
    rmc = got["mcss"] if doc else got["load_mcss"]
    if doc:
        mjs = [tokid(lib[c]["exp"]["js"]) for c in mjs] if js_point else []
        mcss = [tokid(lib[c]["exp"]["css"]) for c in mcss] if css_point else []
    mmj = model["mediaJs"] if (js_point or not doc) else []
    mmc = model["mediaCss"] if (css_point or not doc) else []
    agree = (mjs == rjs and sorted(mcss) == sorted(rcss) and sorted(mmj) == sorted(rmj)
             and sorted(mmc) == sorted(rmc) and bool(model["surviving"]) == ("_RENDERED" in got["survive"]))
    if not agree and len([v for v in chk.violations if v["kind"] == "model-impl-disagree"]) < 3:
        chk.violation("model-impl-disagree", label, {"src": src, "markers": model}, impl=got, model=model,
                      note="Djc.Collect.process differs from the real output || " + " || ".join(rc.describe(p)))
    if not problems:
        return
    nonascii = any(not lib[c].get("clsname", "x").isascii() for c in rendered if lib[c].get("clsname"))
    if agree and nonascii and model["surviving"]:
        chk.known_hit("non-ascii-class-name", {"src": src, "classes": [d.get("clsname") for d in lib]})
        return
    chk.violation("impl-violates-spec", label, {"src": src, "html0": html0[:3000]}, impl={"final": final[:3000], "found": got}, model=model,
                  spec={"js": exp_js, "css": exp_css, "mjs": exp_mjs, "mcss": exp_mcss},
                  note="; ".join(problems[:3]) + " || " + " || ".join(rc.describe(p)) + " || classes=" +
                  json.dumps([[d.get("clsname"), d.get("base"), d["exp"]] for d in lib], ensure_ascii=False))


def run_redefine(chk, n):
    """Histories of pages in one process in which a component class is *defined again* under the same name and module
    (a class factory, a reloaded module) with other Media files: each page gets the Media of the classes rendered into
    it — of the class object that was rendered, not of an earlier class of that name (seeded/C04-4).  Inline js / css
    are left out of these classes: what a re-defined class's *inline* script resolves to is the separate finding listed
    under C19 (script cache keyed by import path)."""
    from django.template import Context, Template
    from django_components import Component, registry
    from django_components.dependencies import render_dependencies

    for i in range(n):
        r = core.rng(PROP, "redefine", i)
        name = "c04redef%d" % i
        steps = []
        for k in range(r.randint(2, 4)):
            js = ["/r/%d_%d_%s.js" % (i, k, x) for x in r.sample("abc", r.randint(0, 2))]
            css = ["/r/%d_%d_%s.css" % (i, k, x) for x in r.sample("abc", r.randint(0, 2))]
            steps.append((js, css, r.choice(["document", "fragment"]), r.random() < 0.3))
        seen_urls = set()
        for k, (js, css, mode, dict_css) in enumerate(steps):
            media = type("Media", (), {"js": list(js), "css": ({"print": list(css)} if dict_css and css else list(css))})
            cls = type("C04Redefined", (Component,), {"template": "<b>w</b>", "Media": media, "__module__": "harness.props.c04"})
            registry.register(name, cls)
            try:
                html = Template("<html><head></head><body>{% component '" + name + "' / %}</body></html>").render(Context({}))
                final = str(render_dependencies(html, type=mode))
            except Exception as e:  # noqa
                final = "ERR:" + type(e).__name__
            finally:
                registry.unregister(name)
            chk.count("redefine", 1, validated=1)
            chk.branch(["redefine:" + mode])
            text = final
            for blob in re.findall(r'data-json="([^"]*)"|<script type="application/json"[^>]*>(.*?)</script>', final, re.S):
                for b in blob:
                    text += " " + b
            # the loader data is base64 inside JSON: decode whatever decodes
            for b64 in re.findall(r"[A-Za-z0-9+/=]{16,}", final):
                try:
                    text += " " + base64.b64decode(b64).decode("utf-8", "ignore")
                except Exception:
                    pass
            want = set(js) | set(css)
            got = {u for u in re.findall(r"/r/\d+_\d+_[abc]\.(?:js|css)", text)}
            seen_urls |= want
            chk.nontrivial(("redefine", i, k))
            if got != want or final.startswith("ERR:"):
                chk.violation("impl-violates-spec", "redefine",
                              {"history": [{"Media.js": s[0], "Media.css": s[1], "mode": s[2]} for s in steps[: k + 1]], "class": "C04Redefined", "registered_as": name},
                              impl={"urls_in_output": sorted(got), "error": final if final.startswith("ERR:") else None},
                              spec={"urls_expected": sorted(want), "clause": "every file from the Media of the rendered classes exactly once; classes that were not rendered contribute nothing"},
                              note="page %d of the history; a class of the same name and module was rendered earlier with other Media" % (k + 1))
                return


def run(tier: str) -> int:
    import warnings
    warnings.simplefilter("ignore")
    chk = core.Check(PROP, tier, THEOREMS, "DESIGN.md §8 render pipeline / C04")
    chk.build_and_audit()
    core.use_repo()
    core.django_setup()
    run_pages(chk, 300 if tier == "quick" else 6000)
    run_redefine(chk, 25 if tier == "quick" else 400)
    chk.assumptions += [
        "isolated mode; dependency placeholders only at page level (a placeholder that is a root element of a component "
        "belongs to C08 / DESIGN §9 #28); Media URLs absolute (/m/…), so STATIC_URL plays no role",
        "expected Media of a class = own files + files of its Python bases (C16 decides the general inheritance rule)",
    ]
    return chk.finish()
