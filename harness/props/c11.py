"""
C11 — a tag accepts its arguments exactly when the equivalent Python call would.

Three-way differential run per (signature, argument sequence):
  py     : the real CPython call of a generated probe `def` (arguments passed as `*[v]` /
           `**{k: v}` pieces so that every ordering can be written down)
  impl   : a real BaseNode subclass with that `render`, rendered through a template whose
           arguments are spreads (`...a0 ...a1 …`, each a one-element list or a one-entry dict), and —
           for a sampled subset — written literally (`1 a=2 data-x=3`); both validator paths:
           `render` a plain function (fast path over __code__) and a callable object without
           __code__ (fallback over inspect.Signature)
  model  : Lean `pyCall` (the spec) and `tagCall .code` / `tagCall .sig` (the model)
Oracle on the real code: impl must equal py (acceptance, bindings, error class TypeError or — for a
positional after a keyword — SyntaxError/TypeError).
"""
from __future__ import annotations

import itertools
import keyword
from typing import Any, Dict, List, Optional, Tuple

from .. import core

PROP = "C11"
THEOREMS = [
    "syntaxError_only_for_positional_after_keyword",
    "nonident_only_via_varkw",
    "code_path_eq_sig_path",
    "not_C11_full",
    "not_C11_full_dup_special",
    "tagCall_agrees_with_pyCall_in_H",
    "tagCall_eq_pyCall_partial",
    "positional_after_keyword_refused",
]

HOLDER: List[Any] = []


def sig_params(sig: dict) -> List[Tuple[str, Optional[int]]]:
    return [tuple(p) for p in sig["posonly"] + sig["poskw"] + sig["kwonly"]]


def sig_source(sig: dict) -> str:
    parts = ["self", "context"]

    def fmt(p):
        return f"{p[0]}={p[1]}" if p[1] is not None else p[0]

    parts += [fmt(p) for p in sig["posonly"]]
    if sig["posonly"]:
        parts.append("/")
    parts += [fmt(p) for p in sig["poskw"]]
    if sig["varargs"]:
        parts.append("*" + sig["varargs"])
    elif sig["kwonly"]:
        parts.append("*")
    parts += [fmt(p) for p in sig["kwonly"]]
    if sig["varkw"]:
        parts.append("**" + sig["varkw"])
    return ", ".join(parts)


def make_probe(sig: dict):
    names = [p[0] for p in sig_params(sig)]
    body = "    HOLDER.append({'params': [" + ", ".join(f"[{n!r}, {n}]" for n in names) + "], "
    body += f"'varargs': list({sig['varargs']}), " if sig["varargs"] else "'varargs': [], "
    body += f"'varkw': sorted([k, v] for k, v in {sig['varkw']}.items())" if sig["varkw"] else "'varkw': []"
    body += "})\n    return ''\n"
    src = f"def render({sig_source(sig)}):\n{body}"
    ns: Dict[str, Any] = {"HOLDER": HOLDER}
    exec(src, ns)
    return ns["render"], src


def py_call(fn, args: List[list]) -> dict:
    """The real interpreter: f(None, None, *[v], **{k: v}, ...) in the given order."""
    pieces = ["None", "None"]
    for k, v in args:
        pieces.append(f"*[{v}]" if k is None else "**{" + repr(k) + f": {v}" + "}")
    HOLDER.clear()
    try:
        code = compile("fn(" + ", ".join(pieces) + ")", "<probe>", "eval")
    except SyntaxError:
        return {"err": "SyntaxError"}
    try:
        eval(code, {"fn": fn})
    except TypeError:
        return {"err": "TypeError"}
    return {"ok": HOLDER[-1]}


_tag_counter = [0]


class _Callable:
    """A render without __code__: forces _validate_params_with_signature."""

    def __init__(self, fn):
        import inspect

        self._fn = fn
        self.__signature__ = inspect.signature(fn)
        self.__name__ = "render"
        self.__qualname__ = "render"
        self.__module__ = __name__
        self.__doc__ = None
        self.__annotations__ = {}

    def __call__(self, *a, **k):
        return self._fn(*a, **k)


def make_node(fn, fallback: bool, nslots: int):
    from django.template import Template

    from django_components import BaseNode
    from django_components.templatetags.component_tags import register as library

    _tag_counter[0] += 1
    tag = f"c11probe{_tag_counter[0]}"
    render = _Callable(fn) if fallback else fn
    cls = type(f"C11Probe{_tag_counter[0]}", (BaseNode,), {"tag": tag, "end_tag": None, "allowed_flags": [], "render": render})
    cls.register(library)
    tpl = Template("{% " + tag + " " + " ".join(f"...a{i}" for i in range(nslots)) + " %}")
    return cls, tag, tpl, library


def impl_call_spread(tpl, args: List[list], nslots: int) -> dict:
    from django.template import Context

    ctx = {}
    for i in range(nslots):
        if i < len(args):
            k, v = args[i]
            ctx[f"a{i}"] = [v] if k is None else {k: v}
        else:
            ctx[f"a{i}"] = []
    HOLDER.clear()
    try:
        tpl.render(Context(ctx))
    except TypeError:
        return {"err": "TypeError"}
    except SyntaxError:
        return {"err": "SyntaxError"}
    except Exception as e:
        return {"err": type(e).__name__}
    if not HOLDER:
        return {"err": "not-called"}
    return {"ok": HOLDER[-1]}


def impl_call_literal(tag: str, args: List[list]) -> dict:
    from django.template import Context, Template

    bits = [str(v) if k is None else f"{k}={v}" for k, v in args]
    HOLDER.clear()
    try:
        Template("{% " + tag + " " + " ".join(bits) + " %}").render(Context({}))
    except TypeError:
        return {"err": "TypeError"}
    except SyntaxError:
        return {"err": "SyntaxError"}
    except Exception as e:
        return {"err": type(e).__name__}
    if not HOLDER:
        return {"err": "not-called"}
    return {"ok": HOLDER[-1]}


def is_special(k: str) -> bool:
    return (not k.isidentifier()) or keyword.iskeyword(k)


def pos_after_kw(args: List[list]) -> bool:
    seen = False
    for k, _ in args:
        if k is not None:
            seen = True
        elif seen:
            return True
    return False


def same_outcome(impl: dict, py: dict, args) -> bool:
    """acceptance + binding equal; a rejection must be TypeError, or SyntaxError/TypeError when a
    positional follows a keyword."""
    if "ok" in py:
        return impl == py
    if "ok" in impl:
        return False
    if impl["err"] == "TypeError":
        return True
    return impl["err"] == "SyntaxError" and pos_after_kw(args)


def enum_sigs(max_named: int) -> List[dict]:
    sigs = []
    for npo in range(0, max_named + 1):
        for npk in range(0, max_named + 1 - npo):
            for nko in range(0, max_named + 1 - npo - npk):
                for va in (False, True):
                    for vk in (False, True):
                        for nd in range(0, npo + npk + 1):  # defaults form a suffix of the positional params
                            for kod in itertools.product((False, True), repeat=nko):
                                pos = [f"p{i}" for i in range(npo)] + ["a", "type", "c", "match", "e"][:npk]  # incl. soft keywords: legal identifiers
                                dfl = [None] * (len(pos) - nd) + [1000 + i for i in range(nd)]
                                params = list(zip(pos, dfl))
                                sigs.append({
                                    "posonly": [list(p) for p in params[:npo]],
                                    "poskw": [list(p) for p in params[npo:]],
                                    "varargs": "args" if va else None,
                                    "kwonly": [[f"k{i}", (2000 + i if kod[i] else None)] for i in range(nko)],
                                    "varkw": "kw" if vk else None,
                                })
    return sigs


def arg_alphabet(sig: dict) -> List[Optional[str]]:
    keys: List[Optional[str]] = [None]
    keys += [p[0] for p in sig_params(sig)]
    keys += ["zz", "data-x", "class"]
    return keys


def valid_call(sig: dict, rr) -> List[list]:
    """A call Python accepts (mostly): positionals for a prefix of the positional parameters, keywords
    for a random subset of the rest, required ones always; extra / special keys when **kw exists."""
    pos = sig["posonly"] + sig["poskw"]
    npos = rr.randint(0, len(pos)) if not sig["varargs"] else rr.randint(0, len(pos) + 2)
    if sig["posonly"] and npos < len(sig["posonly"]):
        # required positional-only parameters must be given positionally
        need = max((i + 1 for i, p in enumerate(sig["posonly"]) if p[1] is None), default=0)
        npos = max(npos, need)
    args: List[list] = [[None, 0] for _ in range(npos)]
    kws = []
    for i, p in enumerate(pos):
        if i >= npos and i >= len(sig["posonly"]) and (p[1] is None or rr.random() < 0.5):
            kws.append(p[0])
    for p in sig["kwonly"]:
        if p[1] is None or rr.random() < 0.5:
            kws.append(p[0])
    if sig["varkw"]:
        for extra in ("zz", "data-x", "class", "yy"):
            if rr.random() < 0.35:
                kws.append(extra)
        if sig["posonly"] and rr.random() < 0.3:
            kws.append(sig["posonly"][0][0])
    rr.shuffle(kws)
    args += [[k, 0] for k in kws]
    if rr.random() < 0.1 and args:
        args.append(list(rr.choice(args)))  # a duplicate: mostly invalid
    return [[k, j + 1] for j, (k, _) in enumerate(args)]


def in_known_region(sig: dict, args: List[list]) -> Optional[str]:
    if sig["posonly"]:
        return "posonly-params"
    sp = [k for k, _ in args if k is not None and is_special(k)]
    if len(sp) != len(set(sp)):
        return "duplicate-special-keys"
    return None


def run_sig(ch: core.Check, sig: dict, arg_seqs: List[List[list]], literal_every: int, stream: str) -> None:
    fn, src = make_probe(sig)
    nslots = max((len(a) for a in arg_seqs), default=0)
    reqs = []
    for args in arg_seqs:
        special = sorted({k for k, _ in args if k is not None and is_special(k)})
        reqs.append({"op": "bind", "sig": sig, "args": args, "special": special})
    reps = core.drive(reqs)
    nodes = []
    try:
        for fallback in (False, True):
            nodes.append(make_node(fn, fallback, nslots) + (fallback,))
        for idx, (args, rep) in enumerate(zip(arg_seqs, reps)):
            if "error" in rep:
                raise core.InfraError(f"driver: {rep['error']}")
            py = py_call(fn, args)
            ch.count(stream, 1, 1)
            ch.errkind("py:" + ("ok" if "ok" in py else py["err"]))
            if "ok" in py and len(args) >= 2:
                ch.nontrivial((src, tuple(map(tuple, args))))
            elif "err" in py and len(args) >= 2 and len(sig_params(sig)) >= 1:
                ch.nontrivial((src, tuple(map(tuple, args))))
            case = {"render": src.splitlines()[0], "sig": sig, "args": args}
            # 1. spec vs the real interpreter
            if not ((py == rep["py"]) or ("err" in py and "err" in rep["py"])):
                ch.violation("model-impl-disagree", "pyCall-vs-CPython", case, impl=py, model=rep["py"],
                             note="the Lean spec pyCall differs from the real interpreter: fix the spec")
                return
            region = in_known_region(sig, args)
            for cls, tag, tpl, lib, fallback in nodes:
                path = "sig" if fallback else "code"
                impl = impl_call_spread(tpl, args, nslots)
                outs = [("spread", impl)]
                if literal_every and idx % literal_every == 0:
                    outs.append(("literal", impl_call_literal(tag, args)))
                for how, impl in outs:
                    model = rep[path]
                    model_same = (impl == model) or ("err" in impl and "err" in model and impl["err"] == model["err"])
                    if same_outcome(impl, py, args):
                        if not model_same:
                            # not a violation by itself: keep looking for an input on which the property fails
                            if sum(1 for v in ch.violations if v["kind"] == "model-impl-disagree") < 5:
                                ch.violation("model-impl-disagree", f"{stream}/{path}/{how}", case, impl=impl, model=model,
                                             note="implementation agrees with Python but the model predicts otherwise")
                        continue
                    # implementation deviates from Python
                    if region and model_same:
                        ch.known_hit(region, {"case": case, "impl": impl, "python": py, "path": path})
                        ch.branch([f"known:{region}"])
                        continue
                    ch.violation("impl-violates-spec", f"{stream}/{path}/{how}", case, impl=impl, model=model,
                                 spec={"python": py, "clause": "tagCall_eq_pyCall: same acceptance and same binding as the Python call"})
                    return
    finally:
        for cls, tag, tpl, lib, fallback in nodes:
            cls.unregister(lib)


def run_partial(ch: core.Check, sig: dict, arg_seqs: List[List[list]], rr) -> None:
    """render() given as `functools.partial(fn, name=value)` (keyword pre-binding only, also nested): the tag must bind
    what calling that very partial in Python binds — in particular the pre-bound value where the call omits `name`"""
    import functools

    defaulted = [p[0] for p in sig["poskw"] + sig["kwonly"] if p[1] is not None]
    if not defaulted:
        return
    fn, src = make_probe(sig)
    names = rr.sample(defaulted, min(len(defaulted), rr.choice([1, 1, 2])))
    pfn = fn
    for j, nm in enumerate(names):
        pfn = functools.partial(pfn, **{nm: 7700 + j})
    nslots = max((len(a) for a in arg_seqs), default=0)
    cls, tag, tpl, lib = make_node(pfn, False, nslots)
    try:
        for args in arg_seqs:
            if in_known_region(sig, args):
                continue
            py = py_call(pfn, args)
            impl = impl_call_spread(tpl, args, nslots)
            ch.count("partial", 1, 1)
            ch.errkind("partial-py:" + ("ok" if "ok" in py else py["err"]))
            if same_outcome(impl, py, args):
                continue
            # the plain function deviates from Python on the same call already (known regions are skipped above): not this stream's business
            if not same_outcome(impl_call_spread(make_node_cached(fn, nslots), args, nslots), py_call(fn, args), args):
                continue
            ch.violation("impl-violates-spec", "partial", {"render": "functools.partial(" + src.splitlines()[0] + " ..., " +
                                                                      ", ".join(f"{n}={7700 + j}" for j, n in enumerate(names)) + ")",
                                                           "sig": sig, "args": args},
                         impl=impl, spec={"python": py, "clause": "tagCall_eq_pyCall: same acceptance and same binding as the Python call"})
            return
    finally:
        cls.unregister(lib)
        for c2, l2 in _CACHED_NODES:
            c2.unregister(l2)
        _CACHED_NODES.clear()
        _CACHED_TPL.clear()


_CACHED_NODES: list = []
_CACHED_TPL: dict = {}


def make_node_cached(fn, nslots):
    key = (id(fn), nslots)
    if key not in _CACHED_TPL:
        cls, tag, tpl, lib = make_node(fn, False, nslots)
        _CACHED_NODES.append((cls, lib))
        _CACHED_TPL[key] = tpl
    return _CACHED_TPL[key]


def real(ch: core.Check) -> bool:
    return any(v["kind"] == "impl-violates-spec" for v in ch.violations)


def run(tier: str) -> int:
    ch = core.Check(PROP, tier, THEOREMS)
    ch.assumptions += [
        "parameter names are identifiers that are not Python keywords; values are distinct integer tokens",
        "pyCall (Lean) is CPython's binding algorithm written from the language reference; it is compared with the real interpreter on every case",
        "keys containing ':' (aggregate syntax) are outside this property's alphabet (C02)",
    ]
    ch.build_and_audit()
    core.django_setup()
    max_named = 2 if tier == "quick" else 3
    max_args = 3 if tier == "quick" else 4
    sigs = enum_sigs(max_named)
    r = core.rng(PROP, "main")
    total_sigs = len(sigs)
    for si, sig in enumerate(sigs):
        alpha = arg_alphabet(sig)
        seqs = []
        for n in range(0, max_args + 1):
            for ks in itertools.product(alpha, repeat=n):
                seqs.append([[k, i + 1] for i, k in enumerate(ks)])
        if tier == "quick" and len(seqs) > 260:
            rr = core.rng(PROP, "subsample", si)
            keep = [s for s in seqs if len(s) <= 2]
            rest = [s for s in seqs if len(s) > 2]
            seqs = keep + rr.sample(rest, 260 - len(keep)) if len(keep) < 260 else keep
        run_sig(ch, sig, seqs, literal_every=7, stream="exhaustive")
        if real(ch):
            break
    # larger random signatures / longer calls
    n_rand = int((60 if tier == "quick" else 1500) * ch.budget_scale)
    big = enum_sigs(4) if tier == "quick" else enum_sigs(5)
    for i in range(n_rand):
        if real(ch):
            break
        rr = core.rng(PROP, "random", i)
        sig = rr.choice(big)
        alpha = arg_alphabet(sig) + ["args", "kw"]
        seqs = []
        for _ in range(40):
            n = rr.randint(0, 5)
            ks = [rr.choice(alpha) if rr.random() < 0.6 else None for _ in range(n)]
            seqs.append([[k, j + 1] for j, k in enumerate(ks)])
        run_sig(ch, sig, seqs, literal_every=5, stream="random")
    # mostly-valid calls, built from the signature (so that acceptance paths are well exercised)
    n_valid = int((120 if tier == "quick" else 3000) * ch.budget_scale)
    for i in range(n_valid):
        if real(ch):
            break
        rr = core.rng(PROP, "valid", i)
        sig = rr.choice(big)
        seqs = [valid_call(sig, rr) for _ in range(30)]
        run_sig(ch, sig, seqs, literal_every=5, stream="valid-biased")
    # render() as a functools.partial with pre-bound keyword arguments
    n_part = int((150 if tier == "quick" else 3000) * ch.budget_scale)
    for i in range(n_part):
        if real(ch):
            break
        rr = core.rng(PROP, "partial", i)
        sig = rr.choice(big)
        seqs = [valid_call(sig, rr) for _ in range(12)]
        for _ in range(6):
            ks = [rr.choice(arg_alphabet(sig)) if rr.random() < 0.6 else None for _ in range(rr.randint(0, 4))]
            seqs.append([[k, j + 1] for j, k in enumerate(ks)])
        run_partial(ch, sig, seqs, rr)
    ch.cov["signatures"] = total_sigs
    ch.cov["exhaustive"] = not ch.violations
    ch.cov["rule"] = (
        f"all render() signatures with <= {max_named} named parameters over positional-only / positional-or-keyword / "
        f"keyword-only (all default patterns Python allows) x *args x **kwargs = {total_sigs} signatures, crossed with "
        f"argument sequences of length <= {max_args} over positional, every parameter name, unknown, non-identifier "
        "('data-x') and keyword ('class') keys"
        + (" (quick: lengths 0-2 complete, length 3 sub-sampled to 260 calls per signature)" if tier == "quick" else "")
        + f"; plus {n_rand} random signatures with up to {4 if tier == 'quick' else 5} named parameters x 40 calls of length <= 5; "
        "each call through both validator paths, spread-produced and (every 7th) literal arguments; "
        "non-trivial = call with >= 2 arguments; distinct = distinct (signature, arguments)"
    )
    ch.sample({"render": "def render(self, context, a, b=1000, *, k0, **kw)", "args": [[None, 1], ["k0", 2], ["data-x", 3]]})
    return ch.finish()
