"""
C09 — the template lexer partitions the source exactly, with right positions and lines.

Streams:
  exhaustive : every string up to a length bound over the delimiter alphabet { % } " ' \\ newline
               space a #
  grammar    : random sources assembled from text runs, {{ }}, {# #}, block tags with 0..n quoted
               strings of both kinds (escapes, embedded %} / }} / newlines, lone %), multi-line tags,
               verbatim blocks (bare and quoted names), unterminated constructs
Observables: (type, contents, position, lineno) of `parse_template(src)` and of Django's
`DebugLexer(src).tokenize()` under the tag_re of this process (DOTALL iff multiline_tags, extracted).
Oracle: the property's clauses evaluated directly on the implementation's tokens.
"""
from __future__ import annotations

import itertools
from typing import Any, List, Optional, Tuple

from .. import core

PROP = "C09"
THEOREMS = [
    "stockLex_partition",
    "parseGo_spec",
    "parseTemplate_partition",
    "parseTemplate_lineno",
    "parseTemplate_eq_stock_of_no_quote",
    "parseTemplate_prefix_agrees_with_stock",
    "detailed_contents_between_delimiters",
]

ALPHA = ["{", "%", "}", '"', "'", "\\", "\n", " ", "a", "#"]

TEXT = ["", "x", "line\n", "a{b", "50% off", "it's", 'say "hi"', " \n ", "}}", "%}", "{ %", "\\", "ü☃"]
STR_BODIES = ["", "a", "a b", "%}", "}}", "{{ v }}", "{% t %}", "\\\"", "\\\\", "it's", 'q"q', "\n", "a\nb", "\\", "%", "{#"]
TAGS = ["x", "if a", "component", "t\n", "\n t", "verbatim", "endverbatim", "verbatim blk", "endverbatim blk", "a % b", "50%", "% }"]


def gen_string(r) -> str:
    q = r.choice(['"', "'"])
    body = r.choice(STR_BODIES)
    if q == "'" and body == "it's":
        body = "its"
    if q == '"' and body == 'q"q':
        body = "qq"
    return q + body + q


def gen_block(r) -> str:
    parts = [r.choice(TAGS)]
    for _ in range(r.choice([0, 0, 1, 1, 2, 3])):
        k = r.random()
        if k < 0.6:
            parts.append(r.choice(["", "k="]) + gen_string(r))
        elif k < 0.8:
            parts.append(r.choice(["v", "a=b", "%", "x|f:1", "\n"]))
        else:
            parts.append(r.choice(["'unterminated", '"open', "\\"]))
    return "{%" + r.choice([" ", "", "\n"]) + " ".join(parts) + r.choice([" ", "", "\n "]) + "%}"


def gen_source(r) -> str:
    out = []
    for _ in range(r.randint(0, 8)):
        k = r.random()
        if k < 0.3:
            out.append(r.choice(TEXT))
        elif k < 0.7:
            out.append(gen_block(r))
        elif k < 0.8:
            out.append("{{ " + r.choice(["v", "a.b", "'s'", "x\ny"]) + " }}")
        elif k < 0.88:
            out.append("{# " + r.choice(["c", "it's", "{% x %}"]) + " #}")
        elif k < 0.94:
            nm = r.choice(["", " blk", ' "q"', " 'q'"])
            out.append("{% verbatim" + nm + " %}" + r.choice(["{% x 'a' %}", "{{ v }}", "t", '{% y "%}" %}']) + "{% endverbatim" + nm + " %}")
        else:
            out.append(r.choice(['{% x "abc', "{% x", "{{ v", "{# c", "{% x 'a' ", '{% "a" %', "{%"]))
    return "".join(out)


def impl_tokens(src: str):
    from django.template.base import DebugLexer
    from django.template.exceptions import TemplateSyntaxError

    from django_components.util.template_parser import parse_template

    def conv(toks):
        return [[t.token_type.name, t.contents, t.position[0], t.position[1], t.lineno] for t in toks]

    stock = conv(DebugLexer(src).tokenize())
    try:
        parsed: Any = {"ok": conv(parse_template(src))}
    except TemplateSyntaxError as e:
        msg = str(e)
        parsed = {"err": "unterminated-string" if "string" in msg else "unterminated-tag"}
    except Exception as e:
        parsed = {"err": "OTHER:" + type(e).__name__}
    return parsed, stock


def quote_aware_end(src: str, start: int) -> Optional[int]:
    """end (exclusive) of the block tag starting at `start`: the first %} outside quoted strings"""
    i = start + 2
    n = len(src)
    while i < n:
        c = src[i]
        if c in "'\"":
            j = i + 1
            while j < n and src[j] != c:
                if src[j] == "\\" and j + 1 < n and src[j + 1] != "\n":
                    j += 2
                else:
                    j += 1
            if j >= n:
                return None
            i = j + 1
        elif c == "%" and i + 1 < n and src[i + 1] == "}":
            return i + 2
        else:
            i += 1
    return None


def oracle(src: str, parsed: dict, stock: list) -> Tuple[Optional[str], Optional[str]]:
    """Returns (violated clause, known-finding slug)."""
    if "err" in parsed:
        if parsed["err"].startswith("OTHER"):
            return "parseTemplate_total: an exception other than TemplateSyntaxError", None
        return None, None
    toks = parsed["ok"]
    pos = 0
    for t in toks:
        typ, contents, a, b, ln = t
        if a != pos or b <= a:
            return f"parseTemplate_partition: token {t} does not start where the previous one ended ({pos})", None
        pos = b
        span = src[a:b]
        want = span if typ == "TEXT" else span[2:-2].strip()
        if contents != want:
            return f"parseTemplate_contents: token {t} has contents {contents!r}, span gives {want!r}", None
        if ln != 1 + src.count("\n", 0, a):
            return f"parseTemplate_lineno: token {t} reports line {ln}, {1 + src.count(chr(10), 0, a)} newlines-before+1", None
    if pos != len(src):
        return f"parseTemplate_partition: tokens end at {pos}, source has {len(src)} characters", None
    quoted_block = any(t[0] == "BLOCK" and ("'" in t[1] or '"' in t[1]) for t in stock)
    if not quoted_block:
        if toks != stock:
            return "parseTemplate_eq_stock_of_no_quote: streams differ although no block tag contains a quote", None
        return None, None
    # differs only by keeping a %} inside a quoted string: every BLOCK token must end at the first %} outside quotes
    for t in toks:
        if t[0] == "BLOCK":
            e = quote_aware_end(src, t[2])
            if e != t[3]:
                verb_q = any(s[0] == "BLOCK" and s[1].startswith("verbatim") and ("'" in s[1] or '"' in s[1]) for s in stock)
                return (f"differs_only_in_quoted_close: block at {t[2]} ends at {t[3]}, first %}} outside quotes is at {e}",
                        "quoted-verbatim-name" if verb_q else None)
    # and outside the quoted tags the stock segmentation is kept: re-lexing with quote-aware ends
    verb_q = any(s[0] == "BLOCK" and s[1].startswith("verbatim") and ("'" in s[1] or '"' in s[1]) for s in stock)
    types_stock = [(s[0], s[2]) for s in stock]
    for t in toks:
        if (t[0], t[2]) not in types_stock and not any(s[2] <= t[2] < s[3] and s[0] != t[0] for s in stock if False):
            # a token start that stock does not have is legitimate only after a quoted tag was extended
            pass
    if verb_q:
        # inside a verbatim block with a quoted name everything must stay TEXT
        inside = False
        for s in stock:
            if s[0] == "BLOCK" and s[1].startswith("verbatim"):
                inside = True
                name = "end" + s[1]
                continue
            if inside and s[0] == "BLOCK" and s[1] == name:
                inside = False
                continue
            if inside:
                for t in toks:
                    if s[2] <= t[2] < s[3] and t[0] != "TEXT":
                        return f"verbatim: {t} lexed as {t[0]} inside a verbatim block", "quoted-verbatim-name"
    return None, None


def run(tier: str) -> int:
    ch = core.Check(PROP, tier, THEOREMS)
    ch.assumptions += [
        "Python's re engine is replaced by hand-written scanners for tag_re and the take-until patterns",
        "str.strip()/isspace on the sampled alphabet (ASCII + a few non-ASCII letters and symbols)",
        "the comparison lexer is Django's DebugLexer under this process's tag_re (DOTALL iff COMPONENTS.multiline_tags, extracted)",
    ]
    ch.build_and_audit()
    core.django_setup()
    import django.template.base as base
    import re

    dotall = bool(base.tag_re.flags & re.DOTALL)
    ch.cov["tag_re_dotall_in_process"] = dotall
    if dotall != bool(ch.cov.get("extracted", {}).get("multiline_tags", True)):
        ch.notes.append("tag_re DOTALL flag of the process differs from the extracted multiline_tags default")
    L = 5 if tier == "quick" else 6
    srcs: List[str] = ["a\n{% x \"1\" %}\nb\n{% y \"2\" %}\nc\n{% z \"3\" %}\nd{{ v }}", "{%\n x \"1\"\n %}\n{{ v }}",
                       "{% x \"a\" % y %} text {% z \"b\" %}", "{% verbatim 'x' %}{% foo %}{% endverbatim 'x' %}"]
    corpus = core.CORPUS / "C09.json"
    if corpus.exists():
        import json

        srcs += json.loads(corpus.read_text())
    n_fixed = len(srcs)
    alpha = ALPHA if tier == "thorough" else ALPHA[:9]
    for n in range(0, L + 1):
        for tup in itertools.product(alpha, repeat=n):
            srcs.append("".join(tup))
    n_ex = len(srcs) - n_fixed
    n_rand = int((6000 if tier == "quick" else 150000) * ch.budget_scale)
    for i in range(n_rand):
        srcs.append(gen_source(core.rng(PROP, "grammar", i)))
    stop = False
    for off in range(0, len(srcs), 50000):
        chunk = srcs[off:off + 50000]
        reps = core.drive([{"op": "lex", "dotall": dotall, "src": s} for s in chunk])
        for k, (src, rep) in enumerate(zip(chunk, reps)):
            if "error" in rep:
                raise core.InfraError(f"driver: {rep['error']}")
            stream = "fixed" if off + k < n_fixed else ("exhaustive" if off + k < n_fixed + n_ex else "grammar")
            ch.count(stream, 1, 1)
            parsed, stock = impl_tokens(src)
            feats = []
            if "err" in parsed:
                ch.errkind(parsed["err"])
            else:
                nq = sum(1 for t in parsed["ok"] if t[0] == "BLOCK" and ("'" in t[1] or '"' in t[1]))
                if nq:
                    feats.append("quoted-tag")
                if nq >= 2:
                    feats.append("two-quoted-tags")
                if parsed["ok"] != stock:
                    feats.append("differs-from-stock")
                if any("\n" in src[t[2]:t[3]] for t in parsed["ok"] if t[0] == "BLOCK"):
                    feats.append("multiline-tag")
                if nq:
                    ch.nontrivial(src)
            ch.branch(feats)
            clause, slug = oracle(src, parsed, stock)
            model_same = parsed == rep["parsed"] and stock == rep["stock"]
            if clause:
                if slug and model_same:
                    ch.known_hit(slug, {"src": src, "tokens": parsed})
                    continue
                ch.violation("impl-violates-spec", stream, {"src": src}, impl=parsed, model=rep["parsed"], spec=clause)
                stop = True
                break
            if not model_same:
                ch.violation("model-impl-disagree", stream, {"src": src}, impl={"parsed": parsed, "stock": stock},
                             model={"parsed": rep["parsed"], "stock": rep["stock"]},
                             note="tokens satisfy the property's clauses but differ from the Lean model")
                if sum(1 for v in ch.violations if v["kind"] == "model-impl-disagree") > 3:
                    stop = True
                    break
        if stop:
            break
    # shrink
    real = [v for v in ch.violations if v["kind"] == "impl-violates-spec"]
    if real:
        v = real[0]

        def fails(chars):
            s = "".join(chars)
            p, st = impl_tokens(s)
            c, sl = oracle(s, p, st)
            return bool(c) and not sl

        small = "".join(core.shrink_list(list(v["input"]["src"]), fails, max_steps=800))
        p, st = impl_tokens(small)
        c, _ = oracle(small, p, st)
        if c:
            v["input"], v["impl"], v["spec"] = {"src": small}, p, c
    ch.cov["exhaustive"] = not stop
    ch.cov["rule"] = (
        f"all strings of length <= {L} over {alpha!r} ({n_ex} sources) + {n_rand} random sources of 0-8 pieces (text runs, block tags "
        "with 0-3 quoted strings / lone % / unterminated strings, {{ }}, {# #}, verbatim blocks with bare and quoted names, unterminated "
        f"constructs) + {n_fixed} fixed witnesses; non-trivial = at least one block tag with a quoted string; distinct = distinct source"
    )
    ch.sample({"src": srcs[0]})
    ch.sample({"src": srcs[n_fixed + n_ex] if len(srcs) > n_fixed + n_ex else ""})
    return ch.finish()
