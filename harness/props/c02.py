"""
C02 — tag arguments reach Python with exactly the values they denote.

Argument lists are generated from the documented grammar as a small AST (nested list / dict
literals, `*` / `**` / `...` spreads at each level, filters with arguments, translation strings,
strings containing nested {{ }} / {% %}, aggregate and special-character keys, flags), each printed
in several random layouts (white space, line breaks, trailing commas, quote style, self-closing
slash).  Observables: args / kwargs / flags received by a probe `BaseNode.render` and by
`Component.get_context_data`, canonicalised.  Oracle: the denotation of the AST computed by the
harness with *stock* Django (`FilterExpression(text, parser).resolve(context)`); the Lean model gets
the same leaf values as a table.
"""
from __future__ import annotations

import json
from typing import Any, Dict, List, Optional, Tuple

from .. import core

PROP = "C02"
THEOREMS = [
    "list_literal_concatenates",
    "list_spread_of_literal_inlines",
    "dict_literal_updates_in_order",
    "dict_spread_merges_or_raises",
    "top_level_spread_splices",
    "params_concatenate",
    "aggregate_identity_without_colons",
    "aggregate_collects_in_order",
    "aggregate_conflict_raises",
    "ws_insignificant_before_tokens",
    "slash_does_not_change_params",
]

import collections as _collections
import types as _types

# `mp` / `cm`: mappings that are not dict subclasses (a `...` spread of them must still give keyword arguments)
CTX = {"nn": None, "v": "val", "n": 3, "xs": [1, 2], "d": {"a": 1, "b": 2}, "s": "a b", "e": "", "t": True, "d2": {"b": 9, "c": 3}, "xs2": ["x"], "name": "N",
       "mp": _types.MappingProxyType({"p": 1, "q": "z"}), "cm": _collections.ChainMap({"r": 2})}
HOLDER: List[Any] = []
HOLDER_ORIG = HOLDER

# --- AST -------------------------------------------------------------------------------------------


def gen_leaf(r) -> dict:
    k = r.random()
    if k < 0.3:
        return {"t": "leaf", "text": r.choice(["v", "n", "xs", "d", "s", "t", "d.a", "xs.0", "name"])}
    if k < 0.45:
        return {"t": "leaf", "text": r.choice(["1", "42", "True", "None", "2.5"])}
    if k < 0.7:
        body = r.choice(["x", "a b", "", "it", "a=b", "[1]", "%", "ü", "a, b", "k: v", "*x", "...y", "/"])
        return {"t": "str", "body": body}
    if k < 0.78:
        return {"t": "trans", "body": r.choice(["hello", "a b"])}
    if k < 0.9:
        base = r.choice(["v", "s", "xs", "n", "e"])
        chain = []
        for _ in range(r.randint(1, 2)):
            f = r.choice([("upper", None), ("default", {"t": "str", "body": r.choice(["x y", "z"])}), ("add", {"t": "leaf", "text": "n"}), ("length", None), ("join", {"t": "str", "body": ", "}),
                          ("default", {"t": "trans", "body": r.choice(["Monday", "t u"])}), ("default_if_none", {"t": "trans", "body": "z"})])
            chain.append(f)
        return {"t": "filter", "base": base, "chain": chain}
    inner = r.choice(["{{ v }}", "{{ n|add:1 }}", "a {{ v }}", "{% lorem 2 w %}", "{{ v }}{{ n }}", "{# c #}x"])
    return {"t": "dyn", "inner": inner}


def gen_value(r, depth: int = 0) -> dict:
    k = r.random()
    if depth < 3 and k < 0.18:
        items = []
        for _ in range(r.randint(0, 3)):
            if r.random() < 0.25:
                items.append({"t": "spread", "of": r.choice([{"t": "leaf", "text": "xs"}, {"t": "leaf", "text": "xs2"}, gen_list(r, depth + 1)])})
            else:
                items.append(gen_value(r, depth + 1))
        return {"t": "list", "items": items}
    if depth < 3 and k < 0.34:
        return gen_dict(r, depth)
    return gen_leaf(r)


def gen_list(r, depth: int) -> dict:
    return {"t": "list", "items": [gen_value(r, depth + 1) for _ in range(r.randint(0, 2))]}


def gen_dict(r, depth: int) -> dict:
    items = []
    for _ in range(r.randint(0, 3)):
        if r.random() < 0.25:
            items.append({"t": "dspread", "of": r.choice([{"t": "leaf", "text": "d"}, {"t": "leaf", "text": "d2"}, {"t": "leaf", "text": "mp"}, gen_dict(r, depth + 2)])})
        else:
            key = r.choice([{"t": "str", "body": r.choice(["k", "a", "b", "x y"])}, {"t": "leaf", "text": "name"}, {"t": "leaf", "text": "n"},
                            # falsy / None keys are keys like any other (seeded/C02-3)
                            {"t": "leaf", "text": r.choice(["None", "nn", "0", "e", "True"])}])
            items.append({"t": "pair", "key": key, "value": gen_value(r, depth + 1)})
    return {"t": "dict", "items": items}


def gen_args(r) -> List[dict]:
    args: List[dict] = []
    used_kw = set()
    agg_used = set()
    for _ in range(r.randint(0, 5)):
        k = r.random()
        if k < 0.22 and not used_kw and not agg_used:
            args.append({"t": "pos", "value": gen_value(r)})
        elif k < 0.34:
            args.append({"t": "topspread", "of": r.choice([{"t": "leaf", "text": "xs"}, {"t": "leaf", "text": "d2"}, {"t": "leaf", "text": "mp"}, {"t": "leaf", "text": "cm"},
                                                          gen_list(r, 1), gen_dict(r, 1),
                                                          {"t": "filter", "base": "xs", "chain": [("slice", {"t": "str", "body": ":1"})]}])})
        elif k < 0.46:
            outer = r.choice(["attrs", "opts"])
            if outer in used_kw:
                continue
            inner = r.choice(["class", "data-x", "@click", "x:y"])
            agg_used.add(outer)
            args.append({"t": "kw", "key": f"{outer}:{inner}", "value": gen_leaf(r)})
        elif k < 0.52:
            args.append({"t": "flag", "name": r.choice(["only", "required"])})
        else:
            key = r.choice(["a", "b", "c", "data-id", "@ev", "#id", "x.y", "class", "x1"])  # documented special characters: # @ . - _
            if key in used_kw or key in agg_used:
                continue
            used_kw.add(key)
            args.append({"t": "kw", "key": key, "value": gen_value(r)})
    # flags at most once each
    seen = set()
    out = []
    for a in args:
        if a["t"] == "flag":
            if a["name"] in seen:
                continue
            seen.add(a["name"])
        out.append(a)
    return out


# --- printing in a random layout -------------------------------------------------------------------


def ws(r, must: bool = False) -> str:
    opts = [" ", "  ", "\n", " \n  "] if must else ["", "", " ", "\n "]
    return r.choice(opts)


NO_TRANS_WS = [False]


def print_leaf(r, leaf: dict) -> str:
    t = leaf["t"]
    if t == "leaf":
        return leaf["text"]
    if t == "str":
        q = r.choice(['"', "'"])
        return q + leaf["body"] + q
    if t == "trans":
        q = r.choice(['"', "'"])
        if NO_TRANS_WS[0]:
            return "_(" + q + leaf["body"] + q + ")"
        return "_(" + ws(r) + q + leaf["body"] + q + ws(r) + ")"
    if t == "filter":
        s = leaf["base"]
        for name, arg in leaf["chain"]:
            s += ws(r) + "|" + ws(r) + name
            if arg is not None:
                s += ws(r) + ":" + ws(r) + print_leaf(r, arg)
        return s
    if t == "dyn":
        q = "'" if '"' in leaf["inner"] else r.choice(['"', "'"])
        return q + leaf["inner"] + q
    raise AssertionError(t)


def print_value(r, v: dict, in_dict_key: bool = False) -> str:
    t = v["t"]
    if t == "list":
        parts = []
        for it in v["items"]:
            if it["t"] == "spread":
                # white space after `*` is accepted before a variable; before a literal it is the known finding
                parts.append("*" + (ws(r) if it["of"]["t"] == "leaf" else "") + print_value(r, it["of"]))
            else:
                parts.append(print_value(r, it))
        inner = (ws(r) + "," + ws(r)).join(parts)
        if parts and r.random() < 0.3:
            inner += ws(r) + ","
        return "[" + ws(r) + inner + ws(r) + "]"
    if t == "dict":
        parts = []
        for it in v["items"]:
            if it["t"] == "dspread":
                parts.append("**" + (ws(r) if it["of"]["t"] == "leaf" else "") + print_value(r, it["of"]))
            else:
                parts.append(print_value(r, it["key"], True) + ws(r) + ":" + ws(r) + print_value(r, it["value"]))
        inner = (ws(r) + "," + ws(r)).join(parts)
        if parts and r.random() < 0.3:
            inner += ws(r) + ","
        return "{" + ws(r) + inner + ws(r) + "}"
    return print_leaf(r, v)


def print_args(r, args: List[dict], self_closing: bool) -> str:
    bits = []
    for a in args:
        if a["t"] == "pos":
            bits.append(print_value(r, a["value"]))
        elif a["t"] == "kw":
            bits.append(a["key"] + "=" + print_value(r, a["value"]))
        elif a["t"] == "topspread":
            bits.append("..." + print_value(r, a["of"]))
        else:
            bits.append(a["name"])
    s = ws(r, True).join(bits)
    if self_closing:
        s += ws(r, True) + "/"
    return s


# --- denotation with stock Django ------------------------------------------------------------------

_parser = [None]


def stock_leaf(text: str, ctx) -> Any:
    """what the text means in a stock Django {{ }} expression"""
    from django.template import engines
    from django.template.base import FilterExpression, Parser

    if _parser[0] is None:
        eng = engines["django"].engine
        _parser[0] = Parser([], eng.template_libraries, eng.template_builtins)
    v = FilterExpression(text, _parser[0]).resolve(ctx)
    if isinstance(v, _collections.abc.Mapping) and not isinstance(v, dict):
        v = dict(v)            # the denotation of a mapping is its key/value pairs, whatever its class
    return v


def denote_leaf(leaf: dict, ctx) -> Any:
    from django.template import Template

    t = leaf["t"]
    if t == "leaf":
        return stock_leaf(leaf["text"], ctx)
    if t == "str":
        return stock_leaf('"' + leaf["body"] + '"', ctx) if '"' not in leaf["body"] else leaf["body"]
    if t == "trans":
        return stock_leaf('_("' + leaf["body"] + '")', ctx)
    if t == "filter":
        s = leaf["base"]
        for name, arg in leaf["chain"]:
            s += "|" + name
            if arg is not None:
                s += ":" + (('"' + arg["body"] + '"') if arg["t"] == "str" else ('_("' + arg["body"] + '")') if arg["t"] == "trans" else arg["text"])
        return stock_leaf(s, ctx)
    if t == "dyn":
        inner = leaf["inner"].strip()
        import re

        m = re.fullmatch(r"\{\{(.*?)\}\}", leaf["inner"])
        if m and leaf["inner"].count("{{") == 1:
            return stock_leaf(m.group(1).strip(), ctx)
        return Template(leaf["inner"]).render(ctx)
    raise AssertionError(t)


def denote(v: dict, ctx) -> Any:
    t = v["t"]
    if t == "list":
        out: List[Any] = []
        for it in v["items"]:
            if it["t"] == "spread":
                out.extend(denote(it["of"], ctx))
            else:
                out.append(denote(it, ctx))
        return out
    if t == "dict":
        d: Dict[Any, Any] = {}
        for it in v["items"]:
            if it["t"] == "dspread":
                d.update(denote(it["of"], ctx))
            else:
                d[denote(it["key"], ctx)] = denote(it["value"], ctx)
        return d
    return denote_leaf(v, ctx)


def denote_args(args: List[dict], ctx) -> Tuple[list, dict, list]:
    pos: List[Any] = []
    kw: Dict[str, Any] = {}
    agg: Dict[str, Dict[str, Any]] = {}
    flags = []
    for a in args:
        if a["t"] == "pos":
            pos.append(denote(a["value"], ctx))
        elif a["t"] == "kw":
            k = a["key"]
            if ":" in k and not k.startswith(":"):
                outer, inner = k.split(":", 1)
                agg.setdefault(outer, {})[inner] = denote(a["value"], ctx)
            else:
                kw[k] = denote(a["value"], ctx)
        elif a["t"] == "topspread":
            val = denote(a["of"], ctx)
            if isinstance(val, dict):
                kw.update(val)
            else:
                pos.extend(val)
        else:
            flags.append(a["name"])
    for k2, v2 in agg.items():
        kw[k2] = v2
    return pos, kw, sorted(flags)


def canon(x: Any) -> Any:
    if isinstance(x, _collections.abc.Mapping) and not isinstance(x, dict):
        x = dict(x)
    if isinstance(x, dict):
        return {"d": [[canon(k), canon(v)] for k, v in x.items()]}
    if isinstance(x, (list, tuple)):
        return {"l": [canon(i) for i in x]}
    if isinstance(x, bool) or x is None or isinstance(x, (int, float)):
        return {"a": repr(x)}
    if isinstance(x, str):
        return {"s": str(x)}
    return {"a": "<" + type(x).__name__ + ">"}


def canon_sorted(x: Any) -> Any:
    """dict equality ignores order"""
    if isinstance(x, dict) and "d" in x:
        return {"d": sorted(([canon_sorted(k), canon_sorted(v)] for k, v in x["d"]), key=lambda e: json.dumps(e[0], sort_keys=True))}
    if isinstance(x, dict) and "l" in x:
        return {"l": [canon_sorted(i) for i in x["l"]]}
    return x


def valid_order(args: List[dict], ctx) -> bool:
    """Python call rules the generator must respect: no positional after keyword (incl. spread-produced)"""
    seen_kw = False
    for a in args:
        if a["t"] == "kw":
            seen_kw = True
        elif a["t"] == "pos":
            if seen_kw:
                return False
        elif a["t"] == "topspread":
            val = denote(a["of"], ctx)
            if isinstance(val, dict):
                seen_kw = True
            elif seen_kw and len(val):
                return False
    return True


def no_dup_keys(args: List[dict], ctx) -> bool:
    keys = []
    for a in args:
        if a["t"] == "kw":
            keys.append(a["key"].split(":")[0] if (":" in a["key"] and not a["key"].startswith(":")) else a["key"])
        elif a["t"] == "topspread":
            val = denote(a["of"], ctx)
            if isinstance(val, dict):
                keys += [k for k in val]
    plain = [a["key"] for a in args if a["t"] == "kw" and not (":" in a["key"] and not a["key"].startswith(":"))]
    spread_keys = [k for a in args if a["t"] == "topspread" and isinstance(denote(a["of"], ctx), dict) for k in denote(a["of"], ctx)]
    allk = plain + spread_keys
    aggs = {a["key"].split(":")[0] for a in args if a["t"] == "kw" and ":" in a["key"] and not a["key"].startswith(":")}
    return len(allk) == len(set(allk)) and not (aggs & set(allk)) and all(isinstance(k, str) for k in allk)


def run(tier: str) -> int:
    ch = core.Check(PROP, tier, THEOREMS)
    ch.assumptions += [
        "leaf values are whatever stock Django computes for the leaf text (FilterExpression.resolve on the same Context); the filter library itself is not modelled",
        "generated calls respect Python's own call rules (no positional after keyword, no duplicate keywords) — those belong to C11",
        "white space around '=' is significant by the documented grammar and is not a layout variation",
    ]
    ch.build_and_audit()
    core.django_setup()
    from django.template import Context, Template
    from django.template.exceptions import TemplateSyntaxError

    from django_components import BaseNode, Component, registry
    from django_components.templatetags.component_tags import register as library

    class ProbeNode(BaseNode):
        tag = "c02probe"
        end_tag = None
        allowed_flags = ["only", "required"]

        def render(self, context, *args, **kwargs):
            HOLDER.append((list(args), dict(kwargs), sorted(k for k, v in self.flags.items() if v)))
            return ""

    ProbeNode.register(library)

    class _Comp(Component):
        template = "x"

        def get_context_data(self, *args, **kwargs):
            HOLDER.append((list(args), dict(kwargs), []))
            return {}

    try:
        registry.register("c02comp", _Comp)
    except Exception:
        pass
    n = int((900 if tier == "quick" else 20000) * ch.budget_scale)
    layouts = 4 if tier == "quick" else 8
    ctx = Context(dict(CTX))
    cases = []
    for i in range(n):
        r = core.rng(PROP, "args", i)
        args = gen_args(r)
        try:
            if not valid_order(args, ctx) or not no_dup_keys(args, ctx):
                continue
            expected = denote_args(args, ctx)
        except Exception:
            continue
        prints = [print_args(core.rng(PROP, "layout", f"{i}:{j}"), args, self_closing=(j % 2 == 1)) for j in range(layouts)]
        cases.append((args, expected, prints))
    # phase 1: leaves
    flat = [("c02probe " + p) for _, _, prints in cases for p in prints]
    lreps = core.drive([{"op": "leaves", "s": s} for s in flat])
    reqs = []
    for s, lr in zip(flat, lreps):
        tbl = []
        for leaf in lr.get("leaves", []):
            try:
                if leaf[:1] in "\"'" and any(m in leaf for m in ("{{", "{%", "{#")):
                    inner = leaf[1:-1]
                    import re

                    m = re.fullmatch(r"\{\{(.*?)\}\}", inner)
                    val = stock_leaf(m.group(1).strip(), ctx) if (m and inner.count("{{") == 1) else Template(inner).render(ctx)
                else:
                    val = stock_leaf(leaf, ctx)
                tbl.append([leaf, canon(val)])
            except Exception:
                tbl.append([leaf, None])
        reqs.append({"op": "resolve", "s": s, "flags": ["only", "required"], "leaves": tbl})
    rreps = core.drive(reqs)
    k = 0
    stop = False
    for args, expected, prints in cases:
        exp = {"args": [canon(a) for a in expected[0]], "kwargs": canon_sorted(canon(expected[1])), "flags": expected[2]}
        feats = set()
        for a in args:
            feats.add(a["t"])
            if a["t"] in ("pos", "kw"):
                feats.add("value:" + a["value"]["t"])
        ch.branch(sorted(feats))
        for j, p in enumerate(prints):
            rep = rreps[k]
            k += 1
            ch.count("probe", 1, 1)
            src = "{% c02probe " + p + " %}"
            HOLDER.clear()
            try:
                Template(src).render(ctx)
                got_raw = HOLDER[-1] if HOLDER else None
                impl: Any = {"args": [canon(a) for a in got_raw[0]], "kwargs": canon_sorted(canon(got_raw[1])), "flags": got_raw[2]} if got_raw else {"err": "not-called"}
            except TemplateSyntaxError as e:
                impl = {"err": "TemplateSyntaxError", "msg": str(e)[:100]}
            except Exception as e:
                impl = {"err": type(e).__name__, "msg": str(e)[:100]}
            if len(args) >= 2:
                ch.nontrivial(p)
            shown = {"args_ast": args, "layout": j, "tag": src}
            if impl != exp:
                ch.violation("impl-violates-spec", "probe", shown, impl=impl, model=rep,
                             spec={"expected": exp, "clause": "the receiver must get exactly the values the arguments denote (stock Django for leaves; list / dict / spread / aggregate semantics; layout must not matter)"})
                stop = True
                break
            if "params" in rep:
                margs = [v for kk, v in rep["params"] if kk is None]
                mkw = canon_sorted({"d": [[{"s": kk}, v] for kk, v in rep["params"] if kk is not None]})
                model = {"args": margs, "kwargs": mkw, "flags": sorted(rep["flags"])}
            else:
                model = {"err": rep.get("err")}
            if model != impl:
                ch.violation("model-impl-disagree", "probe", shown, impl=impl, model=model)
                if sum(1 for v in ch.violations if v["kind"] == "model-impl-disagree") > 3:
                    stop = True
                    break
        if stop:
            break
    # the same compiled tag rendered again after the receiver changed what it was given in place: the values a tag hands
    # over on one render must not depend on what a receiver did with those of an earlier render (seeded/C02-4)
    def fresh_ctx():
        c = {k: (list(v) if isinstance(v, list) else dict(v) if isinstance(v, dict) else v) for k, v in CTX.items()}
        c["loop2_"] = (0, 1)
        return Context(c)

    def scribble(x, depth=0):
        if depth > 6:
            return
        if isinstance(x, list):
            for y in list(x):
                scribble(y, depth + 1)
            x.append("__scribbled__")
        elif isinstance(x, dict):
            for y in list(x.values()):
                scribble(y, depth + 1)
            x["__scribbled__"] = 1

    if not stop:
        for args, expected, prints in cases[: (300 if tier == "quick" else 6000)]:
            src = "{% c02probe " + prints[0] + " %}"
            looped = "{% for _i in loop2_ %}{% c02probe " + prints[0] + " %}{% endfor %}"
            exp = {"args": [canon(a) for a in expected[0]], "kwargs": canon_sorted(canon(expected[1])), "flags": expected[2]}
            for variant, text in (("again", src), ("loop", looped)):
                ch.count("rerender", 1, 1)
                try:
                    t = Template(text)
                    seen = []
                    if variant == "again":
                        for _ in range(2):
                            HOLDER.clear()
                            t.render(fresh_ctx())
                            got = HOLDER[-1]
                            seen.append({"args": [canon(a) for a in got[0]], "kwargs": canon_sorted(canon(got[1])), "flags": got[2]})
                            scribble(got[0]); scribble(got[1])
                    else:
                        HOLDER.clear()

                        class _Scribbling(list):
                            def append(self, item):       # the receiver changes its arguments as soon as it has them
                                seen.append({"args": [canon(a) for a in item[0]], "kwargs": canon_sorted(canon(item[1])), "flags": item[2]})
                                scribble(item[0]); scribble(item[1])
                                super().append(item)
                        saved = list(HOLDER)
                        hold = _Scribbling()
                        globals()["HOLDER"] = hold
                        try:
                            ProbeNode.render.__globals__["HOLDER"] = hold
                            c = fresh_ctx()
                            t.render(c)
                        finally:
                            ProbeNode.render.__globals__["HOLDER"] = HOLDER_ORIG
                            globals()["HOLDER"] = HOLDER_ORIG
                    bad = [i for i, sv in enumerate(seen) if sv != exp]
                except Exception as e:  # noqa
                    seen, bad = [{"err": type(e).__name__, "msg": str(e)[:100]}], [0]
                if variant == "loop" and any(v in json.dumps(args) for v in ('"xs', '"d"', '"d.', '"d2', '"xs2', '...')):
                    continue          # within one render the Context's own lists / dicts are shared with the receiver
                if bad:
                    ch.violation("impl-violates-spec", "rerender", {"args_ast": args, "template": text, "variant": variant},
                                 impl={"received_on_each_render": seen}, spec={"expected_every_time": exp, "clause":
                                 "the receiver gets the values the arguments denote on every render of the tag, whatever an earlier receiver did with its copy"})
                    stop = True
                    break
                ch.nontrivial(("rerender", variant, text))
            if stop:
                break
    # through a real component (no flags other than `only`)
    if not stop:
        for args, expected, prints in cases[: (150 if tier == "quick" else 3000)]:
            if any(a["t"] == "flag" and a["name"] == "required" for a in args) or '"t": "trans"' in json.dumps(args):
                continue
            ch.count("component", 1, 1)
            NO_TRANS_WS[0] = True
            p0 = print_args(core.rng(PROP, "complayout", str(args)), args, self_closing=False)
            NO_TRANS_WS[0] = False
            src = '{% component "c02comp" ' + p0 + " %}{% endcomponent %}"
            HOLDER.clear()
            try:
                Template(src).render(Context(dict(CTX)))
                got = HOLDER[-1]
                impl = {"args": [canon(a) for a in got[0]], "kwargs": canon_sorted(canon(got[1]))}
            except Exception as e:
                impl = {"err": type(e).__name__, "msg": str(e)[:100]}
            exp = {"args": [canon(a) for a in expected[0]], "kwargs": canon_sorted(canon(expected[1]))}
            if impl != exp:
                ch.violation("impl-violates-spec", "component", {"args_ast": args, "template": src}, impl=impl,
                             spec={"expected": exp, "clause": "Component.get_context_data must receive the denoted values"})
                break
    # known findings: fixed witnesses, re-confirmed on every run
    known_cases = [
        ("spread-literal-whitespace", "{% c02probe a=[* [1]] %}", {"args": [], "kwargs": {"a": [1]}}),
        ("spread-literal-whitespace", "{% c02probe a={** {'k': 1}} %}", {"args": [], "kwargs": {"a": {"k": 1}}}),
        ("component-translation-chunk", '{% component "c02comp" _("t")|upper %}{% endcomponent %}', {"args": ["T"], "kwargs": {}}),
        ("component-translation-chunk", '{% component "c02comp" a={"k" : _("t"),"j" : 1} %}{% endcomponent %}', {"args": [], "kwargs": {"a": {"k": "t", "j": 1}}}),
        ("escaped-backslash-before-quote", '{% c02probe a="b\\\\" c="d" %}', {"args": [], "kwargs": {"a": "b\\", "c": "d"}}),
    ]
    for slug, src, expk in known_cases:
        ch.count("known", 1, 1)
        HOLDER.clear()
        try:
            Template(src).render(Context(dict(CTX)))
            got = HOLDER[-1]
            obs: Any = {"args": [canon(a) for a in got[0]], "kwargs": canon_sorted(canon({k: str(v) if hasattr(v, "_proxy____args") else v for k, v in got[1].items()}))}
        except Exception as e:
            obs = {"err": type(e).__name__}
        expc = {"args": [canon(a) for a in expk["args"]], "kwargs": canon_sorted(canon(expk["kwargs"]))}
        if obs == expc:
            ch.notes.append(f"known finding {slug} no longer reproduces on {src!r}")
        elif obs == {"err": "TemplateSyntaxError"}:
            ch.known_hit(slug, {"template": src, "observed": obs, "expected": expc})
        else:
            ch.violation("impl-violates-spec", "known", {"template": src}, impl=obs, spec={"expected": expc, "clause": f"a different failure than the recorded finding {slug}"})
    # quoted strings that contain template syntax mean what they mean *in the template they are written in*: the same
    # text under another {% load %} environment uses that template's filters (and is an error where none is loaded)
    from django.template import Library, engines
    eng = engines["django"].engine
    for lname, fmt_ in (("c02lib_a", "A(%s)"), ("c02lib_b", "B[%s]")):
        lib_ = Library()
        lib_.filter("fmt", (lambda v, f=fmt_: f % (v,)))
        eng.template_libraries[lname] = lib_
    rl = core.rng(PROP, "load-env")
    nested_texts = ["{{ x|fmt }}", "pre {{ y|fmt }} post", "{{ x|fmt }}{{ y|fmt }}", "{% firstof x|fmt %}", "{{ x|fmt|upper }}"]
    rl.shuffle(nested_texts)
    try:
        for text in nested_texts:
            order = [rl.choice(["c02lib_a", "c02lib_b"])]
            order.append("c02lib_b" if order[0] == "c02lib_a" else "c02lib_a")
            order += [None, rl.choice(["c02lib_a", "c02lib_b"])]
            for lname in order:
                ch.count("load-env", 1, 1)
                head = ("{% load " + lname + " %}") if lname else ""
                ctx2 = Context({"x": 7, "y": "q"})
                try:
                    want: Any = Template(head + text).render(ctx2)
                except TemplateSyntaxError:
                    want = {"err": "TemplateSyntaxError"}
                HOLDER.clear()
                try:
                    Template(head + '{% c02probe val="' + text + '" %}').render(Context({"x": 7, "y": "q"}))
                    got2: Any = str(HOLDER[-1][1].get("val"))
                except TemplateSyntaxError:
                    got2 = {"err": "TemplateSyntaxError"}
                except Exception as e:  # noqa
                    got2 = {"err": type(e).__name__}
                if got2 != want:
                    ch.violation("impl-violates-spec", "load-env", {"template": head + '{% c02probe val="' + text + '" %}', "loads_in_order": order},
                                 impl=got2, spec={"stock {{ }} / {% %} in the same template": want})
                    break
            else:
                continue
            break
    finally:
        eng.template_libraries.pop("c02lib_a", None)
        eng.template_libraries.pop("c02lib_b", None)
    # the repaired defect: a top-level spread keeps its filters
    HOLDER.clear()
    ch.count("fixed", 1, 1)
    try:
        Template('{% c02probe ...xs|slice:":1" %}').render(Context(dict(CTX)))
        if [canon(a) for a in HOLDER[-1][0]] != [canon(1)]:
            ch.violation("impl-violates-spec", "fixed", {"template": '{% c02probe ...xs|slice:":1" %}'}, impl=str(HOLDER[-1]),
                         spec="top_level_spread_splices: the filtered value must be spread (fixed: 2ad4442)")
    except Exception as e:
        ch.violation("impl-violates-spec", "fixed", {"template": '{% c02probe ...xs|slice:":1" %}'}, impl=type(e).__name__, spec="fixed: 2ad4442 returned")
    # invalid combinations must raise TemplateSyntaxError
    invalid = ["a=v|...f", "a={...d: 1}", 'a={"k": ...v}', "a=[...xs]", "a={...d}", "a=[**d]", "a={*xs}", "a=...xs", 'a={"k": **d}', "a={**d: 1}"]
    for s in invalid:
        ch.count("invalid", 1, 1)
        try:
            Template("{% c02probe " + s + " %}").render(ctx)
            out = "accepted"
        except TemplateSyntaxError:
            out = "TemplateSyntaxError"
        except Exception as e:
            out = type(e).__name__
        if out != "TemplateSyntaxError":
            ch.violation("impl-violates-spec", "invalid", {"tag": s}, impl=out, spec="invalid_combos_raise: documented-invalid combinations raise TemplateSyntaxError")
        else:
            ch.nontrivial(("invalid", s))
    ch.cov["rule"] = (
        f"{len(cases)} argument lists generated from the grammar (0-5 arguments: positional / keyword / aggregate / special-character keys / "
        f"top-level spreads / flags; values: leaves, filters with arguments, translations, nested-template strings, list and dict literals "
        f"to depth 3 with * / ** spreads of variables and literals), each in {layouts} random layouts (white space, line breaks, trailing "
        "commas, quote style, self-closing slash) through a probe BaseNode, the first layout also through a Component; plus 10 documented-"
        "invalid combinations; non-trivial = >= 2 arguments; distinct = distinct printed tag"
    )
    if cases:
        ch.sample({"args_ast": cases[0][0], "layouts": cases[0][2][:2]})
    ProbeNode.unregister(library)
    return ch.finish()
