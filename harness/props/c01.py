"""
C01 — each slot renders the fill addressed to it, else its own default content.

Streams:
  programs   generated component programs (slot / fill weighted), both context_behavior values:
             the real render vs Djc.Render (model of the code: output, callback events, registries)
             and vs Djc.SpecRender (the property's reading: closures, owner instance, in-order
             composition, is_filled, required).
  variants   the same program with every {% component "c" %} replaced by
             {% component "dynamic" is="c" %}, and single-component pages rendered through
             Component.render(kwargs=…, slots=…): outputs must coincide (ids renumbered, the
             dynamic wrapper's own marker removed).
"""
from __future__ import annotations

import copy

from .. import core, tplgen
from .. import render_common as rc

PROP = "C01"
THEOREMS = ["slot_renders_its_fill_else_its_default_in_trees", "fills_of_a_tag_body_in_trees", "unfilled_slot_renders_its_default_content_in_trees", "C01_full_partial_component_trees_compose_in_order", "fill_choice_named", "fill_choice_default", "is_filled_iff_provided", "is_filled_path", "implicit_default_fill",
            "fills_next_to_content_raise", "duplicate_fills_raise", "every_executed_fill_is_kept", "required_unfilled_raises",
            "required_filled_or_optional_passes", "two_default_slots_raise", "double_fill_raises", "slot_checks_pass", "C01_full_partial_plain_fragment", "C01_full_partial_leaf_component_django", "C01_full_partial_unfilled_slots_render_their_default_django", "C01_full_partial_template_failure_same_exception_django", "C01_full_partial_named_fill_django"]

PROFILE = dict(w_slot=5, w_comp=5, p_named_fill=0.6, p_slot_in_fill=0.3, p_is_filled=0.25, w_for=1, w_with=1)
REGIONS = ["default-alias-render-sees-fill-aliases", "django-slot-owner-override", "django-only-fill-loses-outer", "forloop-layer-leaks-into-isolated"]


def features(chk, prog, g):
    for k, v in g.features.items():
        chk.branch([k] * 1)
    chk.branch(["mode:" + ("isolated" if prog["isolated"] else "django")])


def run_programs(chk, n):
    progs = []
    for i in range(n):
        g = tplgen.Gen(core.rng(PROP, "programs", i), PROFILE)
        p = g.program()
        progs.append(p)
        features(chk, p, g)
    reps = rc.batch(progs)
    for p, (rep, sp) in zip(progs, reps):
        real = tplgen.run_real(p, limit=20.0)
        chk.count("programs", 1, validated=1)
        chk.errkind(real["err"] or "ok")
        chk.nontrivial(real["out"] or real["err"])
        r = rc.classify(chk, "programs", p, real, rep, sp, REGIONS)
        if r == "ok":
            chk.sample(rc.describe(p)[-2][:300], limit=3)


def to_dynamic(prog):
    def fix(nd):
        if nd["t"] == "comp":
            nd = dict(nd, dyn=True)
        return nd
    out = copy.deepcopy(prog)
    out["lib"] = [dict(d, template=tplgen.map_nodes(d["template"], fix)) for d in out["lib"]]
    out["entry"] = {"page": tplgen.map_nodes(out["entry"]["page"], fix)}
    return out


def run_variants(chk, n):
    # (a) dynamic
    progs = []
    for i in range(n):
        g = tplgen.Gen(core.rng(PROP, "variants", i), dict(PROFILE, p_only=0.05))
        progs.append(g.program())
    dyn = [to_dynamic(p) for p in progs]
    reps = rc.batch(dyn, with_spec=False)
    for p, d, (rep, _) in zip(progs, dyn, reps):
        plain = tplgen.run_real(p, limit=20.0)
        dreal = tplgen.run_real(d, limit=20.0)
        chk.count("variants/dynamic", 1, validated=1)
        same = (plain["err"] == dreal["err"]) and (
            plain["out"] is None or tplgen.canon_real(plain["out"], plain["hash2name"]) ==
            tplgen.canon_real(dreal["out"], dreal["hash2name"], drop_dynamic=True))
        dm = rc.cmp_model(dreal, rep)
        if dm is not None and len([v for v in chk.violations if v["kind"] == "model-impl-disagree"]) < 3:
            pl = rc.replay_payload(d, dreal, rep, None, why=dm)
            chk.violation("model-impl-disagree", "variants/dynamic", pl["program"], impl=pl["real"], model=pl.get("model"),
                          note=dm + " || " + " || ".join(pl["source"]))
        if same:
            continue
        if dm is None and (plain["err"] in rc.DIVERGE or dreal["err"] in rc.DIVERGE) and rc.r_django_nested(p):
            chk.known_hit("django-slot-owner-override", rc.describe(p))
            continue
        if dm is None:
            chk.known_hit("dynamic-deferred-context", rc.describe(d))
            continue
        pl = rc.replay_payload(d, dreal, rep, None, why="dynamic variant differs from the plain tag")
        chk.violation("impl-violates-spec", "variants/dynamic", pl["program"], impl=pl["real"], model=pl.get("model"),
                      spec={"plain": plain["err"] or tplgen.canon_real(plain["out"], plain["hash2name"])},
                      note=" || ".join(pl["source"]))
    # (b) Component.render(kwargs, slots) vs a page holding the one tag
    for i in range(n):
        r = core.rng(PROP, "variants-py", i)
        g = tplgen.Gen(r, dict(PROFILE))
        p = g.program()
        name = p["lib"][0]["name"]
        kw = [[k, tplgen.sval(g.word())] for k in r.sample(tplgen.KEYS + tplgen.SCALARS, r.randint(0, 3))]
        slots = [[s, "" if r.random() < 0.25 else g.word() + g.word()] for s in r.sample(tplgen.SLOTS + ["default"], r.randint(0, 3))]
        body = [{"t": "fill", "name": tplgen.lit(s), "data": None, "dflt": None, "body": ([{"t": "text", "s": c}] if c else [])}
                for s, c in slots]
        page = dict(p, entry={"page": [{"t": "comp", "name": name, "only": False, "dyn": False, "body": body,
                                        "kwargs": [[k, tplgen.lit(v["s"])] for k, v in kw]}]}, ctx=[])
        py = dict(p, entry={"comp": name, "kwargs": kw, "slots": slots}, ctx=[])
        (rep, sp), (rep2, sp2) = rc.batch([py, page])
        a = tplgen.run_real(page, limit=20.0)
        b = tplgen.run_real(py, limit=20.0)
        chk.count("variants/Component.render", 1, validated=2)
        same = (a["err"] == b["err"]) and (a["out"] is None or tplgen.canon_real(a["out"], a["hash2name"]) ==
                                           tplgen.canon_real(b["out"], b["hash2name"]))
        cls = rc.classify(chk, "variants/Component.render", py, b, rep, sp, REGIONS)
        cls2 = rc.classify(chk, "variants/tag", page, a, rep2, sp2, REGIONS)
        if same or cls != "ok" or cls2 != "ok":
            continue
        pl = rc.replay_payload(py, b, rep, sp, why="Component.render(slots=…) differs from the tag")
        chk.violation("impl-violates-spec", "variants/Component.render", pl["program"], impl=pl["real"],
                      spec={"tag": a["err"] or tplgen.canon_real(a["out"], a["hash2name"])}, note=" || ".join(pl["source"]))
    # (c) a `Slot` object fills the slot it is passed under, whatever name it already carries (forwarded slots)
    for i in range(n):
        r = core.rng(PROP, "variants-slotobj", i)
        g = tplgen.Gen(r, dict(PROFILE))
        p = g.program()
        name = p["lib"][0]["name"]
        kw = [[k, tplgen.sval(g.word())] for k in r.sample(tplgen.KEYS + tplgen.SCALARS, r.randint(0, 3))]
        slots = [[s, g.word() + g.word()] for s in r.sample(tplgen.SLOTS + ["default"], r.randint(1, 3))]
        e1 = {"comp": name, "kwargs": kw, "slots": slots, "slot_mode": "slotobj"}
        e2 = dict(e1, slot_mode="slotobj-named")
        a = tplgen.run_real(dict(p, entry=e1, ctx=[]), limit=20.0)
        b = tplgen.run_real(dict(p, entry=e2, ctx=[]), limit=20.0)
        chk.count("variants/Slot-objects", 1, validated=2)
        chk.branch(["slotobj:" + ("err" if a["err"] else "ok")])
        same = (a["err"] == b["err"]) and (a["out"] is None or tplgen.canon_real(a["out"], a["hash2name"]) ==
                                           tplgen.canon_real(b["out"], b["hash2name"]))
        if same:
            continue
        chk.violation("impl-violates-spec", "variants/Slot-objects",
                      dict(p, entry=e2, ctx=[]),
                      impl=b["err"] or tplgen.canon_real(b["out"], b["hash2name"]),
                      spec={"nameless Slot objects": a["err"] or tplgen.canon_real(a["out"], a["hash2name"])},
                      note="Component.render(slots={k: Slot(fn, slot_name=<another name>)}) must fill slot k like Slot(fn) does")


def run_refill(chk, n):
    """Directed: the *same* parsed {% component %} tag rendered several times (in a loop on the page, or in a loop inside
    another component's template, where the instances are deferred) with fills that are produced conditionally — a
    render of the tag without any fill before and after renders with fills (seeded/C01-4: per-tag memo of the
    fill-discovery pass).  Lists hold falsy items, which the program generator never draws."""
    lit, var = tplgen.lit, tplgen.var
    progs = []
    for i in range(n):
        r = core.rng(PROP, "refill", i)
        slot = r.choice(tplgen.SLOTS)
        flags = [r.random() < 0.5 for _ in range(r.randint(2, 5))]
        if i < 4:
            flags = [[False, True, False, True], [True, False, True], [False, False, True], [False, True]][i]
        items = [tplgen.sval(r.choice(tplgen.WORDS) if f else "") for f in flags]
        is_default = r.random() < 0.3
        inner = {"name": "c1", "data": [["a", {"kwarg": "a"}]],
                 "template": [{"t": "text", "s": "["}, {"t": "out", "e": var("a")},
                              {"t": "slot", "name": lit(slot), "default": is_default, "required": False, "data": [],
                               "body": [{"t": "text", "s": "D"}]}, {"t": "text", "s": "]"}]}
        fill = {"t": "fill", "name": lit(slot), "data": None, "dflt": None,
                "body": [{"t": "text", "s": "F"}, {"t": "out", "e": var("x")}]}
        shape = r.choice(["if", "if", "for-empty", "if-else-ws"])
        if shape == "for-empty":
            # a fill looped over a list that is empty for the falsy items (a string iterates over its characters)
            body = [{"t": "for", "x": "ch", "e": var("x"), "body": [dict(fill, name=var("sn"))]}]
            items = [tplgen.sval("k" if f else "") for f in flags]
        elif shape == "if-else-ws":
            body = [{"t": "if", "c": var("x"), "a": [fill], "b": [{"t": "text", "s": " "}]}]
        else:
            body = [{"t": "if", "c": var("x"), "a": [fill], "b": []}]
        tag = {"t": "comp", "name": "c1", "kwargs": [["a", var("x")]], "only": False, "dyn": r.random() < 0.15, "body": body}
        loop = {"t": "for", "x": "x", "e": var("fl"), "body": [tag, {"t": "text", "s": "|"}]}
        ctx = [["fl", {"l": items}], ["sn", tplgen.sval(slot)]]
        if r.random() < 0.5:
            lib = [inner]
            page = [loop]
        else:
            outer = {"name": "c0", "data": [["fl", {"kwarg": "fl"}], ["sn", {"kwarg": "sn"}]], "template": [{"t": "text", "s": "("}, loop, {"t": "text", "s": ")"}]}
            lib = [outer, inner]
            page = [{"t": "comp", "name": "c0", "kwargs": [["fl", var("fl")], ["sn", var("sn")]], "only": False, "dyn": False, "body": []}]
        progs.append({"isolated": r.random() < 0.5, "lib": lib, "entry": {"page": page}, "ctx": ctx, "raise": None})
        chk.branch(["refill:" + shape, "refill:" + ("page" if len(lib) == 1 else "nested")])
    reps = rc.batch(progs)
    for p, (rep, sp) in zip(progs, reps):
        real = tplgen.run_real(p, limit=20.0)
        chk.count("refill", 1, validated=1)
        chk.errkind(real["err"] or "ok")
        chk.nontrivial(("refill", real["out"] or real["err"]))
        rc.classify(chk, "refill", p, real, rep, sp, REGIONS)


def run_looped_slot(chk, n):
    """Directed: a {% slot %} inside a {% for %} of a component's template whose content — its own default content, or a
    fill — holds a {% component %} tag that reads the loop variable in its body or template: every iteration's nested
    instance is rendered later and must still see *its* iteration's value (seeded/C01-5: the loop layer under the slot's
    extra layer shared between the deferred instances)."""
    lit, var = tplgen.lit, tplgen.var
    L = lambda x: {"t": "text", "s": x}
    progs = []
    for i in range(n):
        r = core.rng(PROP, "looped-slot", i)
        lv = r.choice(["x", "v", "a"])
        c1 = {"name": "c1", "data": [], "template": [L("("), {"t": "slot", "name": lit("s2"), "default": True, "required": False, "data": [], "body": [L("d")]},
                                                     {"t": "out", "e": var(lv)}, L(")")]}
        inner_body = r.choice([[L("D"), {"t": "out", "e": var(lv)}], [], [{"t": "fill", "name": lit("s2"), "data": None, "dflt": None, "body": [L("G"), {"t": "out", "e": var(lv)}]}]])
        nested = {"t": "comp", "name": "c1", "kwargs": [], "only": False, "dyn": r.random() < 0.1, "body": inner_body}
        slot = {"t": "slot", "name": lit("s1"), "default": r.random() < 0.3, "required": False,
                "data": [["k1", var(lv)]] if r.random() < 0.4 else [], "body": [L("["), nested, L("]")]}
        loop = {"t": "for", "x": lv, "e": var("xs"), "body": [slot, L("|")]}
        if r.random() < 0.3:
            loop = {"t": "for", "x": "w", "e": var("ys"), "body": [loop]}
        c0 = {"name": "c0", "data": [["xs", {"kwarg": "xs"}], ["ys", {"kwarg": "ys"}]], "template": [L("="), loop, L("=")]}
        if r.random() < 0.5:
            body = []
        else:
            body = [{"t": "fill", "name": lit("s1"), "data": "sd" if r.random() < 0.4 else None, "dflt": None,
                     "body": [L("F"), {"t": "comp", "name": "c1", "kwargs": [], "only": False, "dyn": False,
                                       "body": [L("E"), {"t": "out", "e": var(lv)}, {"t": "out", "e": var("sd", "k1")}]}]}]
        page = [{"t": "comp", "name": "c0", "kwargs": [["xs", var("xs")], ["ys", var("ys")]], "only": False, "dyn": False, "body": body}]
        ctx = [["xs", {"l": [tplgen.sval(w) for w in r.sample(tplgen.WORDS, r.randint(2, 3))]}], ["ys", {"l": [tplgen.sval("p"), tplgen.sval("q")]}]]
        progs.append({"isolated": r.random() < 0.5, "lib": [c0, c1], "entry": {"page": page}, "ctx": ctx, "raise": None})
    reps = rc.batch(progs)
    for p, (rep, sp) in zip(progs, reps):
        real = tplgen.run_real(p, limit=20.0)
        chk.count("looped-slot", 1, validated=1)
        chk.errkind(real["err"] or "ok")
        chk.nontrivial(("looped-slot", real["out"] or real["err"]))
        chk.branch(["looped-slot:mode:" + ("isolated" if p["isolated"] else "django")])
        rc.classify(chk, "looped-slot", p, real, rep, sp, REGIONS)


def run(tier: str) -> int:
    chk = core.Check(PROP, tier, THEOREMS, "DESIGN.md §8 render pipeline / C01")
    chk.build_and_audit()
    core.use_repo()
    core.django_setup()
    n = 600 if tier == "quick" else 12000
    run_programs(chk, n)
    run_variants(chk, n // 4)
    run_refill(chk, 40 if tier == "quick" else 600)
    run_looped_slot(chk, 40 if tier == "quick" else 600)
    chk.assumptions += [
        "text alphabet excludes template and HTML metacharacters; values are str / list[str] / dict[str,str]",
        "component call graph acyclic except through fills; nesting depth <= 3 (quick)",
        "model fuel 1500 = divergence; the real code is cut off after 3 s (HANG)",
    ]
    return chk.finish()


def replay(doc) -> int:
    if doc.get("stream") == "variants/Slot-objects":
        core.use_repo()
        core.django_setup()
        inp = doc["input"]
        e2 = inp["entry"]
        e1 = dict(e2, slot_mode="slotobj")
        a = tplgen.run_real(dict(inp, entry=e1), limit=20.0)
        b = tplgen.run_real(dict(inp, entry=e2), limit=20.0)
        ca = a["err"] or tplgen.canon_real(a["out"], a["hash2name"])
        cb = b["err"] or tplgen.canon_real(b["out"], b["hash2name"])
        print("nameless Slot objects :", ca)
        print("named Slot objects    :", cb)
        if ca != cb:
            print("VIOLATION property=%s replay=%s" % (PROP, doc.get("how", "").split("--replay ")[-1]))
            return 1
        return 0
    return rc.replay(PROP, doc)
