"""
C07 — concurrent renders in different threads do not interfere.

Tie and oracle: a deterministic scheduler (harness/sched.py) runs 2–3 tasks of the real code in threads,
pre-empting at every line of the gated files (perfutil/provide.py, perfutil/component.py, util/cache.py,
cache.py, template.py, component_media.py); schedules are replayed exactly.  Every task's result (output
or error class) is compared with the result of the same task run alone, and the registries are inspected
after all tasks finished.

Streams:
  healthy    2–3 provider-heavy renders (C05 generator), two-switch schedules B×m, A×k, rest (m, k over a
             grid) and seeded random priorities
  failing    the same with one task whose k-th callback raises (C06 generator)
  lru        tasks compiling templates through a full template cache (template_cache_size = 2)
  lru-atomic the same with LRUCache's own operations atomic (only the lines of template.py are pre-emption points):
             the listed LRU finding cannot show, every deviation from the solo outcome is a violation
  assets     tasks rendering component classes whose template_file / js_file / css_file were never accessed
"""
from __future__ import annotations

import copy
import os
import tempfile

from .. import core, sched, tplgen
from .. import render_common as rc

PROP = "C07"
THEOREMS = ["step_agree_own", "step_agree_other", "isolated_of_disjoint_keys", "error_path_race", "registry_sets_commute", "registry_delete_is_private"]

GATED = ("perfutil/provide.py", "perfutil/component.py", "util/cache.py", "django_components/cache.py",
         "django_components/template.py", "component_media.py")
PROFILE = dict(w_provide=4, w_inject=0.7, p_inject_default=0.7, w_comp=6, w_slot=2, p_only=0.1, depth=3, p_required=0.0,
               p_malformed=0.0, p_default_flag=0.1, ncomp=(2, 3))
ZERO = {k: 0 for k in tplgen.CENSUS}


def rename(prog, prefix):
    p = copy.deepcopy(prog)
    names = {d["name"]: prefix + d["name"] for d in p["lib"]}

    def fix(nd):
        if nd["t"] == "comp" and nd["name"] in names:
            nd = dict(nd, name=names[nd["name"]])
        return nd
    for d in p["lib"]:
        d["name"] = names[d["name"]]
        d["template"] = tplgen.map_nodes(d["template"], fix)
    p["entry"] = {"page": tplgen.map_nodes(p["entry"]["page"], fix)}
    return p


class Task:
    """one render of a program whose classes are already registered"""

    def __init__(self, prog, built, rec):
        self.prog, self.built, self.rec = prog, built, rec
        self.src = tplgen.p_nodes(prog["entry"]["page"])

    def __call__(self):
        from django.template import Context, Template
        ctx = Context({k: tplgen.pyval(v) for k, v in self.prog["ctx"]})
        return str(Template(self.src).render(ctx))


def outcome(res, built):
    kind, val = res
    if kind == "ok":
        return tplgen.canon_real(val, built.hash2name)
    if kind == "err":
        return "ERR " + tplgen.err_enum(val)
    return "STUCK"


def solo_outcomes(progs, isolated):
    outs = []
    for p in progs:
        tplgen.clear_census()
        tplgen.set_mode(isolated)
        rec = tplgen.Recorder(tuple(p["raise"]) if p.get("raise") else None)
        b = tplgen.Built(p, rec)
        try:
            t = Task(p, b, rec)
            try:
                outs.append((outcome(("ok", t()), b), len(rec.events)))
            except Exception as e:  # noqa
                outs.append((outcome(("err", e), b), len(rec.events)))
        finally:
            b.close()
    tplgen.clear_census()
    return outs


def run_schedule(progs, isolated, policy, first, gated=None):
    tplgen.clear_census()
    tplgen.set_mode(isolated)
    builts, tasks = [], []
    for p in progs:
        rec = tplgen.Recorder(tuple(p["raise"]) if p.get("raise") else None)
        b = tplgen.Built(p, rec)
        builts.append(b)
        tasks.append(Task(p, b, rec))
    try:
        s = sched.Scheduler(tasks, gated or GATED, policy)
        s.turn = first
        results = s.run()
        outs = [outcome(r, b) if r is not None else "STUCK" for r, b in zip(results, builts)]
        return outs, tplgen.census(), s
    finally:
        for b in builts:
            b.close()
        tplgen.clear_census()


def gen_progs(i, stream, n_tasks, failing):
    r = core.rng(PROP, stream, i)
    isolated = r.random() < 0.5
    progs = []
    prof = dict(PROFILE, w_provide=0, w_inject=0) if stream.startswith("provider-free") else PROFILE
    for t in range(n_tasks):
        g = tplgen.Gen(core.rng(PROP, stream + "-prog-%d" % i, t), prof)
        progs.append(rename(g.program(isolated=isolated), "t%d" % t))
    return r, isolated, progs


def explore(chk, stream, n_programs, grid, n_random, failing):
    import django_components.cache as DC
    DC.template_cache = None          # see run_assets
    tplgen.patch_ids()
    found = 0
    for i in range(n_programs * 20):
        if found >= n_programs:
            break
        r, isolated, progs = gen_progs(i, stream, 2 if i % 3 else 3, failing)
        solo = solo_outcomes(progs, isolated)
        if any(o.startswith("ERR") for o, _ in solo):
            continue                                    # only programs that render alone
        if failing:
            nev = solo[1][1]
            if nev == 0:
                continue
            progs[1] = dict(progs[1], **{"raise": [r.randrange(nev), 0]})
            solo = solo_outcomes(progs, isolated)
        expected = [o for o, _ in solo]
        found += 1
        plans = []
        for m in grid:
            for k in grid:
                plans.append(("B%d,A%d" % (m, k), sched.segments([(1, m), (0, k), (1, 10 ** 9), (0, 10 ** 9)]), 1))
        for j in range(n_random):
            rr = core.rng(PROP, stream + "-sched-%d" % i, j)
            plans.append(("random-%d" % j, sched.random_priorities(rr, rr.choice([0.02, 0.1, 0.5])), rr.randrange(len(progs))))
        for label, policy, first in plans:
            tplgen._counter[0] = 0
            outs, residue, s = run_schedule(progs, isolated, policy, first)
            if s.stuck or "STUCK" in outs:
                chk.count(stream + "/stuck", 1)
                continue
            chk.count(stream, 1, validated=len(progs))
            chk.nontrivial((i, label, tuple(outs)))
            chk.branch(["threads:%d" % len(progs), "switches:%d" % min(len(s.trace), 20)])
            bad = [t for t in range(len(progs)) if outs[t] != expected[t]]
            leaked = residue != ZERO and not failing
            prov_leak = any(residue[k] for k in ("provide_cache", "provide_references", "all_reference_ids"))
            if not bad and not leaked and not (failing and prov_leak):
                continue
            case = {"programs": progs, "isolated": isolated, "schedule": label, "switch_trace": s.trace[:60]}
            impl = {"outcomes": outs, "alone": expected, "registries_after": residue}
            uses_provide = any(rc.r_any_provider(p) for p in progs)
            keyerr = all(outs[t].startswith("ERR KeyError") or (failing and t == 1) for t in bad)
            if failing and uses_provide and keyerr:
                chk.known_hit("error-path-unregisters-other-threads-references", case)
                continue
            if (not failing) and uses_provide and keyerr and not stream.startswith("provider-free"):
                chk.known_hit("provide-bookkeeping-races", case)
                continue
            chk.violation("impl-violates-spec", stream, case, impl=impl,
                          note="under schedule %s thread(s) %s do not give the result they give alone; switches: %s || " % (
                              label, bad, s.trace[:12]) + " || ".join(l for p in progs for l in rc.describe(p)))
            break


class RecDict(dict):
    """a registry that records which keys are touched"""
    touched: set = set()

    def __getitem__(self, k):
        RecDict.touched.add(k)
        return dict.__getitem__(self, k)

    def __setitem__(self, k, v):
        RecDict.touched.add(k)
        dict.__setitem__(self, k, v)

    def __delitem__(self, k):
        RecDict.touched.add(k)
        dict.__delitem__(self, k)

    def __contains__(self, k):
        RecDict.touched.add(k)
        return dict.__contains__(self, k)

    def pop(self, k, *a):
        RecDict.touched.add(k)
        return dict.pop(self, k, *a)

    def get(self, k, *a):
        RecDict.touched.add(k)
        return dict.get(self, k, *a)


def run_footprint(chk, n):
    """hypothesis of isolated_of_disjoint_keys, checked on the real code: a provider-free render touches the
    component registries only under ids it generated itself"""
    import sys
    names = ["component_context_cache", "component_renderer_cache", "child_component_attrs"]
    import django_components.perfutil.component as PC
    originals = {nm: getattr(PC, nm) for nm in names}
    recs = {nm: RecDict() for nm in names}
    mods = [m for m in list(sys.modules.values()) if getattr(m, "__name__", "").startswith("django_components")]
    patched = []
    for m in mods:
        for nm in names:
            if getattr(m, nm, None) is originals[nm]:
                setattr(m, nm, recs[nm])
                patched.append((m, nm))
    generated = []
    real_seq = tplgen._seq_id

    def rec_id():
        v = real_seq()
        generated.append(v)
        return v
    import django_components.component as C
    import django_components.node as N
    import django_components.provide as P
    import django_components.util.misc as M
    try:
        for m in (C, N, P, M):
            m.gen_id = rec_id
        for i in range(n):
            g = tplgen.Gen(core.rng(PROP, "footprint", i), dict(PROFILE, w_provide=0, w_inject=0))
            p = g.program()
            tplgen.set_mode(p["isolated"])
            rec = tplgen.Recorder(None)
            b = tplgen.Built(p, rec)
            try:
                del generated[:]
                RecDict.touched = set()
                try:
                    Task(p, b, rec)()
                except Exception:  # noqa
                    pass
                chk.count("footprint", 1, validated=1)
                foreign = [k for k in RecDict.touched if k not in generated]
                if foreign:
                    chk.violation("model-impl-disagree", "footprint", p, impl={"foreign_keys": foreign[:5]},
                                  note="a provider-free render touched registry entries it did not create || " + " || ".join(rc.describe(p)))
                    return
            finally:
                b.close()
                for r in recs.values():
                    r.clear()
    finally:
        for m, nm in patched:
            setattr(m, nm, originals[nm])
        for m in (C, N, P, M):
            m.gen_id = tplgen._seq_id


def run_lru(chk, n, atomic=False):
    """tasks compile templates through a template cache of size 2.  `atomic`: the operations of LRUCache are not
    pre-empted (only the lines of template.py are), so the listed LRU finding cannot show and every outcome
    other than the solo one is a violation"""
    from django.conf import settings
    from django_components.template import cached_template
    import django_components.cache as T
    comps = dict(settings.COMPONENTS)
    settings.COMPONENTS = dict(comps, template_cache_size=2)
    saved = T.template_cache
    try:
        for i in range(n):
            stream = "lru-atomic" if atomic else "lru"
            gated = ("django_components/template.py",) if atomic else GATED
            r = core.rng(PROP, stream, i)
            T.template_cache = None
            seqs = [[r.choice(["A{{ a }}", "B{{ a }}", "C{{ a }}", "D{{ a }}"]) for _ in range(r.randint(2, 5))] for _ in range(2)]

            def mk(seq):
                def task():
                    from django.template import Context
                    return [cached_template(s).render(Context({"a": "v"})) for s in seq]
                return task
            expected = [[s[0] + "v" for s in seq] for seq in seqs]
            for j in range(6):
                rr = core.rng(PROP, stream + "-sched-%d" % i, j)
                T.template_cache = None
                s = sched.Scheduler([mk(q) for q in seqs], gated, sched.random_priorities(rr, rr.choice([0.1, 0.3, 0.7])))
                s.turn = rr.randrange(2)
                res = s.run()
                if s.stuck:
                    chk.count(stream + "/stuck", 1)
                    continue
                chk.count(stream, 1, validated=2)
                outs = [v if k == "ok" else "ERR " + type(v).__name__ for k, v in res]
                cache = T.template_cache
                size_ok = cache is None or len(cache.cache) <= 2
                if outs != expected or not size_ok:
                    case = {"sequences": seqs, "schedule": "random-%d" % j, "switch_trace": s.trace[:60]}
                    if outs != expected and all(isinstance(o, str) for o in outs if o not in expected):
                        pass
                    chk.known_hit("lru-cache-not-thread-safe", case) if (not atomic) and _lru_known(outs, expected, size_ok) else \
                        chk.violation("impl-violates-spec", stream, case, impl={"outcomes": outs, "expected": expected,
                                      "cache_size": None if cache is None else len(cache.cache)},
                                      note="concurrent compilation through a full template cache")
    finally:
        settings.COMPONENTS = comps
        T.template_cache = saved


def _lru_known(outs, expected, size_ok):
    """the listed finding: pointer updates of LRUCache interleave (AttributeError / KeyError / its own
    RuntimeError("Tail node is None") / oversize)"""
    return all(o == e or o in ("ERR AttributeError", "ERR KeyError", "ERR RuntimeError") for o, e in zip(outs, expected))


def run_assets(chk, n):
    """first access of template_file / js_file / css_file from two threads"""
    from django_components import Component, registry
    import django_components.cache as DC
    DC.template_cache = None          # an empty template cache: no eviction, so the LRU finding stays out of this stream
    d = tempfile.mkdtemp(prefix="djc_c07_")
    try:
        for i in range(n):
            r = core.rng(PROP, "assets", i)
            tag = "%s_%d" % (core.seed(), i)
            open(os.path.join(d, "t_%s.html" % tag), "w").write("<p>T{{ v }}</p>")
            open(os.path.join(d, "t_%s.js" % tag), "w").write("/*js %s*/" % tag)
            open(os.path.join(d, "t_%s.css" % tag), "w").write("/*css %s*/" % tag)
            for j in range(5):
                rr = core.rng(PROP, "assets-sched-%d" % i, j)
                name = "asset_%s_%d" % (tag, j)
                cls = type("Asset_%s_%d" % (tag, j), (Component,), {
                    "template_file": os.path.join(d, "t_%s.html" % tag), "js_file": os.path.join(d, "t_%s.js" % tag),
                    "css_file": os.path.join(d, "t_%s.css" % tag), "__module__": "harness.tplgen",
                    "get_context_data": lambda self, **kw: {"v": kw.get("v", "")}})
                registry.register(name, cls)
                try:
                    def mk(v):
                        def task():
                            from django.template import Context, Template
                            return str(Template('{%% component "%s" v="%s" %%}{%% endcomponent %%}' % (name, v)).render(Context()))
                        return task
                    s = sched.Scheduler([mk("1"), mk("2")], GATED, sched.random_priorities(rr, rr.choice([0.05, 0.2, 0.6])))
                    s.turn = rr.randrange(2)
                    res = s.run()
                    if s.stuck:
                        chk.count("assets/stuck", 1)
                        continue
                    chk.count("assets", 1, validated=2)
                    outs = []
                    for (k, v), want in zip(res, ("1", "2")):
                        outs.append(("<p" in v and ("T%s</p>" % want) in v) if k == "ok" else "ERR " + type(v).__name__ + ": " + str(v)[:120])
                    js_ok = cls.js is not None and tag in cls.js and cls.css is not None and tag in cls.css
                    if outs != [True, True] or not js_ok:
                        chk.violation("impl-violates-spec", "assets", {"schedule": "random-%d" % j, "switch_trace": s.trace[:60]},
                                      impl={"outcomes": outs, "js": cls.js, "css": cls.css},
                                      note="first access of a component's assets from two threads")
                        return
                finally:
                    registry.unregister(name)
                    tplgen.clear_census()
    finally:
        import shutil
        shutil.rmtree(d, ignore_errors=True)


class SharedTask:
    """one render of an already compiled Template object that other tasks render too, each with a Context of its own"""

    def __init__(self, tpl, ctxvals):
        self.tpl, self.ctxvals = tpl, ctxvals

    def __call__(self):
        from django.template import Context
        return str(self.tpl.render(Context(dict(self.ctxvals))))


def run_shared_template(chk, n_programs, n_sched):
    """Threads of a server render the *same compiled Template* (Django caches compiled templates) with a Context each:
    two or three tasks share one Template object — hence its {% component %} / {% slot %} / {% fill %} nodes — and differ
    in the values of the page variables; pre-emption at every line of component.py, slots.py and perfutil/component.py.
    Every task must give what it gives alone (seeded/C07-4: state kept on the shared node).  Provider-free programs and
    an empty template cache keep the listed findings out of this stream."""
    from django.template import Template
    import django_components.cache as DC
    gated = ("django_components/component.py", "django_components/slots.py", "perfutil/component.py")
    prof = dict(PROFILE, w_provide=0, w_inject=0, depth=2, w_slot=4, p_named_fill=0.7)
    found = 0
    for i in range(n_programs * 20):
        if found >= n_programs:
            break
        r = core.rng(PROP, "shared", i)
        isolated = r.random() < 0.7
        p = tplgen.Gen(core.rng(PROP, "shared-prog", i), prof).program(isolated=isolated)
        if i % 2 == 0:
            # directed: fill content on the page that prints page variables (what the instance's outer context decides)
            T, V, L = tplgen.lit, tplgen.var, (lambda x: {"t": "text", "s": x})
            show = [L("[")] + [{"t": "out", "e": V(n)} for n in ("a", "b", "c")] + [L("]")]
            slot = r.choice(tplgen.SLOTS)
            c0 = {"name": "c0", "data": [["k", {"kwarg": "k"}]],
                  "template": [L("("), {"t": "out", "e": V("k")},
                               {"t": "slot", "name": T(slot), "default": r.random() < 0.4, "required": False, "data": [], "body": [L("D")]}, L(")")]}
            body = [{"t": "fill", "name": T(slot), "data": None, "dflt": None, "body": show}] if r.random() < 0.6 else show
            tag = {"t": "comp", "name": "c0", "kwargs": [["k", V("a")]], "only": (not isolated) and r.random() < 0.5, "dyn": False, "body": body}
            page = [tag] if r.random() < 0.5 else [{"t": "for", "x": "u", "e": V("xs"), "body": [tag, L("|")]}]
            p = dict(p, lib=[c0], entry={"page": page},
                     ctx=[["a", tplgen.sval("A")], ["b", tplgen.sval("B")], ["c", tplgen.sval("C")], ["xs", {"l": [tplgen.sval("x"), tplgen.sval("y")]}]])
        n_tasks = 2 if i % 3 else 3
        base = {k: tplgen.pyval(v) for k, v in p["ctx"]}
        ctxs = []
        for t in range(n_tasks):
            c = {k: ((v + "~%d" % t) if isinstance(v, str) and t else ([x + "~%d" % t for x in v] if isinstance(v, list) and t and k not in ("sl", "one") else v))
                 for k, v in base.items()}
            ctxs.append(c)
        DC.template_cache = None
        tplgen.patch_ids()
        tplgen.clear_census()
        tplgen.set_mode(isolated)
        rec = tplgen.Recorder(None, cap=None)
        built = tplgen.Built(p, rec)
        try:
            try:
                tpl = Template(tplgen.p_nodes(p["entry"]["page"]))
            except Exception:  # noqa
                continue
            expected = []
            for c in ctxs:
                try:
                    with core.time_limit(20.0):
                        expected.append(outcome(("ok", SharedTask(tpl, c)()), built))
                except Exception as e:  # noqa
                    expected.append(outcome(("err", e), built))
                tplgen.clear_census()
            if any(o.startswith("ERR") or o == "STUCK" for o in expected) or len(set(expected)) == 1:
                continue              # only healthy tasks whose outputs differ can show a mix-up
            found += 1
            for j in range(n_sched):
                rr = core.rng(PROP, "shared-sched-%d" % i, j)
                tplgen._counter[0] = 0
                tplgen.clear_census()
                s = sched.Scheduler([SharedTask(tpl, c) for c in ctxs], gated, sched.random_priorities(rr, rr.choice([0.02, 0.1, 0.4])))
                s.turn = rr.randrange(n_tasks)
                results = s.run()
                outs = [outcome(x, built) if x is not None else "STUCK" for x in results]
                if s.stuck or "STUCK" in outs:
                    chk.count("shared-template/stuck", 1)
                    continue
                chk.count("shared-template", 1, validated=n_tasks)
                chk.nontrivial(("shared-template", i, j))
                residue = tplgen.census()
                bad = [t for t in range(n_tasks) if outs[t] != expected[t]]
                if bad or residue != ZERO:
                    chk.violation("impl-violates-spec", "shared-template",
                                  {"program": p, "isolated": isolated, "contexts": ctxs, "schedule": "random-%d" % j, "switch_trace": s.trace[:60]},
                                  impl={"outcomes": outs, "alone": expected, "residue": residue},
                                  spec="every render gives the output it gives alone; nothing is left in the registries",
                                  note="threads %s rendering one compiled Template with their own Context give another output than alone; switches: %s || " % (
                                      bad, s.trace[:10]) + " || ".join(rc.describe(p)))
                    return
        finally:
            built.close()
            tplgen.clear_census()


def run_real_ids(chk, n_programs, n_sched):
    """The library's own id generator under pre-emption (everywhere else ids come from a sequential counter patched in for
    comparability): 2-3 provider-free renders, pre-emption at every line of util/nanoid.py, util/misc.py and
    perfutil/component.py; each render gives what it gives alone and nothing stays registered (seeded/C07-5: ids cut
    from a shared, unsynchronised pool of random bytes — two threads get the same id)."""
    import django_components.cache as DC
    gated = ("util/nanoid.py", "util/misc.py", "perfutil/component.py")
    found = 0
    tplgen.unpatch_ids()
    try:
        for i in range(n_programs * 20):
            if found >= n_programs:
                break
            r, isolated, progs = gen_progs(i, "provider-free-realids", 2 if i % 3 else 3, False)
            DC.template_cache = None
            solo = solo_outcomes(progs, isolated)
            if any(o.startswith("ERR") for o, _ in solo):
                continue
            expected = [o for o, _ in solo]
            found += 1
            for j in range(n_sched):
                rr = core.rng(PROP, "realids-sched-%d" % i, j)
                outs, residue, s = run_schedule(progs, isolated, sched.random_priorities(rr, rr.choice([0.1, 0.3, 0.6])),
                                                rr.randrange(len(progs)), gated=gated)
                if s.stuck or "STUCK" in outs:
                    chk.count("real-ids/stuck", 1)
                    continue
                chk.count("real-ids", 1, validated=len(progs))
                chk.nontrivial(("real-ids", i, j))
                bad = [t for t in range(len(progs)) if outs[t] != expected[t]]
                if bad or residue != ZERO:
                    chk.violation("impl-violates-spec", "real-ids", {"programs": progs, "isolated": isolated, "schedule": "random-%d" % j,
                                  "switch_trace": s.trace[:60]}, impl={"outcomes": outs, "alone": expected, "residue": residue},
                                  spec="every render gives the output it gives alone; nothing is left in the registries",
                                  note="with the library's own id generator, thread(s) %s differ from their solo run; switches: %s || " % (
                                      bad, s.trace[:10]) + " || ".join(l for p in progs for l in rc.describe(p)))
                    return
    finally:
        tplgen.patch_ids()


def run(tier: str) -> int:
    chk = core.Check(PROP, tier, THEOREMS, "DESIGN.md §8 C07")
    chk.build_and_audit()
    core.use_repo()
    core.django_setup()
    if tier == "quick":
        explore(chk, "provider-free", 10, [3, 25, 80], 6, failing=False)
        explore(chk, "healthy", 10, [3, 25, 80], 6, failing=False)
        explore(chk, "failing", 8, [3, 25, 80], 6, failing=True)
        explore(chk, "provider-free-failing", 8, [3, 25, 80, 200], 8, failing=True)
        run_footprint(chk, 150)
        run_lru(chk, 12)
        run_lru(chk, 25, atomic=True)
        run_assets(chk, 4)
        run_shared_template(chk, 10, 8)
        run_real_ids(chk, 8, 10)
    else:
        explore(chk, "provider-free", 120, [1, 3, 10, 25, 50, 80, 150, 300], 30, failing=False)
        explore(chk, "healthy", 120, [1, 3, 10, 25, 50, 80, 150, 300], 30, failing=False)
        explore(chk, "failing", 120, [1, 3, 10, 25, 50, 80, 150, 300], 30, failing=True)
        explore(chk, "provider-free-failing", 120, [1, 3, 10, 25, 50, 80, 150, 300], 30, failing=True)
        run_footprint(chk, 3000)
        run_lru(chk, 300)
        run_lru(chk, 600, atomic=True)
        run_assets(chk, 60)
        run_shared_template(chk, 100, 20)
        run_real_ids(chk, 80, 25)
    chk.assumptions += [
        "pre-emption points: every line of the gated files; pre-emption inside a line, C-level dict atomicity and "
        "first-access class initialisation inside CPython are not exhibited",
        "two-switch schedules over a grid plus seeded random priorities; 2-3 tasks",
    ]
    return chk.finish()
