"""
C08 — render_dependencies only strips markers and inserts tags where documented.

Documents are assembled from pieces (arbitrary text incl. non-ASCII / '<' / '%' / look-alikes,
end tags in any order with case and white-space variants, placeholders of both kinds with and
without the id attributes a root placement adds, marker comments of real components) and pushed
through render_dependencies as str, bytes and SafeString, in document and fragment mode, and
through the middleware.  The generated tags C / J are obtained black-box from the implementation
itself (a probe document holding the same markers and one placeholder of each kind).
"""
from __future__ import annotations

import re
from typing import Any, List, Optional, Tuple

from .. import core

PROP = "C08"
THEOREMS = [
    "insertDefault_is_simultaneous_insertion",
    "insertDefault_single",
    "firstHead_is_first",
    "lastBody_is_last",
    "subAll_edit_script",
    "stripMarkers_only_deletes",
    "renderDeps_fragment_appends",
    "renderDeps_doc_both_placeholders_no_default_insertion",
    "renderDeps_identity_without_anchors",
    "middleware_passthrough",
]

SEP = "\x00SEP\x00"
_comps: List[Any] = []


def comps():
    if not _comps:
        from django_components import Component

        for i in range(3):
            attrs = {"template": f"<b>{i}</b>"}
            if i != 1:
                attrs["js"] = f"console.log('c08-{i}');"
            if i != 2:
                attrs["css"] = f".c08-{i} {{ color: red; }}"
            _comps.append(type(f"C08Comp{i}", (Component,), attrs))
        for c in _comps:
            c.render()  # a real marker only exists for a class that was rendered (its JS/CSS is cached then)
    return _comps


TEXT = ["", "x", "héllo ", "<div>", "</div>", "% }", "{{ v }}", "日本", " \n", "<!-- c -->", "<!-- _RENDERED -->",
        "<!--_RENDERED a,b,, -->", "</ head>", "</heads>", "</bodyx>", "<head>", "<body>", "<link name=\"CSS_PLACEHOLDER\" x>",
        "<script name=\"JS_PLACEHOLDER\">", "</script>", "&amp;", " ", "<link name=\"CSS_PLACE", "HOLDER\">", "</he", "ad>"]
END_TAGS = ["</head>", "</body>", "</head >", "</body\n>", "</HEAD>", "</BODY>", "</Body>", "</head >", "</body\t >", "</head >"]
PLACEHOLDERS = ['<link name="CSS_PLACEHOLDER">', '<link name="CSS_PLACEHOLDER"/>', '<script name="JS_PLACEHOLDER"></script>',
                '<link name="CSS_PLACEHOLDER" data-djc-id-a1b2c3="">', '<link name="CSS_PLACEHOLDER" data-djc-css-99914b="" data-djc-id-a1b2c3=""/>',
                '<script name="JS_PLACEHOLDER" data-djc-id-a1b2c3=""></script>', '<script name="JS_PLACEHOLDER" data-djc-css-99914b=""></script>',
                '<link name="CSS_PLACEHOLDER" data-djc-id-a1b2c3="" data-djc-id-d4e5f6="">', '<link name="CSS_PLACEHOLDER" data-djc-id-a1b2="">']


def marker(r) -> str:
    c = r.choice(comps())
    rid = "".join(r.choice("abcdef0123456789") for _ in range(6))
    ws1 = r.choice([" ", "  ", "\t", "\n"])
    ws2 = r.choice([" ", " \n"])
    ws3 = r.choice([" ", "   "])
    return f"<!--{ws1}_RENDERED{ws2}{c._class_hash},{rid},,{ws3}-->"


def gen_doc(r) -> str:
    n = r.randint(0, 10)
    parts = []
    for _ in range(n):
        k = r.random()
        if k < 0.40:
            parts.append(r.choice(TEXT))
        elif k < 0.65:
            parts.append(r.choice(END_TAGS))
        elif k < 0.83:
            parts.append(r.choice(PLACEHOLDERS))
        else:
            parts.append(marker(r))
    return "".join(parts)


MARKER_RE = re.compile(r"<!--\s+_RENDERED\s+(?P<data>[\w\-,/]+?)\s+-->", re.ASCII)


def impl_render(doc: str, mode: str, kind: str):
    from django.utils.safestring import SafeString, mark_safe

    from django_components import render_dependencies

    if kind == "bytes":
        inp: Any = doc.encode("utf-8")
    elif kind == "safe":
        inp = mark_safe(doc)
    else:
        inp = doc
    out = render_dependencies(inp, mode)
    if kind == "bytes":
        tyok = isinstance(out, bytes)
        text = out.decode("utf-8") if tyok else str(out)
    elif kind == "safe":
        tyok = isinstance(out, SafeString)
        text = str(out)
    else:
        tyok = isinstance(out, str) and not isinstance(out, SafeString)
        text = out
    return text, tyok


def probe_CJ(doc: str, mode: str) -> Tuple[str, str]:
    """C and J for the markers of `doc`, obtained from the implementation itself."""
    from django_components import render_dependencies

    markers = "".join(m.group(0) for m in MARKER_RE.finditer(doc))
    if mode == "document":
        out = render_dependencies(markers + '<link name="CSS_PLACEHOLDER">' + SEP + '<script name="JS_PLACEHOLDER"></script>', "document")
        c, j = out.split(SEP)
        return c, j
    return "", render_dependencies(markers, "fragment")


PH_RE = re.compile(
    r'<link name="CSS_PLACEHOLDER"(?: data-djc-css-\w{6}="")?(?: data-djc-id-\w{6}="")?/?>'
    r'|<script name="JS_PLACEHOLDER"(?: data-djc-css-\w{6}="")?(?: data-djc-id-\w{6}="")?></script>', re.ASCII)


def spec_render(doc: str, mode: str, C: str, J: str, ci: bool) -> str:
    """The documented edit script, written from the property text (oracle, independent of the Lean model)."""
    t1 = MARKER_RE.sub("", doc)
    found = {"css": False, "js": False}

    def rep(m):
        if "CSS_PLACEHOLDER" in m.group(0):
            found["css"] = True
            return C if mode == "document" else ""
        found["js"] = True
        return J if mode == "document" else ""

    t2 = PH_RE.sub(rep, t1)
    if mode != "document":
        return t2 + J
    flags = re.I if ci else 0
    edits = []
    if not found["css"]:
        m = re.search(r"</head\s*>", t2, flags)
        if m:
            edits.append((m.start(), C))
    if not found["js"]:
        ms = list(re.finditer(r"</body\s*>", t2, flags))
        if ms:
            edits.append((ms[-1].start(), J))
    for pos, txt in sorted(edits, reverse=True):  # simultaneous insertion: positions refer to t2
        t2 = t2[:pos] + txt + t2[pos:]
    return t2


def run(tier: str) -> int:
    ch = core.Check(PROP, tier, THEOREMS)
    ch.assumptions += [
        "input text is valid UTF-8 (bytes that do not decode raise UnicodeDecodeError: outside the quantifier's 'text')",
        "markers name real, registered component classes with ASCII class names (other names: C04)",
        "the generated tags C / J are opaque strings obtained from the implementation itself",
        "finditer over the end-tag pattern equals trying every position (its matches cannot overlap)",
        "Unicode white space is sampled by NBSP and U+2003; the model lists the str.isspace code points",
    ]
    ch.build_and_audit()
    core.django_setup()
    ci = bool(ch.cov.get("extracted", {}).get("re_head_or_body_end_tag", {}).get("flags", []) and
              any(f in ("I", "IGNORECASE") for f in ch.cov["extracted"]["re_head_or_body_end_tag"]["flags"]))
    comps()
    n = int((2500 if tier == "quick" else 60000) * ch.budget_scale)
    cases = []
    corpus = core.CORPUS / "C08.json"
    import json

    fixed = ["A</body>B</head>C", "A</head>B</body>C</body>D</head>E", "</body></body>", "x",
             '<link name="CSS_PLACEHOLDER">a</head>b</body>', '<script name="JS_PLACEHOLDER"></script></head></body>']
    if corpus.exists():
        fixed += json.loads(corpus.read_text())
    for d in fixed:
        for mode in ("document", "fragment"):
            cases.append((d, mode, "str"))
    for i in range(n):
        r = core.rng(PROP, "doc", i)
        cases.append((gen_doc(r), r.choice(["document", "document", "fragment"]), r.choice(["str", "bytes", "safe"])))
    reqs = []
    prepared = []
    for doc, mode, kind in cases:
        C, J = probe_CJ(doc, mode)
        prepared.append((doc, mode, kind, C, J))
        reqs.append({"op": "deps", "ci": ci, "doc": mode == "document", "C": C, "J": J, "s": doc})
    reps = core.drive(reqs)
    for (doc, mode, kind, C, J), rep in zip(prepared, reps):
        if "error" in rep:
            raise core.InfraError(f"driver: {rep['error']}")
        ch.count("doc", 1, 1)
        try:
            out, tyok = impl_render(doc, mode, kind)
        except Exception as e:
            ch.violation("impl-violates-spec", "doc", {"doc": doc, "mode": mode, "type": kind}, impl=f"{type(e).__name__}: {e}",
                         spec="render_dependencies raised on a document made of text, end tags, placeholders and real markers")
            break
        feats = []
        if MARKER_RE.search(doc):
            feats.append("marker")
        if PH_RE.search(doc):
            feats.append("placeholder")
        t = rep["t1"]
        hb = [m.start() for m in re.finditer(r"</(?:head|body)\s*>", t)]
        if hb:
            feats.append("endtag")
        fh = re.search(r"</head\s*>", t)
        lb = list(re.finditer(r"</body\s*>", t))
        if fh and lb and lb[-1].start() < fh.start():
            feats.append("body-before-head")
        ch.branch(feats + [mode, kind])
        if len(feats) >= 2:
            ch.nontrivial((doc, mode))
        expect = spec_render(doc, mode, C, J, ci)
        case = {"doc": doc, "mode": mode, "type": kind, "C_len": len(C), "J_len": len(J)}
        if not tyok:
            ch.violation("impl-violates-spec", "doc", case, impl="output type differs from input type",
                         spec="renderDeps_type_preserved: str / bytes / SafeString in => same type out")
            break
        if out != expect:
            ch.violation("impl-violates-spec", "doc", case, impl=out.replace(J, "[J]").replace(C, "[C]") if C else out.replace(J, "[J]"),
                         model=rep["out"].replace(J, "[J]"), spec={"expected": expect.replace(J, "[J]"),
                         "clause": "insertDefault_is_simultaneous_insertion / subAll_edit_script: output must be the documented edit script"})
            break
        if out != rep["out"]:
            ch.violation("model-impl-disagree", "doc", case, impl=out.replace(J, "[J]"), model=rep["out"].replace(J, "[J]"),
                         note="implementation follows the documented edit script but the Lean model differs")
            if sum(1 for v in ch.violations if v["kind"] == "model-impl-disagree") > 3:
                break
    # shrink the first real violation (delete characters while it still fails)
    real = [v for v in ch.violations if v["kind"] == "impl-violates-spec" and isinstance(v["input"], dict) and "doc" in v["input"]]
    if real:
        v = real[0]
        mode, kind = v["input"]["mode"], v["input"]["type"]

        def fails(chars):
            d = "".join(chars)
            try:
                C, J = probe_CJ(d, mode)
                o, ty = impl_render(d, mode, kind)
            except Exception:
                return True
            return (not ty) or o != spec_render(d, mode, C, J, ci)

        small = "".join(core.shrink_list(list(v["input"]["doc"]), fails, max_steps=600))
        try:
            C, J = probe_CJ(small, mode)
            o, _ = impl_render(small, mode, kind)
            v["input"] = {"doc": small, "mode": mode, "type": kind}
            v["impl"] = o.replace(J, "[J]").replace(C, "[C]") if C else o.replace(J, "[J]")
            e = spec_render(small, mode, C, J, ci)
            v["spec"] = {"expected": e.replace(J, "[J]").replace(C, "[C]") if C else e.replace(J, "[J]")}
        except Exception:
            pass

    # middleware
    mw_cases = []
    for ct in ["text/html", "text/html; charset=utf-8", "application/json", "text/plain", "text/htmlx", "TEXT/HTML", "", "application/xhtml+xml"]:
        for streaming in (False, True):
            mw_cases.append((ct, streaming))
    mreps = core.drive([{"op": "middleware", "streaming": s, "ctype": ct} for ct, s in mw_cases])
    from django.http import HttpResponse, StreamingHttpResponse
    from django.test import RequestFactory

    from django_components.middleware import ComponentDependencyMiddleware

    body = "<html><head></head><body>" + marker(core.rng(PROP, "mw")) + "x</body></html>"
    for (ct, streaming), rep in zip(mw_cases, mreps):
        if streaming:
            resp = StreamingHttpResponse(iter([body.encode()]), content_type=ct or None)
        else:
            resp = HttpResponse(body, content_type=ct) if ct else HttpResponse(body)
            if not ct:
                del resp["Content-Type"]
        out = ComponentDependencyMiddleware(lambda req: resp)(RequestFactory().get("/"))
        ch.count("middleware", 1, 1)
        if streaming:
            got = b"".join(out.streaming_content).decode()
        else:
            got = out.content.decode()
        touched = got != body
        actual_ct = "" if (not ct and not streaming) else resp.get("Content-Type", "")
        should = (not streaming) and actual_ct.startswith("text/html")
        if touched != should:
            ch.violation("impl-violates-spec", "middleware", {"content_type": ct, "streaming": streaming}, impl={"touched": touched},
                         spec="middleware_passthrough: only non-streaming text/html responses are rewritten")
        elif bool(rep["touch"]) != touched and actual_ct == ct:
            ch.violation("model-impl-disagree", "middleware", {"content_type": ct, "streaming": streaming}, impl=touched, model=rep["touch"])
        else:
            ch.nontrivial(("mw", ct, streaming))
    ch.cov["rule"] = (
        f"{n} random documents of 0-10 pieces drawn from {len(TEXT)} text pieces (non-ASCII, look-alikes, split tags), "
        f"{len(END_TAGS)} end-tag variants, {len(PLACEHOLDERS)} placeholder variants and marker comments of 3 real components "
        "(white-space variants), x {document, fragment} x {str, bytes, SafeString}; plus a fixed list and the corpus; plus 16 "
        "middleware responses; non-trivial = at least two of {marker, placeholder, end tag} present (or a middleware case); "
        "distinct = distinct (document, mode)"
    )
    ch.cov["end_tag_ignorecase_extracted"] = ci
    ch.sample({"doc": "A</body>B</head>C", "mode": "document", "expected": "A[J]</body>B[C]</head>C"})
    if cases:
        ch.sample({"doc": cases[len(fixed) * 2][0], "mode": cases[len(fixed) * 2][1], "type": cases[len(fixed) * 2][2]})
    return ch.finish()
