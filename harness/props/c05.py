"""
C05 — inject() returns the nearest enclosing {% provide %} of the rendered structure.

Streams:
  programs   provider-heavy programs (nested, shadowing the same key, different keys, around slots,
             inside fills, in loops, at page level and inside component templates, 0..n consumers as
             siblings or descendants); what inject() returned is printed by the consumers' templates.
             real vs Djc.Render (model of the code, incl. the three provide registries) and vs
             Djc.SpecRender (static provider chain of the rendered structure, default, KeyError).
  histories  2–5 such programs rendered one after the other in one process without resetting the
             registries: every render must give what it gives alone; the registries after each render
             are compared with the model's world.
"""
from __future__ import annotations

from .. import core, tplgen
from .. import render_common as rc

PROP = "C05"
THEOREMS = ['nearest_provider_shadows', 'provider_leaves_others', 'provided_not_variables', 'inject_key_survives_isolation', 'provider_survives_unregister', 'provider_survives_component_finish', 'enter_provider_alive', "provided_not_variables_pipeline", "payload_invisible_without_inject", "provider_consumer_end_to_end_django", "siblings_under_a_provider_both_see_the_data", "provider_consumer_end_to_end_isolated"]

PROFILE = dict(w_provide=4, w_inject=0.7, p_inject_default=0.6, w_comp=6, w_slot=3, p_only=0.1, depth=3,
               w_for=1.5, p_named_fill=0.5)
REGIONS = ["django-slot-owner-override", "django-only-fill-loses-outer",
           "forloop-layer-leaks-into-isolated", "django-captured-over-data"]


def run_programs(chk, n):
    progs = []
    for i in range(n):
        g = tplgen.Gen(core.rng(PROP, "programs", i), PROFILE)
        p = g.program()
        progs.append(p)
        chk.branch(list(g.features.keys()) + ["mode:" + ("isolated" if p["isolated"] else "django")])
    reps = rc.batch(progs)
    for p, (rep, sp) in zip(progs, reps):
        real = tplgen.run_real(p, limit=20.0)
        chk.count("programs", 1, validated=1)
        chk.errkind(real["err"] or "ok")
        chk.nontrivial(real["out"] or real["err"])
        n_inj = sum(1 for e in real["events"] if e[0] == "inject")
        chk.branch(["inject_calls:%s" % min(n_inj, 5)])
        rc.classify(chk, "programs", p, real, rep, sp, REGIONS)


def run_directed(chk, n):
    """the placements named in the property, built from schemas: provider around a slot (the consumer
    arrives through a fill), inside a fill, in a loop, shadowing, siblings, across `only` boundaries"""
    T = lambda s: {"t": "text", "s": s}
    lit, var = tplgen.lit, tplgen.var

    def comp(name, body=(), kwargs=(), only=False):
        return {"t": "comp", "name": name, "kwargs": list(kwargs), "only": only, "dyn": False, "body": list(body)}

    def prov(key, val, body):
        return {"t": "provide", "key": key, "kwargs": [["k1", val]], "body": body}

    def slot(name, body):
        return {"t": "slot", "name": lit(name), "default": False, "required": False, "data": [], "body": body}

    def fill(name, body):
        return {"t": "fill", "name": lit(name), "data": None, "dflt": None, "body": body}

    for i in range(n):
        r = core.rng(PROP, "directed", i)
        key = r.choice(["pk", "pq"])
        other = "pq" if key == "pk" else "pk"
        dflt = r.choice([None, "D"])
        consumer = {"name": "q", "template": [T("["), {"t": "out", "e": var("g", "k1")}, T("]")],
                    "data": [["g", {"inject": key, "dflt": dflt}]]}
        cons = lambda: comp("q", only=r.random() < 0.3)
        n_cons = r.randint(1, 3)
        many = [cons() for _ in range(n_cons)]
        schema = r.randrange(10)
        wrapper = {"name": "p", "data": [], "template": []}
        if schema == 0:      # provider around a slot; consumers arrive through the fill
            wrapper["template"] = [prov(key, lit("IN"), [T("("), slot("s1", [T("d")]), T(")")])]
            page = [comp("p", [fill("s1", many)])]
        elif schema == 1:    # provider inside a fill
            wrapper["template"] = [slot("s1", [])]
            page = [comp("p", [fill("s1", [prov(key, lit("F"), many)])])]
        elif schema == 2:    # provider in a loop, shadowing an outer one
            wrapper["template"] = [slot("s1", [])]
            page = [prov(key, lit("OUT"), [{"t": "for", "x": "v", "e": var("xs"), "body": [prov(key, var("v"), many)]}] + many)]
        elif schema == 3:    # different keys nested; consumer of the outer key inside the inner provider
            wrapper["template"] = [prov(other, lit("X"), [slot("s1", many)])]
            page = [prov(key, lit("OUT"), [comp("p"), comp("p", [fill("s1", many)])])]
        elif schema == 4:    # provider inside a component template, consumers as descendants two levels down
            wrapper["template"] = [prov(key, lit("T"), [comp("m")])]
            page = [comp("p"), T("|")] + many
        elif schema == 6:    # provider -> loop -> component that provides the same key again around the consumers
            wrapper["template"] = [T("("), prov(key, lit("IN"), many + [comp("m")]), T(")")]
            page = [prov(key, lit("OUT"), [{"t": "for", "x": "v", "e": var("xs"), "body": [comp("p", only=r.random() < 0.5)]}] + many)]
        elif schema == 5:    # the same key around the fill site AND around the slot: the slot's provider is nearer
            wrapper["template"] = [prov(key, lit("IN"), [T("("), slot("s1", [T("d")]), T(")")])]
            page = [prov(key, lit("OUT"), [comp("p", [fill("s1", many)]), T("|")] + many)]
        elif schema in (8, 9):   # the same key nested, the nearer provider's payload positionally equal to the outer one's but
            # under another keyword name (8) or the same name (9): the consumer gets the *nearer* provider's fields
            # (seeded/C05-5: a nearer provider whose payload compares equal as a tuple was dropped)
            val = lit(r.choice(["V", "W"]))
            inner_kw = "k2" if schema == 8 else "k1"
            whole = {"name": "q", "template": [T("["), {"t": "out", "e": var("g")}, T("|"), {"t": "out", "e": var("g", inner_kw)}, T("]")],
                     "data": [["g", {"inject": key, "dflt": dflt}]]}
            consumer = whole
            inner = {"t": "provide", "key": key, "kwargs": [[inner_kw, val]], "body": many}
            place = r.randrange(3)
            if place == 0:
                wrapper["template"] = [slot("s1", [])]
                page = [prov(key, val, [inner, T("|")] + many)]
            elif place == 1:
                wrapper["template"] = [T("("), inner, T(")")]
                page = [prov(key, val, [comp("p"), T("|")] + many)]
            else:
                wrapper["template"] = [{"t": "provide", "key": key, "kwargs": [[inner_kw, val]], "body": [slot("s1", [T("d")])]}]
                page = [prov(key, val, [comp("p", [fill("s1", many)])])]
        else:                # outside every provider
            wrapper["template"] = [slot("s1", many)]
            page = [comp("p"), prov(other, lit("Z"), many)]
        mid = {"name": "m", "data": [], "template": many}
        p = {"isolated": r.random() < 0.5, "lib": [wrapper, mid, consumer], "entry": {"page": page},
             "ctx": [["xs", {"l": [tplgen.sval("L1"), tplgen.sval("L2")]}]], "raise": None}
        (rep, sp), = rc.batch([p])
        real = tplgen.run_real(p, limit=20.0)
        chk.count("directed", 1, validated=1)
        chk.branch(["schema:%d" % schema])
        chk.nontrivial(real["out"] or real["err"])
        rc.classify(chk, "directed", p, real, rep, sp, REGIONS)


def run_histories(chk, n):
    for i in range(n):
        r = core.rng(PROP, "histories", i)
        isolated = r.random() < 0.5
        k = r.randint(2, 5)
        progs = []
        for j in range(k):
            g = tplgen.Gen(core.rng(PROP, "histories-%d" % i, j), PROFILE)
            progs.append(g.program(isolated=isolated))
        solo = [tplgen.run_real(p, limit=20.0) for p in progs]
        if any(s["err"] in rc.DIVERGE for s in solo):
            continue
        # the model of the code for the same history (one world); every program has its own library,
        # so the history is replayed as one request per prefix-state: the driver keeps the world
        tplgen.clear_census()
        tplgen._counter[0] = 0
        seq = []
        for p in progs:
            seq.append(tplgen.run_real(p, census_clear=False, reset_ids=False, limit=20.0))
        tplgen.clear_census()
        chk.count("histories", 1, validated=k)
        for j, (p, s, h) in enumerate(zip(progs, solo, seq)):
            a = s["err"] or tplgen.canon_real(s["out"], s["hash2name"])
            b = h["err"] or tplgen.canon_real(h["out"], h["hash2name"])
            if a == b:
                continue
            (rep, sp), = rc.batch([p])
            pl = rc.replay_payload(p, h, rep, sp, why="render %d of a history differs from the same render alone" % j)
            chk.violation("impl-violates-spec", "histories", {"history": progs[: j + 1]}, impl={"in_history": b, "alone": a},
                          note=" || ".join(pl["source"]))
            break


def run_fixed(chk):
    """the repaired defect (2193c9f) must stay repaired: siblings under a page-level provider"""
    import json as _json
    w = _json.load(open(core.VERIF / "findings" / "C05-page-level-provider-siblings.json"))
    for isolated in (True, False):
        p = dict(w["program"], isolated=isolated)
        (rep, sp), = rc.batch([p])
        real = tplgen.run_real(p, limit=20.0)
        chk.count("fixed-defect", 1, validated=1)
        rc.classify(chk, "fixed-defect", p, real, rep, sp, [])


def run(tier: str) -> int:
    chk = core.Check(PROP, tier, THEOREMS, "DESIGN.md §8 render pipeline / C05")
    chk.build_and_audit()
    core.use_repo()
    core.django_setup()
    n = 700 if tier == "quick" else 12000
    run_fixed(chk)
    run_directed(chk, n // 3)
    run_programs(chk, n)
    run_histories(chk, n // 6)
    chk.assumptions += [
        "provider keys from {pk, pq}; payload values str / list; consumers print the injected object or a field",
        "no {% provide %} between a component tag and its {% fill %} tags (the property does not say what that means)",
    ]
    return chk.finish()


def replay(doc) -> int:
    return rc.replay(PROP, doc)
