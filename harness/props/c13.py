"""
C13 — html_attrs and Python-passed slot content emit exactly the data given, escaped.

Streams:
  attrs  : defaults / attrs dicts and keyword lists (repeated keywords, aggregate `attrs:k=v` /
           `defaults:k=v` forms, positional and keyword passing) over values with quotes, angle
           brackets, ampersands, white space, non-ASCII, bool / None / number; rendered through a
           real template; the emitted text is parsed back with Python's `html.parser` (oracle) and
           compared with the Lean model (text) and the Lean spec tokenizer (parsed attributes).
  slot   : all slot-content kinds x escape flag x 0-3 further re-passes of the normalised slot.
  guard  : js / css strings with end-tag look-alikes in every letter case.
  parser : the Lean spec tokenizer vs `html.parser` on random attribute strings.
"""
from __future__ import annotations

import html
from html.parser import HTMLParser
from typing import Any, Dict, List, Optional, Tuple

from .. import core

PROP = "C13"
THEOREMS = [
    "decode_escape",
    "escape_has_no_raw_specials",
    "attrs_roundtrip",
    "value_cannot_break_out",
    "merge_order_defaults_then_attrs",
    "append_order",
    "none_false_dropped_true_bare",
    "slot_escaped_exactly_once",
    "slot_output_spec",
    "end_tag_guard",
]

NAMES_OK = ["class", "id", "data-x", "@click", ":href", "x-on:y", "aria-label", "v", "style", "ünï", "a.b", "_", "z9"]
NAMES_BAD = ["a b", "x=y", "on\"c", "A", "a<b", "a&b", "a'b", "a/b", "a>b", ""]
VALUE_TEXT = ["", "a", "b c", "\"", "'", "<", ">", "&", "&amp;", "&lt", "a\"b'c", "<script>", "x y  z", "ünï ☃", " ", "\n", "=", "/", "&#x27;",
              "a=\"b\"", "1", "0", "&copy;", "]]>", "\t"]


class _P(HTMLParser):
    def __init__(self):
        super().__init__(convert_charrefs=True)
        self.tags: List[Tuple[str, list]] = []

    def handle_starttag(self, tag, attrs):
        self.tags.append((tag, attrs))

    def handle_startendtag(self, tag, attrs):
        self.tags.append((tag, attrs))


def parse_with_html_parser(attr_text: str):
    p = _P()
    p.feed("<div " + attr_text + ">")
    p.close()
    if len(p.tags) != 1 or p.tags[0][0] != "div":
        return ("BROKE-OUT", p.tags)
    return [[n, v] for n, v in p.tags[0][1]]


def gen_val(r, allow_nonstr=True):
    k = r.random()
    if not allow_nonstr or k < 0.7:
        n = r.choice([1, 1, 2, 3])
        return ["s", "".join(r.choice(VALUE_TEXT) for _ in range(n))]
    if k < 0.78:
        # numbers that compare equal to False / True (0, 1) are as likely as the others: only the
        # objects None / False are omitted, not what `==` them (seeded/C13-3)
        return ["n", r.choice([0, 0, 1, 7, r.randint(0, 999)])]
    if k < 0.86:
        return ["t"]
    if k < 0.92:
        return ["f"]
    if k < 0.97:
        return ["none"]
    return ["safe", r.choice(["ok", "a b", "x-y"])]


def py_val(v):
    from django.utils.safestring import mark_safe

    t = v[0]
    return {"s": lambda: v[1], "safe": lambda: mark_safe(v[1]), "n": lambda: v[1], "t": lambda: True, "f": lambda: False,
            "none": lambda: None}[t]()


def gen_attrs_case(r, bad_names: bool) -> dict:
    names = NAMES_OK + (NAMES_BAD if bad_names else [])

    def d():
        out = []
        for _ in range(r.randint(0, 3)):
            k = r.choice(names)
            if k not in [x[0] for x in out]:
                out.append([k, gen_val(r)])
        return out

    kwargs = []
    pool = [x for x in NAMES_OK if ":" not in x]  # ':' in a keyword is aggregate / filter syntax (C02)
    if r.random() < 0.4:
        pool = r.sample(pool, min(2, len(pool)))   # few names: several different keywords repeated
    for _ in range(r.randint(0, 3) if r.random() < 0.6 else r.randint(3, 6)):
        k = r.choice(pool)
        kwargs.append([k, gen_val(r, allow_nonstr=r.random() < 0.3)])
    return {"defaults": d(), "attrs": d(), "kwargs": kwargs,
            "form": r.choice(["positional", "keyword", "aggregate"])}


def render_attrs(case: dict):
    """Through a real template; values come from the context, keys are written literally."""
    from django.template import Context, Template

    ctx: Dict[str, Any] = {}
    bits = []
    form = case["form"]
    agg_ok = all(":" not in k and k.isprintable() and " " not in k and "=" not in k and k and not set(k) & set("\"'<>&/") for k, _ in case["defaults"] + case["attrs"])
    if form == "aggregate" and not agg_ok:
        form = "keyword"
    if form == "positional":
        ctx["a"] = {k: py_val(v) for k, v in case["attrs"]}
        ctx["d"] = {k: py_val(v) for k, v in case["defaults"]}
        bits += ["a", "d"]
    elif form == "keyword":
        ctx["a"] = {k: py_val(v) for k, v in case["attrs"]}
        ctx["d"] = {k: py_val(v) for k, v in case["defaults"]}
        bits += ["defaults=d", "attrs=a"]
    else:
        for i, (k, v) in enumerate(case["attrs"]):
            ctx[f"av{i}"] = py_val(v)
            bits.append(f"attrs:{k}=av{i}")
        for i, (k, v) in enumerate(case["defaults"]):
            ctx[f"dv{i}"] = py_val(v)
            bits.append(f"defaults:{k}=dv{i}")
    for i, (k, v) in enumerate(case["kwargs"]):
        ctx[f"kv{i}"] = py_val(v)
        bits.append(f"{k}=kv{i}")
    src = "{% html_attrs " + " ".join(bits) + " %}"
    try:
        return {"out": Template(src).render(Context(ctx))}, src
    except TypeError:
        return {"err": "TypeError"}, src
    except Exception as e:
        return {"err": type(e).__name__ + ":" + str(e)[:80]}, src


def expected_attrs(case: dict):
    """The property's statement, in Python: defaults, overridden by attrs, keywords appended."""
    def s(v):
        return {"s": lambda: v[1], "safe": lambda: v[1], "n": lambda: str(v[1]), "t": lambda: "True", "f": lambda: "False", "none": lambda: "None"}[v[0]]()

    final: Dict[str, Any] = {}
    for k, v in case["defaults"]:
        final[k] = v
    for k, v in case["attrs"]:
        final[k] = v
    merged: Dict[str, Any] = {}
    for k, v in case["kwargs"]:
        merged[k] = ["s", s(merged[k]) + " " + s(v)] if k in merged else v
    for k, v in merged.items():
        if k in final:
            if final[k][0] not in ("s", "safe") or v[0] not in ("s", "safe"):
                return "append-to-non-str"
            final[k] = ["s", final[k][1] + " " + v[1]]
        else:
            final[k] = v
    out = []
    for k, v in final.items():
        if v[0] in ("none", "f"):
            continue
        out.append([k, None if v[0] == "t" else s(v)])
    return out


def name_ok(k: str) -> bool:
    return bool(k) and not any(c.isspace() or c in "\"'<>&/=" or ("A" <= c <= "Z") for c in k)


def slot_impl(content, flag: bool, repass: List[bool]) -> str:
    from django.template import Context, Template
    from django.utils.safestring import mark_safe

    from django_components import Component, Slot

    class _Inner(Component):
        template = "[{% slot 'x' / %}]"

    class _Outer(Component):
        template = "{{ out }}"

        def get_context_data(self, flags=()):
            slots = self.input.slots
            flags = list(flags)
            if flags:
                rendered = _Outer.render(kwargs={"flags": flags[1:]}, slots=slots, escape_slots_content=flags[0], render_dependencies=False)
            else:
                rendered = _Inner.render(slots=slots, render_dependencies=False)
            return {"out": mark_safe(rendered)}

    kind = content[0]
    if kind == "plain":
        c: Any = content[1]
    elif kind == "safe":
        c = mark_safe(content[1])
    elif kind == "fn":
        txt = mark_safe(content[1]) if content[2] else content[1]
        c = lambda ctx, data, ref: txt  # noqa: E731
    else:
        txt = mark_safe(content[1]) if content[2] else content[1]
        # a Slot the user built, possibly with the tracing names the library itself sets on the slots it normalises
        names = {"slot": {}, "slot+names": {"component_name": "card", "slot_name": "x"}, "slot+cname": {"component_name": "card"},
                 "slot+sname": {"slot_name": "x"}}[kind]
        c = Slot(lambda ctx, data, ref: txt, **names)
    out = _Outer.render(kwargs={"flags": repass}, slots={"x": c}, escape_slots_content=flag, render_dependencies=False)
    import re

    out = re.sub(r"<!--.*?-->", "", out)
    return re.sub(r' data-djc-id-\w+=""', "", out)


def run(tier: str) -> int:
    ch = core.Check(PROP, tier, THEOREMS)
    ch.assumptions += [
        "html.escape / conditional_escape / SafeString.__add__ are Django code, modelled (5 entities; safe + plain = plain)",
        "attribute names are written literally in the template or come from dict keys; values from the context",
        "the Lean tokenizer decodes only the five entities Django emits; html.parser (the oracle) decodes all of HTML5's",
        "numbers are non-negative integers; floats are outside the generated domain",
    ]
    ch.build_and_audit()
    core.django_setup()
    n = int((1500 if tier == "quick" else 40000) * ch.budget_scale)
    cases = [gen_attrs_case(core.rng(PROP, "attrs", i), bad_names=(i % 6 == 0)) for i in range(n)]
    fixed = [{"defaults": [["class", ["s", "a"]]], "attrs": [["class", ["s", "b<"]], ["x", ["t"]], ["y", ["none"]]], "kwargs": [["class", ["s", "c\""]], ["class", ["s", "d"]]], "form": "keyword"},
             {"defaults": [], "attrs": [["a b", ["s", "v"]], ["x=y", ["s", "w"]]], "kwargs": [], "form": "keyword"},
             {"defaults": [], "attrs": [["n", ["n", 1]]], "kwargs": [["n", ["s", "2"]]], "form": "keyword"},
             # two different keywords, each repeated (IndexError before fix b027b3a)
             {"defaults": [], "attrs": [], "kwargs": [["class", ["s", "a"]], ["class", ["s", "b"]], ["data-x", ["s", "1"]], ["data-x", ["s", "2"]]], "form": "keyword"}]
    cases = fixed + cases
    import keyword

    def special(k):
        return (not k.isidentifier()) or keyword.iskeyword(k)

    reqs = [{"op": "attrs", "defaults": c["defaults"], "attrs": c["attrs"], "kwargs": c["kwargs"],
             "special": sorted({k for k, _ in c["kwargs"] if special(k)})} for c in cases]
    reps = core.drive(reqs)
    for case, rep in zip(cases, reps):
        if "error" in rep:
            raise core.InfraError(f"driver: {rep['error']}")
        ch.count("attrs", 1, 1)
        impl, src = render_attrs(case)
        exp = expected_attrs(case)
        keys = [k for k, _ in case["defaults"] + case["attrs"] + case["kwargs"]]
        bad = [k for k in keys if not name_ok(k)]
        has_safe = any(v[0] == "safe" for _, v in case["defaults"] + case["attrs"] + case["kwargs"])
        shown = dict(case, template=src)
        model_same = (impl.get("out") == rep.get("out")) and (("err" in impl) == ("err" in rep))
        feats = [case["form"]] + (["bad-name"] if bad else []) + (["repeat-kw"] if len({k for k, _ in case["kwargs"]}) < len(case["kwargs"]) else [])
        overlap = {k for k, _ in case["defaults"]} & {k for k, _ in case["attrs"]}
        if overlap:
            feats.append("override")
        if {k for k, _ in case["kwargs"]} & {k for k, _ in case["defaults"] + case["attrs"]}:
            feats.append("append")
        ch.branch(feats)
        if len(keys) >= 2:
            ch.nontrivial(str(case))
        if exp == "append-to-non-str":
            if "err" in impl and model_same:
                ch.known_hit("append-to-non-str", {"case": shown, "impl": impl})
            elif "err" in impl:
                ch.violation("model-impl-disagree", "attrs", shown, impl=impl, model=rep)
            # if it did not raise, whatever it printed is checked below by the parser (no expectation)
            continue
        if "err" in impl:
            ch.violation("impl-violates-spec", "attrs", shown, impl=impl, model=rep, spec={"expected": exp, "clause": "merge_order: html_attrs raised"})
            break
        parsed = parse_with_html_parser(impl["out"])
        # the attribute *set* is what the property fixes; the order of attributes in a tag is immaterial
        if isinstance(parsed, list):
            parsed = sorted(parsed, key=lambda e: (e[0], str(e[1])))
        exp = sorted(exp, key=lambda e: (e[0], str(e[1])))
        if bad:
            if parsed != exp and model_same:
                ch.known_hit("attribute-name-not-escapable", {"case": shown, "emitted": impl["out"], "parsed": parsed})
                continue
        if has_safe and parsed != exp:
            continue  # safe values are emitted verbatim by contract (outside "non-safe names and values")
        if parsed != exp:
            ch.violation("impl-violates-spec", "attrs", shown, impl={"emitted": impl["out"], "html.parser": parsed}, model=rep.get("out"),
                         spec={"expected": exp, "clause": "attrs_roundtrip / merge_order / value_cannot_break_out"})
            break
        if not model_same:
            ch.violation("model-impl-disagree", "attrs", shown, impl=impl, model=rep, note="text differs from the model although it parses to the expected attributes")
            if sum(1 for v in ch.violations if v["kind"] == "model-impl-disagree") > 3:
                break
        elif not bad and not has_safe and sorted(rep.get("parsed"), key=lambda e: (e[0], str(e[1]))) != [[k.lower(), v] for k, v in exp]:
            ch.violation("model-impl-disagree", "spec-tokenizer", shown, impl=parsed, model=rep.get("parsed"),
                         note="the Lean attribute tokenizer disagrees with html.parser on the emitted text")
    # --- slots
    contents = []
    for txt in ["<b>x</b>", "a & b", "\"q\"", "plain", "&amp;"]:
        contents += [["plain", txt], ["safe", txt], ["fn", txt, False], ["fn", txt, True], ["slot", txt, False], ["slot", txt, True],
                     ["slot+names", txt, False], ["slot+names", txt, True], ["slot+cname", txt, False], ["slot+sname", txt, False]]
    scases = []
    for c in contents:
        for flag in (True, False):
            for re_ in ([], [True], [False], [True, True], [False, True], [True, False, True]):
                scases.append((c, flag, re_))
    if tier == "quick":
        rr = core.rng(PROP, "slot")
        scases = rr.sample(scases, 220)
    # for the model a Slot is a Slot: the names are tracing metadata and decide nothing
    sreps = core.drive([{"op": "slotesc", "content": (["slot"] + c[1:] if c[0].startswith("slot+") else c), "flag": f, "repass": r_}
                        for c, f, r_ in scases])
    for (c, f, r_), rep in zip(scases, sreps):
        ch.count("slot", 1, 1)
        out = slot_impl(c, f, r_)
        plain_like = c[0] == "plain" or ((c[0] == "fn" or c[0].startswith("slot")) and not c[2])
        exp = "[" + (html.escape(c[1]) if (plain_like and f) else c[1]) + "]"
        shown = {"content": c, "escape_slots_content": f, "repass_flags": r_}
        ch.nontrivial(("slot", str(shown)))
        if out != exp:
            ch.violation("impl-violates-spec", "slot", shown, impl=out, model=rep.get("out"),
                         spec={"expected": exp, "clause": "slot_escaped_exactly_once"})
            break
        if out != "[" + rep.get("out", "") + "]":
            ch.violation("model-impl-disagree", "slot", shown, impl=out, model=rep.get("out"))
    # --- guard
    from django_components.dependencies import wrap_component_css, wrap_component_js

    class _Dummy:
        __name__ = "Dummy"

    gcases = []
    for body in ["var a = 1;", "a</b>", "x</scr", "</ script>", "<\\/script>", "ſcript</ſcript>", "</styl", "K</scrKpt>"]:
        gcases.append(body)
    for base in ("</script", "</style", "</STYLE", "</Script"):
        gcases += ["a" + base + " x>b", base + "\n>", "tail" + base, base + "/>", base + "\t type>"]
    for base in ("</script", "</style"):
        for mask in range(0, 1 << 6, 3 if tier == "quick" else 1):
            t = "".join(ch_.upper() if (mask >> i) & 1 else ch_ for i, ch_ in enumerate(base[2:]))
            gcases.append("x=1;" + "</" + t + ">y")
    greqs = []
    for body in gcases:
        for js in (True, False):
            greqs.append({"op": "guard", "js": js, "content": body})
    greps = core.drive(greqs)
    for req, rep in zip(greqs, greps):
        ch.count("guard", 1, 1)
        fn = wrap_component_js if req["js"] else wrap_component_css
        try:
            out = fn(_Dummy, req["content"])
            refused = False
        except RuntimeError:
            refused = True
            out = None
        needle = "</script" if req["js"] else "</style"
        must_refuse = needle in "".join(c.lower() if c.isascii() else c for c in req["content"])
        if must_refuse:
            ch.nontrivial(("guard", req["content"], req["js"]))
        if must_refuse and not refused:
            ch.violation("impl-violates-spec", "guard", {"kind": "js" if req["js"] else "css", "content": req["content"]}, impl=out,
                         spec="end_tag_guard: content that would terminate its own element (any letter case) must be refused")
            break
        if refused != rep["refused"]:
            ch.violation("model-impl-disagree", "guard", {"kind": "js" if req["js"] else "css", "content": req["content"]}, impl=refused, model=rep["refused"])
    # --- spec tokenizer vs html.parser on random attribute strings
    pieces = ["a", "b-c", "=", "\"", "x y", " ", "&amp;", "&lt;", "é", "'", "q=\"v\"", "r='w'", "s=t", "  ", "&quot;", "&gt;", "&#x27;", "z"]
    pcases = []
    for i in range(int((300 if tier == "quick" else 5000) * ch.budget_scale)):
        rr = core.rng(PROP, "parser", i)
        toks = []
        for _ in range(rr.randint(1, 4)):
            nm = rr.choice(["a", "b-c", "data-x", "z", "é"])
            form = rr.choice(["bare", "dq", "sq", "uq"])
            val = "".join(rr.choice(["x", " ", "&amp;", "&lt;", "é", "&quot;", "&gt;", "&#x27;", "=", "/"]) for _ in range(rr.randint(0, 3)))
            if form == "bare":
                toks.append(nm)
            elif form == "dq":
                toks.append(f'{nm}="{val}"')
            elif form == "sq":
                toks.append(f"{nm}='{val}'")
            else:
                # html.parser swallows runs of '=' (`=+` in its regex) where the WHATWG tokenizer starts an
                # unquoted value: keep '=' out of the first position of unquoted values
                toks.append(f"{nm}={val.replace(' ', '').replace('/', '').lstrip('=') or 'v'}")
        pcases.append(rr.choice([" ", "  ", "\n"]).join(toks))
    preps = core.drive([{"op": "parseattrs", "s": s} for s in pcases])
    for s, rep in zip(pcases, preps):
        ch.count("parser", 1, 1)
        hp = parse_with_html_parser(s)
        if hp != rep["parsed"]:
            ch.violation("model-impl-disagree", "parser", {"attribute_text": s}, impl=hp, model=rep["parsed"],
                         note="Lean spec tokenizer vs html.parser")
            if sum(1 for v in ch.violations if v["stream"] == "parser") > 2:
                break
    # histories: the same defaults / attrs objects reach html_attrs several times (loop rows, later renders);
    # every call must emit what the same call emits alone, and the caller's dicts stay as they were
    import copy as _copy
    from django.template import Context, Template
    n_h = int((150 if tier == "quick" else 5000) * ch.budget_scale)
    for i in range(n_h):
        r = core.rng(PROP, "history", i)
        defaults = {k: py_val(v) for k, v in gen_attrs_case(r, False)["defaults"] + [["class", ["s", "base"]]] if isinstance(py_val(v), str)}
        rows = []
        for _ in range(r.randint(2, 4)):
            rows.append({k: py_val(v) for k, v in gen_attrs_case(r, False)["attrs"] if isinstance(py_val(v), str)})
        shared = r.random() < 0.5
        src = "{% for row in rows %}<li {% html_attrs attrs=row defaults=defaults %}>{% endfor %}" if r.random() < 0.5 else \
              "{% for row in rows %}<li {% html_attrs row defaults %}>{% endfor %}"
        one = "<li {% html_attrs attrs=row defaults=defaults %}>"
        ch.count("history", 1, len(rows))
        alone = "".join(Template(one).render(Context({"row": _copy.deepcopy(row), "defaults": _copy.deepcopy(defaults)})) for row in rows)
        d0, rows0 = _copy.deepcopy(defaults), _copy.deepcopy(rows)
        try:
            got = Template(src).render(Context({"rows": rows, "defaults": defaults}))
            again = Template(src).render(Context({"rows": rows, "defaults": defaults}))
        except Exception as e:  # noqa
            got = again = "ERR " + type(e).__name__
        if got != alone or again != alone or defaults != d0 or rows != rows0:
            ch.violation("impl-violates-spec", "history", {"template": src, "defaults": d0, "rows": rows0},
                         impl={"first_render": got, "second_render": again, "defaults_after": defaults, "rows_after": rows},
                         spec={"each_call_alone": alone},
                         note="html_attrs calls that share the defaults / attrs objects do not emit what each call emits alone")
            break
    ch.cov["rule"] = (
        f"{n} html_attrs cases (0-3 defaults, 0-3 attrs, 0-3 keywords incl. repeats; names from {len(NAMES_OK)} valid + every 6th case "
        f"{len(NAMES_BAD)} invalid names; values built from {len(VALUE_TEXT)} text pieces, numbers, bool, None, SafeString; positional / "
        "keyword / aggregate passing) parsed back with html.parser; slot contents {plain, safe, fn->str, fn->safe, Slot->str, Slot->safe, Slot with component_name / slot_name set} "
        "x 5 texts x flag x 6 re-pass patterns; guard: all letter-case variants of </script / </style plus look-alikes; tokenizer: random "
        "attribute strings; non-trivial = >= 2 keys (attrs), every slot case, every must-refuse guard case; distinct by content"
    )
    ch.sample(fixed[0])
    ch.sample({"content": ["plain", "<b>x</b>"], "escape_slots_content": True, "repass_flags": [True, True], "expected": "[&lt;b&gt;x&lt;/b&gt;]"})
    return ch.finish()
