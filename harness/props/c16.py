"""
C16 — component assets = own class plus the bases selected by Media.extend.

Per case: a hierarchy of up to 6 fresh component classes (single, multiple and diamond
inheritance; no / empty / str / list / dict Media; extend True / False / list), then a random order
of accesses of `.media` on classes and instances (the process-global `media_cache` is *not*
cleared between the accesses of one case) and of `.js` / `.css` / `.template` / `.template_file`.
Observables: the set of (medium, path) pairs of every accessed `.media` (plus duplicate and order
checks), the looked-up attribute values, the exception raised for a class defining both members of
a pair.  Oracle: the property's own recursive reading (own Media + selected bases).
"""
from __future__ import annotations

import itertools
from typing import Any, Dict, List, Optional, Tuple

from .. import core

PROP = "C16"
THEOREMS = [
    "workstack_terminates_and_is_correct",
    "media_access_order_independent",
    "empty_cache_ok",
    "media_nodup",
    "attr_none_when_undefined",
    "media_eq_spec_partial",
    "not_C16_full",
    "attr_nearest_in_mro",
    "both_members_rejected",
]

TMPDIR = [""]
JS = ["a.js", "b.js", "c.js", "shared.js", "d.js"]
CSS = ["x.css", "y.css", "shared.css"]
_counter = [0]


def gen_hier(r) -> List[dict]:
    n = r.randint(1, 6)
    classes = []
    for i in range(n):
        if i == 0 or r.random() < 0.2:
            bases: List[int] = []
        else:
            k = r.choice([1, 1, 2, 3])
            bases = sorted(r.sample(range(i), min(k, i)), reverse=True)  # later classes first: consistent MROs
        kind = r.choice(["none", "none", "empty", "js-str", "js-list", "css-str", "css-list", "css-dict", "both"])
        own = None
        if kind != "none":
            js: Any = None
            css: Any = None
            if kind == "js-str":
                js = r.choice(JS)
            elif kind in ("js-list", "both"):
                js = r.sample(JS, r.randint(0, 3))
            if kind == "css-str":
                css = r.choice(CSS)
            elif kind == "css-list":
                css = r.sample(CSS, r.randint(1, 2))
            elif kind in ("css-dict", "both"):
                css = {"all": r.sample(CSS, r.randint(1, 2))}
                if r.random() < 0.5:
                    css["print"] = r.choice([r.choice(CSS), r.sample(CSS, 1)])
            ext: Any = r.choice([True, True, True, False, "list"])
            if ext == "list":
                ext = sorted(r.sample(range(i), min(r.randint(0, 2), i))) if i else []
            own = {"js": js, "css": css, "extend": ext}
        pair = {}
        for attr in ("js", "css", "template"):
            k2 = r.random()
            if k2 < 0.3:
                pair[attr] = f"{attr}-of-{i}"
            elif k2 < 0.42:
                pair[attr + "_file"] = f"@TMP@/f{i % 4}.{ {'js': 'js', 'css': 'css', 'template': 'html'}[attr] }"
        classes.append({"bases": bases, "own": own, "pair": pair})
    return classes


def normalise_files(own: dict) -> List[List[str]]:
    out: List[List[str]] = []
    js = own["js"]
    if js:
        for p in ([js] if isinstance(js, str) else js):
            out.append(["js", p])
    css = own["css"]
    if css:
        if isinstance(css, str):
            css = {"all": [css]}
        elif isinstance(css, list):
            css = {"all": css}
        for mt, ps in css.items():
            for p in ([ps] if isinstance(ps, str) else ps):
                out.append([mt, p])
    return out


def build(classes: List[dict]):
    """Create the real classes. Returns (list of class objects | None if inconsistent MRO)."""
    import copy

    from django_components import Component

    _counter[0] += 1
    objs: List[Any] = []
    for i, c in enumerate(classes):
        attrs: Dict[str, Any] = {"__module__": __name__}
        if c["own"] is not None:
            m: Dict[str, Any] = {}
            if c["own"]["js"] is not None:
                m["js"] = copy.deepcopy(c["own"]["js"])
            if c["own"]["css"] is not None:
                m["css"] = copy.deepcopy(c["own"]["css"])
            ext = c["own"]["extend"]
            if ext is not True:
                m["extend"] = ext if ext is False else [objs[j] for j in ext]
            attrs["Media"] = type("Media", (), m)
        attrs.update({k: v.replace("@TMP@", TMPDIR[0]) for k, v in c["pair"].items()})
        bases = tuple(objs[j] for j in c["bases"]) or (Component,)
        try:
            objs.append(type(f"C16K{_counter[0]}N{i}", bases, attrs))
        except TypeError as e:
            if "MRO" in str(e) or "duplicate base" in str(e):
                return None
            raise
    return objs


def spec_files(classes: List[dict], i: int, memo: dict) -> frozenset:
    if i in memo:
        return memo[i]
    c = classes[i]
    files = set()
    if c["own"] is not None:
        files |= {tuple(f) for f in normalise_files(c["own"])}
        ext = c["own"]["extend"]
        sel = c["bases"] if ext is True else ([] if ext is False else ext)
    else:
        sel = c["bases"]
    for b in sel:
        files |= spec_files(classes, b, memo)
    memo[i] = frozenset(files)
    return memo[i]


def order_consistent(classes: List[dict], result: List[Tuple[str, str]], contributing: List[int]) -> Optional[str]:
    """each declared list must appear in its order, when the declared lists are mutually consistent"""
    lists = []
    for i in contributing:
        own = classes[i]["own"]
        if own is None:
            continue
        per: Dict[str, List[str]] = {}
        for t, p in normalise_files(own):
            per.setdefault(t, []).append(p)
        lists += [(t, ps) for t, ps in per.items() if len(ps) > 1]
    before = set()
    for t, ps in lists:
        for a, b in itertools.combinations(ps, 2):
            before.add((t, a, b))
    if any((t, b, a) in before for (t, a, b) in before):
        return None  # mutually inconsistent: nothing demanded
    pos = {f: k for k, f in enumerate(result)}
    for t, a, b in before:
        if (t, a) in pos and (t, b) in pos and pos[(t, a)] > pos[(t, b)]:
            return f"{a} declared before {b} ({t}) but rendered after it"
    return None


def closure(classes, i):
    """every class that can matter for class i (bases and extend lists, transitively)"""
    seen = set()
    todo = [i]
    while todo:
        x = todo.pop()
        if x in seen:
            continue
        seen.add(x)
        todo += classes[x]["bases"]
        if classes[x]["own"] and isinstance(classes[x]["own"]["extend"], list):
            todo += classes[x]["own"]["extend"]
    return seen


def contributing(classes, i):
    """classes whose own Media the property's reading includes for class i"""
    seen = set()
    todo = [i]
    while todo:
        x = todo.pop()
        if x in seen:
            continue
        seen.add(x)
        own = classes[x]["own"]
        if own is None or own["extend"] is True:
            todo += classes[x]["bases"]
        elif isinstance(own["extend"], list):
            todo += own["extend"]
    return seen


def run(tier: str) -> int:
    ch = core.Check(PROP, tier, THEOREMS)
    ch.assumptions += [
        "CPython's MRO is data: the owner of the nearest Media and the MRO list come from the real interpreter; the side condition EffOK is checked on every generated hierarchy",
        "django.forms.Media.__add__/merge is a parameter: sets and duplicate-freeness are compared with the model, the order by a separate oracle",
        "js / css are given inline (the *_file forms need files on disk); template_file is served by the locmem loader",
    ]
    ch.build_and_audit()
    core.django_setup()
    import warnings

    warnings.simplefilter("ignore")
    from django.core.exceptions import ImproperlyConfigured
    from django.template import engines

    from django_components import Component

    import atexit
    import shutil
    import tempfile

    TMPDIR[0] = tempfile.mkdtemp(prefix="djc_c16_")
    atexit.register(shutil.rmtree, TMPDIR[0], True)
    file_content = {}
    for i in range(4):
        for ext in ("js", "css", "html"):
            path = f"{TMPDIR[0]}/f{i}.{ext}"
            file_content[path] = f"/* content of f{i}.{ext} */"
            open(path, "w").write(file_content[path])
    n = int((700 if tier == "quick" else 15000) * ch.budget_scale)
    fixed = [[{"bases": [], "own": {"js": ["a.js"], "css": None, "extend": False}, "pair": {}},
              {"bases": [], "own": {"js": ["b.js"], "css": None, "extend": True}, "pair": {}},
              {"bases": [0, 1], "own": None, "pair": {}}]]
    # directed diamonds: a class that defines nothing at all next to a sibling that overrides (seeded/C16-5: the empty
    # class shared its ancestor's state record, so the MRO walk stopped at the ancestor's values)
    def diamond(r):
        full = {"js": "js-of-0", "css": "css-of-0", "template": "template-of-0"}
        over = {k: v.replace("-0", "-2") for k, v in full.items() if r.random() < 0.8} or {"template": "template-of-2"}
        media = lambda i: ({"js": ["m%d.js" % i], "css": None, "extend": True} if r.random() < 0.5 else None)
        cls = [{"bases": [], "own": media(0), "pair": dict(full)},
               {"bases": [0], "own": None, "pair": {}},                                  # Plain(Base): nothing
               {"bases": [0], "own": media(2), "pair": over},                            # Themed(Base): overrides
               {"bases": [1, 2] if r.random() < 0.7 else [2, 1], "own": media(3), "pair": {}}]   # Widget(Plain, Themed)
        if r.random() < 0.4:
            cls.append({"bases": [3], "own": None, "pair": {}})
        return cls
    directed = [diamond(core.rng(PROP, "diamond", i)) for i in range(6 if tier == "quick" else 60)]
    gens = fixed + directed + [gen_hier(core.rng(PROP, "hier", i)) for i in range(n)]
    prepared = []
    for gi, classes in enumerate(gens):
        objs = build(classes)
        if objs is None:
            ch.errkind("inconsistent-mro-skipped")
            continue
        r = core.rng(PROP, "access", gi)
        eff = []
        eff_ok = True
        for i, o in enumerate(objs):
            owner = next((k for k in o.__mro__ if "Media" in k.__dict__), None)
            eff.append(objs.index(owner) if owner in objs else None)
        for i, c in enumerate(classes):
            if c["own"] is not None:
                eff_ok &= eff[i] == i
            else:
                eff_ok &= eff[i] is None or any(eff[b] == eff[i] for b in c["bases"])
        accesses = [r.randrange(len(objs)) for _ in range(r.randint(1, len(objs) + 2))]
        on_instance = [r.random() < 0.3 for _ in accesses]
        hier = [{"bases": c["bases"],
                 "own": None if c["own"] is None else {"files": normalise_files(c["own"]),
                                                       "extend": "all" if c["own"]["extend"] is True else ("none" if c["own"]["extend"] is False else c["own"]["extend"])},
                 "eff": eff[i]} for i, c in enumerate(classes)]
        prepared.append((classes, objs, accesses, on_instance, hier, eff_ok))
    reps = core.drive([{"op": "media", "hier": h, "accesses": a} for _, _, a, _, h, _ in prepared])
    attr_reqs = []
    attr_meta = []
    for classes, objs, accesses, on_instance, hier, eff_ok in prepared:
        for i, o in enumerate(objs):
            for attr in ("js", "css", "template"):
                mro_pairs = []
                for k in o.__mro__:
                    if k in objs:
                        p = classes[objs.index(k)]["pair"]
                        f = p.get(attr + "_file")
                        if f is not None:
                            f = f.replace("@TMP@", TMPDIR[0])
                        inline = p.get(attr)
                        if f is not None and inline is None:
                            inline = file_content[f]
                        mro_pairs.append({"inline": inline, "file": f})
                attr_reqs.append({"op": "mediaattr", "mro": mro_pairs})
                attr_meta.append((o, attr, classes, i))
    attr_reps = core.drive(attr_reqs)
    for (classes, objs, accesses, on_instance, hier, eff_ok), rep in zip(prepared, reps):
        if "error" in rep:
            raise core.InfraError(f"driver: {rep['error']}")
        ch.count("hierarchy", 1, 1)
        if not eff_ok:
            ch.violation("model-impl-disagree", "EffOK", {"classes": classes}, note="the MRO data violates the side condition EffOK assumed by media_eq_spec_partial")
            continue
        shown = {"classes": classes, "accesses": accesses, "on_instance": on_instance}
        memo: dict = {}
        feats = set()
        for c in classes:
            feats.add("no-media" if c["own"] is None else ("extend-" + ("list" if isinstance(c["own"]["extend"], list) else str(c["own"]["extend"]))))
            if len(c["bases"]) > 1:
                feats.add("multiple-inheritance")
        ch.branch(sorted(feats))
        if len(classes) >= 3:
            ch.nontrivial(str(classes) + str(accesses))
        stop = False
        conflict_seen = False
        for k, (i, inst, mrep) in enumerate(zip(accesses, on_instance, rep["out"])):
            try:
                import warnings as _w
                with _w.catch_warnings(record=True) as _caught:
                    _w.simplefilter("always")
                    media = (objs[i]() if inst else objs[i]).media
                    _ = media._css, media._js
                conflict_seen = conflict_seen or any("MediaOrderConflict" in type(x.message).__name__ for x in _caught)
            except Exception as e:
                ch.violation("impl-violates-spec", "hierarchy", shown, impl=f"{type(e).__name__}: {e}", spec="accessing .media raised")
                stop = True
                break
            got = [("js", p) for p in media._js] + [(t, p) for t, ps in media._css.items() for p in ps]
            got = [(t, str(p)) for t, p in got]
            exp = spec_files(classes, i, memo)
            model = None if mrep is None else sorted(map(tuple, mrep))
            region = any(classes[x]["own"] is None and hier[x]["eff"] is not None and hier[hier[x]["eff"]]["own"]["extend"] != "all"
                         for x in closure(classes, i))
            if len(got) != len(set(got)):
                ch.violation("impl-violates-spec", "hierarchy", dict(shown, at_access=k), impl=got, spec="media_nodup: a file appears twice for one medium")
                stop = True
                break
            if set(got) != set(exp):
                if region and model == sorted(set(got)):
                    ch.known_hit("inherited-extend-drops-base", {"case": shown, "class": i, "impl": sorted(got), "expected": sorted(exp)})
                else:
                    ch.violation("impl-violates-spec", "hierarchy", dict(shown, at_access=k, cls=i), impl=sorted(got), model=model,
                                 spec={"expected": sorted(exp), "clause": "media_eq_spec: own Media + transitively the bases selected by extend; independent of access order"})
                    stop = True
                    break
            else:
                oc = order_consistent(classes, got, sorted(contributing(classes, i)))
                if oc and region:
                    # the files happen to be all there, but a base that the letter of the property selects was not merged
                    # (listed finding): its declared order is not honoured
                    ch.known_hit("inherited-extend-drops-base", {"case": shown, "class": i, "impl": got, "why": oc})
                elif oc and conflict_seen:
                    # the mechanism of the listed finding was observed: Django reported an order conflict in one of the
                    # library's intermediate (flattened) merges although the declared lists are mutually consistent
                    ch.known_hit("media-order-first-occurrence", {"case": shown, "class": i, "impl": got, "why": oc})
                elif oc:
                    ch.violation("impl-violates-spec", "hierarchy", dict(shown, at_access=k, cls=i), impl=got, spec="media_order_consistent: " + oc)
                    stop = True
                    break
            if model != sorted(set(got)):
                ch.violation("model-impl-disagree", "hierarchy", dict(shown, at_access=k, cls=i), impl=sorted(got), model=model)
                break
        if stop:
            break
    # attribute lookups
    for (o, attr, classes, i), rep in zip(attr_meta, attr_reps):
        ch.count("attr", 1, 1)
        try:
            got_inline = getattr(o, attr)
            got_file = getattr(o, attr + "_file")
        except Exception as e:
            ch.violation("impl-violates-spec", "attr", {"classes": classes, "cls": i, "attr": attr}, impl=f"{type(e).__name__}: {e}", spec="attribute access raised")
            break
        exp_inline, exp_file = rep["inline"], rep["file"]
        if (got_inline, got_file) != (exp_inline, exp_file):
            ch.violation("impl-violates-spec", "attr", {"classes": classes, "cls": i, "attr": attr}, impl=[got_inline, got_file], model=[exp_inline, exp_file],
                         spec="attr_nearest_in_mro: value of the nearest class in the MRO that defines either member of the pair")
            break
        if exp_inline is not None:
            ch.nontrivial(("attr", o.__name__, attr))
    # both members of a pair
    for attr in ("js", "css", "template"):
        ch.count("pair", 1, 1)
        try:
            type(f"C16Both{attr}{_counter[0]}", (Component,), {attr: "x", attr + "_file": "c16/tpl0.html", "__module__": __name__})
            ch.violation("impl-violates-spec", "pair", {"attr": attr}, impl="class created", spec="both_members_rejected")
        except ImproperlyConfigured:
            ch.nontrivial(("pair", attr))
    ch.cov["rule"] = (
        f"{n} random hierarchies of 1-6 classes (bases: 0-3 earlier classes; Media none/empty/js str|list/css str|list|dict/both; extend "
        "True/False/list of earlier classes), each with 1..n+2 accesses of .media on classes and instances in random order (cache kept "
        "within a case); js/css/template inline or template_file on random classes and every class x attribute looked up; plus the fixed "
        "witness of the known finding; non-trivial = hierarchy of >= 3 classes (or a defined attribute); distinct = distinct hierarchy+accesses"
    )
    ch.sample({"classes": fixed[0], "accesses": [2, 0], "known_finding": "C(A,B) without own Media, A.Media.extend=False: media(C)={a.js}"})
    return ch.finish()
