"""
Shared machinery of every check (DESIGN.md §3-§5).

  * locate /repo (or $VERIF_REPO) and put its `src` first on sys.path
  * regenerate lean/Djc/Generated.lean from the current sources (harness/extract.py)
  * `lake build` (file-locked), axiom audit of the property's theorems, grep for escape hatches
  * batch access to the compiled model driver
  * evidence / replay / known-findings plumbing and the exit-code protocol

Exit codes: 0 = property held on everything explored, 1 = VIOLATION line printed,
2 = infrastructure failure (no VIOLATION line).
"""
from __future__ import annotations

import fcntl
import hashlib
import json
import os
import random
import re
import subprocess
import sys
import time
from pathlib import Path
from typing import Any, Callable, Dict, Iterable, List, Optional, Tuple

VERIF = Path(__file__).resolve().parent.parent
REPO = Path(os.environ.get("VERIF_REPO", "/repo")).resolve()
LEAN = VERIF / "lean"
DRIVER = LEAN / ".lake" / "build" / "bin" / "djcdriver"
EVIDENCE = Path(os.environ.get("VERIF_EVIDENCE_DIR", str(VERIF / "evidence")))
REPLAYS = Path(os.environ.get("VERIF_REPLAY_DIR", str(VERIF / "replays")))
FINDINGS = VERIF / "findings"
CORPUS = VERIF / "corpus"
KNOWN = VERIF / "known_findings.json"

ALLOWED_AXIOMS = {"propext", "Classical.choice", "Quot.sound"}
FORBIDDEN_RE = re.compile(
    r"\bsorry\b|\badmit\b|^axiom |native_decide|bv_decide|implemented_by|\bunsafe |maxHeartbeats 0"
)


class InfraError(Exception):
    """Something in the machinery (not the code under test) failed: exit 2."""


def seed() -> int:
    try:
        return int(os.environ.get("VERIF_SEED", "1"))
    except ValueError:
        return 1


def rng(prop: str, stream: str, index: Any = "") -> random.Random:
    """Every random choice derives from (VERIF_SEED, property, stream[, index])."""
    return random.Random(f"{seed()}:{prop}:{stream}:{index}")


def use_repo() -> None:
    """Make `import django_components` resolve to the tree under test."""
    src = str(REPO / "src")
    if src in sys.path:
        sys.path.remove(src)
    sys.path.insert(0, src)
    # tests' helper packages are sometimes handy (tests.test_app etc.)
    if str(REPO) not in sys.path:
        sys.path.insert(1, str(REPO))


_DJANGO_READY = False


def django_setup(components: Optional[dict] = None, extra: Optional[dict] = None) -> None:
    """Configure a minimal Django project around the library (once per process)."""
    global _DJANGO_READY
    if _DJANGO_READY:
        return
    use_repo()
    import django
    from django.conf import settings

    if not settings.configured:
        base = {
            "BASE_DIR": str(VERIF),
            "INSTALLED_APPS": ("django_components",),
            "TEMPLATES": [
                {
                    "BACKEND": "django.template.backends.django.DjangoTemplates",
                    "DIRS": [],
                    "OPTIONS": {
                        "builtins": ["django_components.templatetags.component_tags"],
                        "loaders": [
                            ("django.template.loaders.locmem.Loader", {}),
                        ],
                    },
                }
            ],
            "COMPONENTS": {"template_cache_size": 128, "autodiscover": False, **(components or {})},
            "MIDDLEWARE": ["django_components.middleware.ComponentDependencyMiddleware"],
            "DATABASES": {"default": {"ENGINE": "django.db.backends.sqlite3", "NAME": ":memory:"}},
            "SECRET_KEY": "secret",
            "ROOT_URLCONF": "django_components.urls",
            "ALLOWED_HOSTS": ["*"],
            "STATIC_URL": "/static/",
        }
        base.update(extra or {})
        settings.configure(**base)
    django.setup()
    import django_components  # noqa: F401

    got = Path(sys.modules["django_components"].__file__).resolve()
    if REPO not in got.parents:
        raise InfraError(f"django_components imported from {got}, expected under {REPO}")
    _DJANGO_READY = True


# ---------------------------------------------------------------------------------------------
# Lean side
# ---------------------------------------------------------------------------------------------


class _Lock:
    def __init__(self, path: Path):
        self.path = path
        self.fh = None

    def __enter__(self):
        self.fh = open(self.path, "w")
        fcntl.flock(self.fh, fcntl.LOCK_EX)
        return self

    def __exit__(self, *a):
        fcntl.flock(self.fh, fcntl.LOCK_UN)
        self.fh.close()


def _run(cmd: List[str], cwd: Path, timeout: int, env: Optional[dict] = None) -> Tuple[int, str]:
    e = dict(os.environ)
    if env:
        e.update(env)
    try:
        p = subprocess.run(cmd, cwd=str(cwd), capture_output=True, text=True, timeout=timeout, env=e)
    except subprocess.TimeoutExpired:
        raise InfraError(f"timeout: {' '.join(cmd)}")
    except FileNotFoundError as ex:
        raise InfraError(f"missing tool: {ex}")
    return p.returncode, (p.stdout or "") + (p.stderr or "")


def lake_build(targets: Optional[List[str]] = None) -> Tuple[bool, str]:
    """Rebuild the Lean library + driver. Returns (ok, log). Never raises on a proof failure:
    a broken proof is an observation the caller must act on (DESIGN §5)."""
    with _Lock(LEAN / ".build.lock"):
        rc, out = _run(["lake", "build"] + (targets or []), LEAN, 3000)
    return rc == 0, out


def failing_modules(build_log: str) -> List[str]:
    return sorted(set(re.findall(r"^- (Djc\.[\w.]+)$", build_log, re.M)))


def audit(prop: str) -> Dict[str, Any]:
    """`#print axioms`-style audit of every theorem declared in Djc.Props.<prop>."""
    mod = f"Djc.Props.{prop}"
    with _Lock(LEAN / ".build.lock"):
        rc, out = _run(["lake", "env", "lean", "Audit.lean"], LEAN, 1200, {"DJC_AUDIT_MODULE": mod})
    theorems = []
    opens = []
    for line in out.splitlines():
        m = re.match(r"THEOREM (\S+) AXIOMS \[(.*)\]$", line)
        if m:
            name = m.group(1)
            if not name.startswith(mod + "."):
                continue
            if re.search(r"\.(eq_\d+|eq_def|congr_simp|induct|induct_unfolding|fun_cases|fun_cases_unfolding|match_\d+.*|proof_\d+|_.*)$", name):
                continue
            axs = [a.strip() for a in m.group(2).split(",") if a.strip()]
            theorems.append({"name": name, "axioms": axs, "ok": set(axs) <= ALLOWED_AXIOMS})
        m = re.match(r"OPEN (\S+)$", line)
        if m and m.group(1).startswith(mod + "."):
            opens.append(m.group(1))
    return {"rc": rc, "theorems": theorems, "open_statements": opens, "log": out if rc != 0 else ""}


def grep_forbidden() -> List[str]:
    hits = []
    for p in sorted(LEAN.rglob("*.lean")):
        if ".lake" in p.parts:
            continue
        in_block = 0
        for i, line in enumerate(p.read_text().splitlines(), 1):
            # strip comments (block comments tracked coarsely, line comments exactly)
            code = line
            if in_block:
                if "-/" in code:
                    code = code.split("-/", 1)[1]
                    in_block = 0
                else:
                    continue
            while "/-" in code:
                pre, rest = code.split("/-", 1)
                if "-/" in rest:
                    code = pre + rest.split("-/", 1)[1]
                else:
                    code = pre
                    in_block = 1
                    break
            code = code.split("--", 1)[0]
            if FORBIDDEN_RE.search(code):
                hits.append(f"{p.relative_to(VERIF)}:{i}: {line.strip()}")
    return hits


def drive(requests: List[dict], timeout: int = 1800) -> List[dict]:
    """Send requests to the compiled model driver, one JSON per line; one reply per line."""
    if not DRIVER.exists():
        raise InfraError(f"driver not built: {DRIVER}")
    if not requests:
        return []
    data = "\n".join(json.dumps(r, ensure_ascii=False) for r in requests) + "\n"
    try:
        p = subprocess.run([str(DRIVER)], input=data.encode("utf-8"), capture_output=True, timeout=timeout)
    except subprocess.TimeoutExpired:
        raise InfraError("driver timeout")
    if p.returncode != 0:
        raise InfraError(f"driver crashed rc={p.returncode}: {p.stderr.decode('utf-8', 'replace')[-2000:]}")
    # one reply per "\n"-terminated line (str.splitlines would also break at \x0b, \x1c-\x1e, \x85, \u2028 inside a reply)
    lines = p.stdout.decode("utf-8").split("\n")
    if lines and lines[-1] == "":
        lines.pop()
    if len(lines) != len(requests):
        raise InfraError(f"driver returned {len(lines)} replies for {len(requests)} requests")
    return [json.loads(l) for l in lines]


# ---------------------------------------------------------------------------------------------
# Known findings
# ---------------------------------------------------------------------------------------------


def known_findings(prop: str) -> List[dict]:
    if not KNOWN.exists():
        return []
    return [e for e in json.loads(KNOWN.read_text()) if e.get("property") == prop]


# ---------------------------------------------------------------------------------------------
# A check run
# ---------------------------------------------------------------------------------------------


class Check:
    """State of one run of one property's check."""

    def __init__(self, prop: str, tier: str, theorems: List[str], design_ref: str = ""):
        self.prop = prop
        self.tier = tier
        self.t0 = time.time()
        self.expected_theorems = theorems
        self.cov: Dict[str, Any] = {
            "evaluations": 0,
            "distinct_nontrivial": 0,
            "traces_validated_against_impl": 0,
            "samples": [],
            "streams": {},
            "model_branches_hit": {},
            "error_kinds": {},
        }
        self.assumptions: List[str] = []
        self.violations: List[dict] = []
        self.known_hits: Dict[str, dict] = {}
        self._distinct: set = set()
        self.proof_broken: List[str] = []  # names of theorems / modules that no longer check
        self.notes: List[str] = []
        self.known = known_findings(prop)
        self.budget_scale = 1.0

    # -- time ---------------------------------------------------------------------------
    def elapsed(self) -> float:
        return time.time() - self.t0

    # -- Lean ---------------------------------------------------------------------------
    def build_and_audit(self) -> None:
        from . import extract

        ext = extract.regenerate()
        self.cov["extracted"] = ext.get("values", {})
        if ext.get("missing"):
            self.cov["extract_missing"] = ext["missing"]
            self.budget_scale = max(self.budget_scale, 3.0)
        ok, log = lake_build()
        if not ok:
            mods = failing_modules(log)
            relevant = [m for m in mods if self._module_relevant(m)]
            if not mods:
                raise InfraError("lake build failed without naming a module:\n" + log[-3000:])
            if relevant or not DRIVER.exists():
                self.proof_broken += [f"module {m} no longer builds" for m in (relevant or mods)]
                self.cov["build_log_tail"] = log[-1500:]
            else:
                self.notes.append(f"unrelated modules fail to build: {mods}")
        a = audit(self.prop) if ok else {"rc": 1, "theorems": [], "open_statements": [], "log": ""}
        names = {t["name"] for t in a["theorems"]}
        mod = f"Djc.Props.{self.prop}."
        for t in self.expected_theorems:
            if mod + t not in names and ok:
                self.proof_broken.append(f"theorem {mod}{t} missing from the build")
        for t in a["theorems"]:
            if not t["ok"]:
                self.proof_broken.append(f"theorem {t['name']} depends on axioms {t['axioms']}")
        forb = grep_forbidden()
        if forb:
            self.proof_broken.append("escape hatches in Lean sources: " + "; ".join(forb[:5]))
        self.cov["obligations"] = max(len(self.expected_theorems), len(a["theorems"]), 1)
        self.cov["discharged"] = len([t for t in a["theorems"] if t["ok"]]) if not self.proof_broken else len(
            [t for t in a["theorems"] if t["ok"] and (t["name"].split(".")[-1] in self.expected_theorems)]
        )
        if not ok:
            self.cov["discharged"] = 0
        self.cov["theorems"] = [{"name": t["name"], "axioms": t["axioms"]} for t in a["theorems"]]
        self.cov["open_statements"] = a["open_statements"]
        self.cov["checker_cmd"] = (
            f"cd lean && lake build && DJC_AUDIT_MODULE=Djc.Props.{self.prop} lake env lean Audit.lean"
        )
        self.cov["trusted_base"] = [
            "Lean 4.33 kernel",
            "axioms: subset of propext, Classical.choice, Quot.sound (listed per theorem)",
            "harness/extract.py (constants -> lean/Djc/Generated.lean)",
            f"correspondence harness/props/{self.prop.lower()}.py + lean/Driver (model = code only on generated inputs)",
        ]
        if self.tier == "thorough" and ok:
            with _Lock(LEAN / ".build.lock"):
                rc, out = _run(["lake", "env", "leanchecker", f"Djc.Props.{self.prop}"], LEAN, 3000)
            self.cov["leanchecker"] = {"rc": rc, "tail": out[-300:]}
            if rc != 0:
                self.proof_broken.append(f"leanchecker rejects Djc.Props.{self.prop}")

    def _module_relevant(self, module: str) -> bool:
        # a failing module matters to this property if the property's Props file imports it
        # (transitively). Cheap approximation: ask lean for the import closure via file text.
        seen = set()
        todo = [f"Djc.Props.{self.prop}", "Driver.Main"]
        while todo:
            m = todo.pop()
            if m in seen:
                continue
            seen.add(m)
            f = LEAN / (m.replace(".", "/") + ".lean")
            if f.exists():
                for mm in re.findall(r"^import (\S+)", f.read_text(), re.M):
                    if mm.startswith("Djc") or mm.startswith("Driver"):
                        todo.append(mm)
        return module in seen

    # -- bookkeeping ----------------------------------------------------------------------
    def count(self, stream: str, n: int = 1, validated: int = 0) -> None:
        self.cov["evaluations"] += n
        self.cov["traces_validated_against_impl"] += validated
        s = self.cov["streams"].setdefault(stream, {"cases": 0})
        s["cases"] += n

    def nontrivial(self, key: Any) -> None:
        h = hashlib.blake2b(repr(key).encode("utf-8", "replace"), digest_size=10).digest()
        if h not in self._distinct:
            self._distinct.add(h)
            self.cov["distinct_nontrivial"] = len(self._distinct)

    def branch(self, labels: Iterable[str]) -> None:
        d = self.cov["model_branches_hit"]
        for l in labels:
            d[l] = d.get(l, 0) + 1

    def errkind(self, kind: str) -> None:
        d = self.cov["error_kinds"]
        d[kind] = d.get(kind, 0) + 1

    def sample(self, case: Any, limit: int = 5) -> None:
        if len(self.cov["samples"]) < limit:
            self.cov["samples"].append(case)

    # -- verdicts ---------------------------------------------------------------------------
    def known_hit(self, slug: str, detail: Any = None) -> None:
        """A case fell in the region of a listed known finding and behaved as recorded."""
        if slug not in self.known_hits:
            self.known_hits[slug] = {"count": 0, "example": detail}
        self.known_hits[slug]["count"] += 1

    def violation(self, kind: str, stream: str, case: Any, impl: Any = None, model: Any = None,
                  spec: Any = None, unchecked: Any = None, note: str = "") -> None:
        """kind: impl-violates-spec | model-impl-disagree | proof-broken"""
        self.violations.append(
            {"kind": kind, "stream": stream, "input": case, "impl": impl, "model": model, "spec": spec,
             "unchecked": unchecked, "note": note}
        )

    # -- finish -----------------------------------------------------------------------------
    def finish(self) -> int:
        wall = self.elapsed()
        # 1. genuine failing inputs win; 2. else disagreement / broken proof -> no-failing-input-found
        real = [v for v in self.violations if v["kind"] == "impl-violates-spec"]
        soft = [v for v in self.violations if v["kind"] != "impl-violates-spec"]
        lines = []
        rc = 0
        REPLAYS.mkdir(parents=True, exist_ok=True)
        if real:
            v = real[0]
            path = self._write_replay(v, extra={"also_unchecked": self.proof_broken or None,
                                                "other_violations": len(real) - 1})
            lines.append(f"VIOLATION property={self.prop} replay={path}")
            rc = 1
        elif soft or self.proof_broken:
            v = soft[0] if soft else {"kind": "proof-broken", "stream": "lean", "input": None, "impl": None,
                                      "model": None, "spec": None, "unchecked": None, "note": ""}
            v = dict(v)
            v["unchecked"] = {
                "theorems_or_modules": self.proof_broken,
                "correspondence": sorted({f"{self.prop}/{x['stream']}" for x in soft}),
            }
            path = self._write_replay(v, extra={"other_disagreements": max(len(soft) - 1, 0)})
            lines.append(f"VIOLATION property={self.prop} replay={path} no-failing-input-found")
            rc = 1
        # known findings: print one line per listed finding that was re-confirmed on this run
        for e in self.known:
            if e.get("status") == "known" and e["slug"] in self.known_hits:
                lines.insert(0, f"KNOWN-FINDING: property={self.prop} {e['what']}")
        ev = {
            "property_id": self.prop,
            "tier": self.tier,
            "seed": seed(),
            "level": "proof",
            "wall_s": round(wall, 2),
            "violations": len(self.violations) + (1 if self.proof_broken and not self.violations else 0),
            "coverage": self.cov,
            "assumptions": self.assumptions,
        }
        self.cov["known_findings_confirmed"] = {k: v["count"] for k, v in self.known_hits.items()}
        self.cov["notes"] = self.notes
        self.cov["repo"] = str(REPO)
        if not self.cov["samples"]:
            self.cov["samples"] = ["(no case generated)"]
        EVIDENCE.mkdir(parents=True, exist_ok=True)
        (EVIDENCE / f"{self.prop}.json").write_text(json.dumps(ev, indent=1, ensure_ascii=False, default=str) + "\n")
        for l in lines:
            print(l)
        print(
            f"[{self.prop}] tier={self.tier} seed={seed()} evaluations={self.cov['evaluations']} "
            f"distinct_nontrivial={self.cov['distinct_nontrivial']} obligations={self.cov.get('obligations')} "
            f"discharged={self.cov.get('discharged')} wall={wall:.1f}s rc={rc}"
        )
        sys.stdout.flush()
        return rc

    def _write_replay(self, v: dict, extra: Optional[dict] = None) -> str:
        n = 0
        while True:
            path = REPLAYS / f"{self.prop}-{seed()}-{n}.json"
            if not path.exists():
                break
            n += 1
        doc = {
            "property": self.prop,
            "kind": v["kind"],
            "tier": self.tier,
            "seed": seed(),
            "stream": v["stream"],
            "input": v["input"],
            "impl": v["impl"],
            "model": v["model"],
            "spec": v["spec"],
            "unchecked": v["unchecked"],
            "note": v["note"],
            "how": f"./check {self.prop} --replay {_rel(path)}",
        }
        if extra:
            doc.update(extra)
        path.write_text(json.dumps(doc, indent=1, ensure_ascii=False, default=str) + "\n")
        return _rel(path)


class Hang(Exception):
    """the code under test did not return within the time limit"""


class time_limit:
    """`with time_limit(2.0): call()` raises Hang if the call takes longer (SIGALRM, main thread only).
    Used only to turn an endless loop of the code under test into an observation; generous limits,
    never a timing comparison."""

    def __init__(self, seconds: float):
        self.seconds = seconds

    def _handler(self, signum, frame):
        raise Hang()

    def __enter__(self):
        import signal

        self._old = signal.signal(signal.SIGALRM, self._handler)
        signal.setitimer(signal.ITIMER_REAL, self.seconds)
        return self

    def __exit__(self, *a):
        import signal

        signal.setitimer(signal.ITIMER_REAL, 0)
        signal.signal(signal.SIGALRM, self._old)
        return False


def _rel(path: Path) -> str:
    try:
        return str(path.relative_to(VERIF))
    except ValueError:
        return str(path)


def shrink_list(items: list, still_fails: Callable[[list], bool], max_steps: int = 400) -> list:
    """Delta-debugging style shrink of a list-shaped case."""
    cur = list(items)
    steps = 0
    chunk = max(len(cur) // 2, 1)
    while chunk >= 1 and steps < max_steps:
        i = 0
        progressed = False
        while i < len(cur) and steps < max_steps:
            cand = cur[:i] + cur[i + chunk:]
            steps += 1
            if cand != cur and still_fails(cand):
                cur = cand
                progressed = True
            else:
                i += chunk
        if not progressed:
            chunk //= 2
    return cur
