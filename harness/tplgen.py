"""Component-program generator ("as in C01"), printer to Django template source, builder of the
real Component classes, runner of the real code, and canonicaliser of outputs.

The program is a JSON-ready dict understood by the Lean driver op "render" (Driver/Render.lean):
  {"isolated": bool, "lib": [{"name","template":[Node],"data":[[out,Src]]}], "entry": {"page":[Node]} |
   {"comp": name, "kwargs": [[k,Val]], "slots": [[name,str]]}, "ctx": [[k,Val]], "raise": [i,c] | None}
"""
import copy
import gc
import re

from . import core

SCALARS = ["a", "b", "c"]
LISTS = ["xs", "ys"]
SLOTS = ["s1", "s2", "s3"]
KEYS = ["k1", "k2"]
TAGS = ["div", "p", "span"]
WORDS = ["A", "B", "C", "x1", "y2", "w3", "-", ".", "q"]

DEFAULT_PROFILE = dict(
    ncomp=(1, 4), depth=3, width=(1, 3),
    w_text=4, w_out=3, w_if=1, w_for=1, w_with=1, w_elem=1, w_slot=4, w_comp=4, w_provide=0,
    w_inject=0, p_only=0.1, p_dyn=0.0, p_named_fill=0.5, p_dynamic_fill_name=0.15, p_fill_in_ctl=0.3,
    p_default_flag=0.25, p_required=0.05, p_data_alias=0.3, p_default_alias=0.15, p_slot_in_fill=0.2,
    p_selfid=0.0, p_fill_double_bind=0.3, p_is_filled=0.2, p_malformed=0.04, p_forloop_print=0.2, collide=0.3,
)


def lit(s):
    return {"lit": s}


def var(*path):
    return {"var": list(path)}


def sval(s):
    return {"s": s}


class Gen:
    def __init__(self, rnd, profile=None):
        self.r = rnd
        self.p = dict(DEFAULT_PROFILE)
        if profile:
            self.p.update(profile)
        self.features = {}

    def feat(self, k):
        self.features[k] = self.features.get(k, 0) + 1

    # ---- leaves
    def word(self):
        return self.r.choice(WORDS)

    def text(self):
        return {"t": "text", "s": "".join(self.r.choice(WORDS) for _ in range(self.r.randint(1, 2)))}

    def expr(self, scope):
        """scope: list of (name, kind) visible with some probability"""
        r = self.r
        if r.random() < 0.2:
            return lit(self.word())
        if scope and r.random() < 0.8:
            name, kind = r.choice(scope)
            if kind == "dict":
                return var(name, r.choice(KEYS))
            return var(name)
        return var(r.choice(SCALARS + LISTS))

    @staticmethod
    def kind_of(e, scope):
        """ids have different lengths in the model and in the code: never iterate over them"""
        if "var" in e:
            for name, kind in reversed(scope):
                if name == e["var"][0]:
                    return "id" if kind == "id" else "str"
        return "str"

    def out(self, scope, st):
        r = self.r
        if st.get("in_for") and r.random() < self.p["p_forloop_print"]:
            self.feat("forloop_print")
            # inside fill content `forloop.parentloop` shows an aliasing defect of the code (known finding under C03);
            # only the profile that studies scoping prints it there
            deep = r.random() >= 0.7 and (not st.get("in_fill") or self.p.get("parentloop_in_fill", False))
            return {"t": "out", "e": var("forloop", "parentloop", "counter") if deep else var("forloop", "counter")}
        if st.get("comp") is not None and r.random() < self.p["p_is_filled"]:
            self.feat("is_filled_print")
            return {"t": "out", "e": var("component_vars", "is_filled", r.choice(SLOTS + ["default"]))}
        if st.get("aliases") and r.random() < 0.5:
            name, kind = r.choice(st["aliases"])
            if kind == "data":
                self.feat("slot_data_print")
                return {"t": "out", "e": var(name, r.choice(KEYS))}
            self.feat("slot_default_print")
            return {"t": "out", "e": var(name)}
        return {"t": "out", "e": self.expr(scope)}

    def kwargs(self, scope, n=None):
        r = self.r
        n = r.randint(0, 2) if n is None else n
        keys = r.sample(KEYS + SCALARS, n)
        return [[k, self.expr(scope)] for k in keys]

    def bindname(self):
        return self.r.choice(SCALARS + ["v", "w"]) if self.r.random() < self.p["collide"] else self.r.choice(["v", "w", "u"])

    # ---- bodies
    def body(self, depth, scope, st):
        lo, hi = self.p["width"]
        return [self.item(depth, scope, st) for _ in range(self.r.randint(lo, hi))]

    def item(self, depth, scope, st):
        r, p = self.r, self.p
        choices = [("text", p["w_text"]), ("out", p["w_out"])]
        if depth > 0:
            choices += [("if", p["w_if"]), ("for", p["w_for"]), ("with", p["w_with"]), ("elem", p["w_elem"]),
                        ("provide", p["w_provide"])]
            if st.get("comp") is not None or st.get("slot_ok"):
                choices.append(("slot", p["w_slot"]))
            if st.get("callable"):
                choices.append(("comp", p["w_comp"]))
        kind = r.choices([c for c, _ in choices], [w for _, w in choices])[0]
        if kind == "text":
            return self.text()
        if kind == "out":
            return self.out(scope, st)
        if kind == "if":
            return {"t": "if", "c": self.expr(scope), "a": self.body(depth - 1, scope, st), "b": self.body(depth - 1, scope, st) if r.random() < 0.5 else []}
        if kind == "for":
            x = self.bindname()
            e = var(r.choice(LISTS)) if r.random() < 0.85 else self.expr([x for x in scope if x[1] != "id"])
            st2 = dict(st, in_for=True)
            return {"t": "for", "x": x, "e": e, "body": self.body(depth - 1, scope + [(x, "str")], st2)}
        if kind == "with":
            x = self.bindname()
            e = self.expr(scope)
            return {"t": "with", "x": x, "e": e, "body": self.body(depth - 1, scope + [(x, self.kind_of(e, scope))], st)}
        if kind == "elem":
            self.feat("elem")
            return {"t": "elem", "tag": r.choice(TAGS), "body": self.body(depth - 1, scope, st)}
        if kind == "provide":
            self.feat("provide")
            key = r.choice(["pk", "pq"])
            kw = [[k, self.expr(scope)] for k in r.sample(KEYS, r.randint(1, 2))]
            if st.get("in_fill"):
                self.feat("provide_in_fill")
            if st.get("in_for"):
                self.feat("provide_in_loop")
            return {"t": "provide", "key": key, "kwargs": kw, "body": self.body(depth - 1, scope, dict(st, provided=True))}
        if kind == "slot":
            return self.slot(depth, scope, st)
        return self.comp(depth, scope, st)

    def slot(self, depth, scope, st):
        r, p = self.r, self.p
        name = lit(r.choice(SLOTS))
        if r.random() < 0.08 and scope:
            name = self.expr(scope)
            self.feat("slot_dynamic_name")
        is_default = r.random() < p["p_default_flag"]
        if is_default and "lit" in name and st.get("default_slot") and r.random() < 0.9:
            name = lit(st["default_slot"])
        required = r.random() < p["p_required"]
        data = [[k, self.expr(scope)] for k in r.sample(KEYS, r.randint(0, 2))]
        if st.get("in_fill"):
            self.feat("slot_in_fill")
        if st.get("in_slot_default"):
            self.feat("slot_in_slot_default")
        if st.get("in_for"):
            self.feat("slot_in_loop")
        body = self.body(depth - 1, scope, dict(st, in_slot_default=True))
        return {"t": "slot", "name": name, "default": is_default, "required": required, "data": data, "body": body}

    def comp(self, depth, scope, st):
        r, p = self.r, self.p
        target = r.choice(st["callable"])
        kw = self.kwargs(scope)
        only = r.random() < p["p_only"]
        dyn = r.random() < p["p_dyn"]
        if only:
            self.feat("only")
        if dyn:
            self.feat("dynamic")
        if st.get("in_for"):
            self.feat("comp_in_loop")
        if st.get("in_fill"):
            self.feat("comp_in_fill")
        if st.get("provided"):
            self.feat("comp_under_provider")
        mode = r.random()
        fst = dict(st, in_fill=True, in_for=False, in_slot_default=False, provided=False, aliases=[])
        # slots may appear inside fill content only where a component instance encloses the fill
        fst["slot_ok"] = st.get("comp") is not None and r.random() < p["p_slot_in_fill"] * 3
        if mode < 0.25 or depth <= 0:
            body = []
        elif mode < 0.25 + (1 - p["p_named_fill"]) * 0.75:
            self.feat("implicit_default_fill")
            body = self.body(depth - 1, scope, fst)
        else:
            body = self.fills(depth - 1, scope, fst)
        if r.random() < p["p_malformed"] and body:
            self.feat("malformed_body")
            body = body + [self.text()] if r.random() < 0.5 else body + [copy.deepcopy(body[0])]
        return {"t": "comp", "name": target, "kwargs": kw, "only": only, "dyn": dyn, "body": body}

    def fills(self, depth, scope, st):
        r, p = self.r, self.p
        out = []
        names = r.sample(SLOTS + ["default"], r.randint(1, 3))
        for nm in names:
            data = default = None
            aliases = []
            if r.random() < p["p_data_alias"]:
                data = r.choice(["sd", "a"]) if r.random() < p["collide"] else "sd"
                aliases.append((data, "data"))
            if r.random() < p["p_default_alias"]:
                default = "df"
                aliases.append((default, "default"))
            fst = dict(st, aliases=aliases)
            if r.random() < p["p_fill_in_ctl"]:
                kind = r.random()
                if kind < 0.4:
                    self.feat("fill_in_with")
                    x = self.bindname()
                    node_name = lit(nm)
                    e = self.expr(scope)
                    if r.random() < p["p_dynamic_fill_name"] * 3:
                        self.feat("fill_dynamic_name")
                        e = lit(nm)
                        node_name = var(x)
                    f = {"t": "fill", "name": node_name, "data": data, "dflt": default,
                         "body": self.body(depth, scope + [(x, self.kind_of(e, scope))], fst)}
                    out.append({"t": "with", "x": x, "e": e, "body": [f]})
                elif kind < 0.7:
                    self.feat("fill_in_if")
                    f = {"t": "fill", "name": lit(nm), "data": data, "dflt": default, "body": self.body(depth, scope, fst)}
                    out.append({"t": "if", "c": self.expr(scope), "a": [f], "b": []})
                else:
                    self.feat("fill_in_for")
                    x = self.bindname()
                    if r.random() < 0.5:
                        # looped, dynamically named fills: the loop variable is the name
                        self.feat("fill_dynamic_name")
                        f = {"t": "fill", "name": var(x), "data": data, "dflt": default,
                             "body": self.body(depth, scope + [(x, "str")], dict(fst, in_for=True))}
                        out.append({"t": "for", "x": x, "e": var("sl"), "body": [f]})
                    else:
                        f = {"t": "fill", "name": lit(nm), "data": data, "dflt": default,
                             "body": self.body(depth, scope + [(x, "str")], dict(fst, in_for=True))}
                        out.append({"t": "for", "x": x, "e": var(r.choice(LISTS + ["one"])), "body": [f]})
                if r.random() < p["p_fill_double_bind"]:
                    # a second binding layer between the component tag and the fill; mostly of the *same* name, so that the
                    # order in which the layers are merged into the fill's captured variables is observable (seeded/C03-3)
                    self.feat("fill_in_nested_binding")
                    inner = out[-1]
                    x2 = inner["x"] if inner["t"] == "with" and r.random() < 0.7 else self.bindname()
                    out[-1] = {"t": "with", "x": x2, "e": self.expr(scope), "body": [inner]}
            else:
                out.append({"t": "fill", "name": lit(nm), "data": data, "dflt": default, "body": self.body(depth, scope, fst)})
        return out

    # ---- programs
    def program(self, isolated=None):
        r, p = self.r, self.p
        n = r.randint(*p["ncomp"])
        names = [f"c{i}" for i in range(n)]
        lib = []
        for i, nm in enumerate(names):
            data = []
            scope = []
            for out in r.sample(SCALARS + ["g", "h"], r.randint(0, 3)):
                k = r.random()
                if p["w_inject"] and k < p["w_inject"]:
                    self.feat("inject")
                    dflt = self.word() if r.random() < p.get("p_inject_default", 0.75) else None
                    data.append([out, {"inject": r.choice(["pk", "pq"]), "dflt": dflt}])
                    scope.append((out, "dict"))
                elif k < 0.6:
                    data.append([out, {"kwarg": r.choice(KEYS + SCALARS)}])
                    scope.append((out, "str"))
                else:
                    data.append([out, {"const": sval(self.word())}])
                    scope.append((out, "str"))
            if r.random() < p.get("p_side", 0.0):
                self.feat("side_render")
                data.append(["sd0", {"side": True}])
            if r.random() < p["p_selfid"]:
                data.append(["cid", {"selfid": True}])
                scope.append(("cid", "id"))
            st = {"comp": i, "callable": names[i + 1:], "slot_ok": True, "default_slot": r.choice(SLOTS)}
            lib.append({"name": nm, "template": self.body(p["depth"], scope, st), "data": data})
        ctx = []
        for s in SCALARS:
            if r.random() < 0.7:
                ctx.append([s, sval(self.word())])
        ctx.append(["xs", {"l": [sval(self.word()) for _ in range(r.randint(0, 3))]}])
        if r.random() < 0.5:
            ctx.append(["ys", {"l": [sval(self.word()) for _ in range(r.randint(1, 2))]}])
        ctx.append(["one", {"l": [sval("o")]}])
        ctx.append(["sl", {"l": [sval(s) for s in r.sample(SLOTS, r.randint(1, 2))]}])
        pscope = [(k, "str") for k, v in ctx if "s" in v]
        st = {"comp": None, "callable": names, "slot_ok": False}
        page = self.body(p["depth"], pscope, st)
        if not any(nd["t"] == "comp" for nd in walk(page)):
            page.append(self.comp(p["depth"] - 1, pscope, st))
        return {"isolated": r.random() < 0.5 if isolated is None else isolated, "lib": lib,
                "entry": {"page": page}, "ctx": ctx, "raise": None}


def walk(nodes):
    for nd in nodes:
        yield nd
        for k in ("a", "b", "body"):
            if k in nd:
                yield from walk(nd[k])


def map_nodes(nodes, fn):
    out = []
    for nd in nodes:
        nd = dict(nd)
        for k in ("a", "b", "body"):
            if k in nd:
                nd[k] = map_nodes(nd[k], fn)
        out.append(fn(nd))
    return out


def size(prog):
    n = sum(1 for _ in walk(prog["entry"].get("page", [])))
    return n + sum(sum(1 for _ in walk(d["template"])) for d in prog["lib"])


# ------------------------------------------------------------------ printing

# the start tag of component tags (another one for programs that use a registry of their own)
COMP_TAG = ["component"]


def p_expr(e):
    if "lit" in e:
        return '"' + e["lit"] + '"'
    return ".".join(e["var"])


def p_kwargs(kw):
    return "".join(f" {k}={p_expr(e)}" for k, e in kw)


def p_nodes(nodes):
    return "".join(p_node(n) for n in nodes)


def p_node(n):
    t = n["t"]
    if t == "text":
        return n["s"]
    if t == "out":
        return "{{ " + p_expr(n["e"]) + " }}"
    if t == "if":
        s = "{% if " + p_expr(n["c"]) + " %}" + p_nodes(n["a"])
        if n["b"]:
            s += "{% else %}" + p_nodes(n["b"])
        return s + "{% endif %}"
    if t == "for":
        return "{% for " + n["x"] + " in " + p_expr(n["e"]) + " %}" + p_nodes(n["body"]) + "{% endfor %}"
    if t == "with":
        return "{% with " + n["x"] + "=" + p_expr(n["e"]) + " %}" + p_nodes(n["body"]) + "{% endwith %}"
    if t == "elem":
        return f"<{n['tag']}>" + p_nodes(n["body"]) + f"</{n['tag']}>"
    if t == "slot":
        s = "{% slot " + p_expr(n["name"])
        if n["default"]:
            s += " default"
        if n["required"]:
            s += " required"
        return s + p_kwargs(n["data"]) + " %}" + p_nodes(n["body"]) + "{% endslot %}"
    if t == "fill":
        s = "{% fill " + p_expr(n["name"])
        if n["data"] is not None:
            s += f' data="{n["data"]}"'
        if n["dflt"] is not None:
            s += f' default="{n["dflt"]}"'
        return s + " %}" + p_nodes(n["body"]) + "{% endfill %}"
    if t == "comp":
        if n["dyn"]:
            s = '{% ' + COMP_TAG[0] + ' "dynamic" is="' + n["name"] + '"'
        else:
            s = '{% ' + COMP_TAG[0] + ' "' + n["name"] + '"'
        s += p_kwargs(n["kwargs"])
        if n["only"]:
            s += " only"
        return s + " %}" + p_nodes(n["body"]) + "{% end" + COMP_TAG[0] + " %}"
    if t == "provide":
        return '{% provide "' + n["key"] + '"' + p_kwargs(n["kwargs"]) + " %}" + p_nodes(n["body"]) + "{% endprovide %}"
    raise ValueError(t)


def for_model(prog):
    """the dynamic variant is `component "dynamic" is=…` for the model too"""
    def fix(nd):
        if nd["t"] == "comp" and nd["dyn"]:
            nd = dict(nd, name="dynamic", kwargs=[["is", lit(nd["name"])]] + nd["kwargs"])
        return nd
    out = dict(prog)
    out["lib"] = [dict(d, template=map_nodes(d["template"], fix)) for d in prog["lib"]]
    if "page" in prog["entry"]:
        out["entry"] = {"page": map_nodes(prog["entry"]["page"], fix)}
    return out


# ------------------------------------------------------------------ the real code

def pyval(v):
    if v is None:
        return None
    if "s" in v:
        return v["s"]
    if "l" in v:
        return [pyval(x) for x in v["l"]]
    if "d" in v:
        return {k: pyval(x) for k, x in v["d"]}
    return v["b"]


class UserFault0(ValueError):
    pass


class UserFault3(Exception):
    pass


class UserFault1(KeyError):
    """a KeyError whose first argument is not a string"""


def make_fault(c):
    if c == 0:
        return UserFault0("boom")
    if c == 1:
        return UserFault1(5)
    if c == 2:
        return OSError(2, "x")
    if c == 3:
        return UserFault3("line one\nline two")
    return ValueError("m")


class IdBox:
    """Component.id as an opaque value: prints, is truthy, iterates over nothing (ids have different
    spellings in the model and in the code, so templates must not look inside them)"""

    def __init__(self, rid):
        self.rid = rid

    def __str__(self):
        return "ID" + self.rid + "Z"

    def __repr__(self):
        return "?"

    def __bool__(self):
        return True

    def __len__(self):
        return 0

    def __iter__(self):
        return iter(())


class Diverged(Exception):
    """more component instances than any terminating generated program produces"""


MAX_INST = 150


class Recorder:
    def __init__(self, raise_at=None, cap=MAX_INST):
        self.events = []
        self.raise_at = raise_at
        self.alive = []
        self.cap = cap
        self.gcds = 0

    def tick(self, ev):
        if ev[0] == "gcd":
            if self.cap is not None and self.gcds >= self.cap:
                raise Diverged()
            self.gcds += 1
        i = len(self.events)
        self.events.append(ev)
        if self.raise_at is not None and self.raise_at[0] == i:
            raise make_fault(self.raise_at[1])


_counter = [0]


def _seq_id():
    _counter[0] += 1
    return "q%05d" % _counter[0]


_ORIG_GEN_ID = {}


def patch_ids():
    import django_components.component as C
    import django_components.node as N
    import django_components.provide as P
    import django_components.util.misc as M
    for m in (C, N, P, M):
        if getattr(m, "gen_id", None) is not _seq_id:
            _ORIG_GEN_ID.setdefault(m.__name__, getattr(m, "gen_id", None))
            m.gen_id = _seq_id


def unpatch_ids():
    """put the library's own id generator back (stream `real-ids` of C14)"""
    import sys
    for name, fn in _ORIG_GEN_ID.items():
        if fn is not None and name in sys.modules:
            sys.modules[name].gen_id = fn


CENSUS = ["component_context_cache", "component_renderer_cache", "child_component_attrs",
          "provide_cache", "provide_references", "all_reference_ids"]


def census_objs():
    import django_components.perfutil.component as PC
    import django_components.perfutil.provide as PP
    return {"component_context_cache": PC.component_context_cache, "component_renderer_cache": PC.component_renderer_cache,
            "child_component_attrs": PC.child_component_attrs, "provide_cache": PP.provide_cache,
            "provide_references": PP.provide_references, "all_reference_ids": PP.all_reference_ids}


def census():
    return {k: len(v) for k, v in census_objs().items()}


def clear_census():
    for v in census_objs().values():
        v.clear()


def set_mode(isolated):
    from django.conf import settings
    comps = dict(getattr(settings, "COMPONENTS", {}))
    comps["context_behavior"] = "isolated" if isolated else "django"
    settings.COMPONENTS = comps


_SIDE = {}


def side_render():
    """a complete, independent render of other components from inside user code; its result is dropped"""
    from django_components import Component, registry
    if not _SIDE:
        class SideInner(Component):
            template = "<i>in</i>x"

        class SideOuter(Component):
            template = '<div>side</div>{% component "verif_side_inner" %}{% endcomponent %}<b>t</b>'
        _SIDE["outer"] = SideOuter
        _SIDE["inner"] = SideInner
    from django_components import registry as reg
    if "verif_side_inner" not in reg.all():
        reg.register("verif_side_inner", _SIDE["inner"])
    return _SIDE["outer"].render()


_OWN = {}


def own_tag(isolated):
    return "vcompi" if isolated else "vcompd"


def own_registry(isolated):
    if isolated not in _OWN:
        from django.template import Engine, Library
        from django_components import ComponentRegistry, RegistrySettings
        from django_components.components.dynamic import DynamicComponent
        from django_components.tag_formatter import ComponentFormatter
        lib = Library()
        reg = ComponentRegistry(library=lib, settings=RegistrySettings(
            context_behavior="isolated" if isolated else "django", tag_formatter=ComponentFormatter(own_tag(isolated))))
        Engine.get_default().template_builtins.append(lib)
        reg.register("dynamic", DynamicComponent)
        _OWN[isolated] = reg
    return _OWN[isolated]


class Built:
    """the real Component classes of a program, registered under their names"""

    def __init__(self, prog, rec):
        from django_components import Component, registry
        self.registry = registry
        self.library = None
        if prog.get("own_registry"):
            # a registry of its own whose context_behavior is the program's, while the global setting is the opposite.
            # One such registry per mode for the whole process: the library keeps a process-wide map from start tag
            # to registry (component_node_subclasses_by_name), so a tag cannot move to another registry.
            import django_components.cache as DC
            DC.template_cache = None          # cached Templates are bound to the registry they were parsed with
            self.registry = registry = own_registry(prog["isolated"])
            self.library = registry.library
        self.names = []
        self.classes = {}
        self.hash2name = {}
        for d in prog["lib"]:
            base = self.classes[d["base"]] if d.get("base") else Component
            cls = self._make(base, d, rec)
            registry.register(d["name"], cls)
            self.names.append(d["name"])
            self.classes[d["name"]] = cls
            self.hash2name[cls._class_hash] = d["name"]
        try:
            from django_components.components.dynamic import DynamicComponent
            self.hash2name[DynamicComponent._class_hash] = "dynamic"
        except Exception:
            pass

    @staticmethod
    def _make(Component, d, rec):
        data = d["data"]
        src = p_nodes(d["template"])

        def get_context_data(self, *args, **kwargs):
            rec.tick(["gcd", self.id])
            out = {}
            for name, s in data:
                if "kwarg" in s:
                    out[name] = kwargs.get(s["kwarg"], "")
                elif "const" in s:
                    out[name] = pyval(s["const"])
                elif "inject" in s:
                    rec.tick(["inject", self.id, s["inject"]])
                    out[name] = self.inject(s["inject"], s.get("dflt"))
                elif "side" in s:
                    side_render()
                    out[name] = ""
                else:
                    out[name] = IdBox(self.id)
            return out

        def on_render_before(self, context, template):
            rec.tick(["before", self.id])

        def on_render_after(self, context, template, content):
            rec.tick(["after", self.id])
            return None

        attrs = {"template": src, "get_context_data": get_context_data, "on_render_before": on_render_before,
                 "on_render_after": on_render_after, "__module__": "harness.tplgen"}
        attrs.update(d.get("pyattrs", {}))
        bases = (Component,)
        if d.get("mixins"):
            from django_components import Component as RealComponent
            mix = tuple(type("Mix%d_%s" % (j, d.get("clsname") or d["name"]), (RealComponent,),
                             {"Media": type("Media", (), {"js": list(m["mjs"]), "css": list(m["mcss"])}), "__module__": "harness.tplgen"})
                        for j, m in enumerate(d["mixins"]))
            bases = mix if Component is RealComponent else (Component,) + mix
        return type(d.get("clsname") or ("Gen_" + d["name"]), bases, attrs)

    def close(self):
        for n in self.names:
            try:
                self.registry.unregister(n)
            except Exception:
                pass
        if self.library is not None:
            import django_components.cache as DC
            DC.template_cache = None


ERRMAP = [("TemplateSyntaxError", "TemplateSyntaxError"), ("NotRegistered", "NotRegistered"), ("KeyError", "KeyError"),
          ("TypeError", "TypeError"), ("RuntimeError", "RuntimeError"), ("AttributeError", "AttributeError"),
          ("RecursionError", "RecursionError")]


def err_enum(e):
    if isinstance(e, UserFault0):
        return "User:0"
    if isinstance(e, UserFault3):
        return "User:3"
    if isinstance(e, UserFault1):
        return "User:1"
    name = type(e).__name__
    if isinstance(e, core.Hang):
        return "HANG"
    if isinstance(e, Diverged):
        return "DIVERGED"
    if isinstance(e, OSError):
        return "User:2"
    for k, v in ERRMAP:
        if name == k:
            return v
    return name


def _py_slots(entry):
    """the `slots=` argument of Component.render: plain strings, or (entry["slot_mode"]) `Slot` objects — nameless, or
    already carrying the name of *another* slot / component (a slot forwarded from elsewhere)"""
    mode = entry.get("slot_mode")
    if not mode:
        return {k: s for k, s in entry["slots"]}
    from django_components.slots import Slot
    out = {}
    for k, s in entry["slots"]:
        fn = (lambda ctx, data, ref, s=s: s)
        if mode == "slotobj":
            out[k] = Slot(fn)
        else:
            out[k] = Slot(fn, component_name="Elsewhere", slot_name=("title" if k != "title" else "footer"))
    return out


def run_real(prog, keep=None, census_clear=True, entry=None, limit=10.0, reset_ids=True):
    """one render of the real code; returns dict(out=str|None, err=enum|None, events, residue, exc)"""
    from django.template import Context, Template
    patch_ids()
    if reset_ids:
        _counter[0] = 0
    if census_clear:
        clear_census()
    set_mode(prog["isolated"] if not prog.get("own_registry") else not prog["isolated"])
    rec = Recorder(tuple(prog["raise"]) if prog.get("raise") else None)
    COMP_TAG[0] = own_tag(prog["isolated"]) if prog.get("own_registry") else "component"
    try:
        built = Built(prog, rec)
    except Exception:
        COMP_TAG[0] = "component"
        raise
    res = {"out": None, "err": None, "exc": None}
    try:
        entry = entry or prog["entry"]
        try:
          with core.time_limit(limit):
              if "page" in entry:
                  src = p_nodes(entry["page"])
                  res["src"] = src
                  ctx = Context({k: pyval(v) for k, v in prog["ctx"]})
                  res["ctx_before"] = [dict(d) for d in ctx.dicts]
                  res["rc_before"] = len(ctx.render_context.dicts)
                  try:
                      res["out"] = str(Template(src).render(ctx))
                  finally:
                      res["ctx_after"] = [dict(d) for d in ctx.dicts]
                      res["rc_after"] = len(ctx.render_context.dicts)
              else:
                  cls = built.classes[entry["comp"]]
                  res["out"] = str(cls.render(
                      context={k: pyval(v) for k, v in prog["ctx"]},
                      kwargs={k: pyval(v) for k, v in entry["kwargs"]},
                      slots=_py_slots(entry),
                      render_dependencies=False))
        except Exception as e:  # noqa
            res["err"] = err_enum(e)
            res["exc"] = e
    finally:
        built.close()
        COMP_TAG[0] = "component"
    res["events"] = rec.events
    res["residue"] = census()
    res["hash2name"] = built.hash2name
    return res


# ------------------------------------------------------------------ canonical forms

MARKER_RE = re.compile(r"<!-- _RENDERED ([\w\-]+),(\w{6}),([\w\-]*),([\w\-]*) -->")
TOK_RE = re.compile(r"<!-- _RENDERED [^>]*? -->|</?\w+(?: [\w\-=\"]+)*>")


def canon_real(out, hash2name, drop_dynamic=False):
    """tokenise the real HTML: text, <tag attrs>, </tag>, marker; ids numbered by marker order.
    drop_dynamic: the dynamic wrapper is transparent (its marker and its id attributes are removed)"""
    ids = {}
    for m in MARKER_RE.finditer(out):
        if drop_dynamic and hash2name.get(m.group(1)) == "dynamic":
            ids[m.group(2)] = None
            continue
        ids.setdefault(m.group(2), len([v for v in ids.values() if v is not None]))
    parts = []
    pos = 0
    for m in TOK_RE.finditer(out):
        parts.append(("t", out[pos:m.start()]))
        pos = m.end()
        s = m.group(0)
        mm = MARKER_RE.fullmatch(s)
        if mm:
            if ids[mm.group(2)] is not None:
                parts.append(("m", hash2name.get(mm.group(1), mm.group(1)), ids[mm.group(2)]))
        elif s.startswith("</"):
            parts.append(("c", s[2:-1]))
        else:
            bits = s[1:-1].split(" ")
            attrs = []
            for a in bits[1:]:
                if a.endswith('=""'):
                    a = a[:-3]
                if a.startswith("data-djc-id-"):
                    rid = a[len("data-djc-id-"):]
                    if ids.get(rid, 0) is not None:
                        attrs.append("#%s" % ids.get(rid, "?" + rid))
                else:
                    attrs.append(a)
            parts.append(("o", bits[0], sorted(attrs)))
    parts.append(("t", out[pos:]))
    return _join(parts, lambda s: re.sub(r"ID(\w{6})Z", lambda m: "#%s" % ids.get(m.group(1), "?" + m.group(1)), s))


def canon_model(toks):
    ids = {}
    for t in toks:
        if t[0] == "m":
            ids.setdefault(t[2], len(ids))
    parts = []
    for t in toks:
        if t[0] == "t":
            parts.append(("t", t[1]))
        elif t[0] == "o":
            attrs = []
            for a in t[2]:
                if a.startswith("data-djc-id-"):
                    rid = int(a[len("data-djc-id-"):])
                    attrs.append("#%s" % ids.get(rid, "?%d" % rid))
                else:
                    attrs.append(a)
            parts.append(("o", t[1], sorted(attrs)))
        elif t[0] == "c":
            parts.append(("c", t[1]))
        elif t[0] == "m":
            parts.append(("m", t[1], ids[t[2]]))
        else:
            parts.append(("t", "<HOLE %s>" % t[1]))
    return _join(parts, lambda s: re.sub(r"ID(\d+)Z", lambda m: "#%s" % ids.get(int(m.group(1)), "?" + m.group(1)), s))


def _join(parts, fix_text):
    out = []
    for p in parts:
        if p[0] == "t":
            out.append(fix_text(p[1]))
        elif p[0] == "o":
            out.append("<" + " ".join([p[1]] + p[2]) + ">")
        elif p[0] == "c":
            out.append("</" + p[1] + ">")
        else:
            out.append("«%s#%s»" % (p[1], p[2]))
    return "".join(out)


def canon_events(evs, real):
    ids = {}
    out = []
    for e in evs:
        rid = e[1]
        ids.setdefault(rid, len(ids))
        out.append([e[0], ids[rid]] + list(e[2:]))
    return out


def model_err(e):
    return None if e is None else e.split(":")[0] if not e.startswith("User") else e
