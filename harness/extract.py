"""
Source -> lean/Djc/Generated.lean  (DESIGN.md §4.1).

Everything that is a *table* in the code (literal lists, defaults, regex source strings, flags)
is re-read from the current working tree by walking the AST — never by importing — and written
as Lean definitions.  Theorems that mention these definitions are therefore re-checked against
what the code says now.  If a constant cannot be found (renamed, inlined) the last committed value
is kept, the name is reported under `missing`, and the caller escalates the correspondence.
"""
from __future__ import annotations

import ast
import json
import re
from pathlib import Path
from typing import Any, Dict, List, Optional

from . import core

SRC = lambda: core.REPO / "src" / "django_components"  # noqa: E731
GEN = core.LEAN / "Djc" / "Generated.lean"
LAST = core.VERIF / "harness" / "extracted_last.json"


def _parse(rel: str) -> ast.Module:
    return ast.parse((SRC() / rel).read_text())


def _lean_str(s: str) -> str:
    out = ['"']
    for ch in s:
        if ch == '"':
            out.append('\\"')
        elif ch == "\\":
            out.append("\\\\")
        elif ch == "\n":
            out.append("\\n")
        elif ch == "\t":
            out.append("\\t")
        elif ch == "\r":
            out.append("\\r")
        elif ord(ch) < 32 or ord(ch) == 127:
            out.append("\\x%02x" % ord(ch))
        else:
            out.append(ch)
    out.append('"')
    return "".join(out)


def _lean_str_list(xs: List[str]) -> str:
    return "[" + ", ".join(_lean_str(x) for x in xs) + "]"


def _find_call_kwargs(mod: ast.Module, target: str) -> Optional[Dict[str, ast.expr]]:
    """`target = Call(..., k=v ...)` at module level -> {k: v-node}."""
    for node in mod.body:
        if isinstance(node, (ast.Assign, ast.AnnAssign)):
            names = []
            if isinstance(node, ast.Assign):
                names = [t.id for t in node.targets if isinstance(t, ast.Name)]
            elif isinstance(node.target, ast.Name):
                names = [node.target.id]
            if target in names and isinstance(node.value, ast.Call):
                return {k.arg: k.value for k in node.value.keywords if k.arg}
    return None


def _module_assign(mod: ast.Module, name: str) -> Optional[ast.expr]:
    for node in mod.body:
        if isinstance(node, ast.Assign):
            if any(isinstance(t, ast.Name) and t.id == name for t in node.targets):
                return node.value
        if isinstance(node, ast.AnnAssign) and isinstance(node.target, ast.Name) and node.target.id == name:
            return node.value
    return None


def _literal(node: Optional[ast.expr]) -> Any:
    if node is None:
        raise KeyError
    return ast.literal_eval(node)


def _regex_source(node: Optional[ast.expr]) -> Dict[str, Any]:
    """re.compile(<str-ish>, flags?) -> {"pattern": str or None, "flags": [names]}"""
    if not isinstance(node, ast.Call):
        raise KeyError
    flags: List[str] = []
    for a in list(node.args[1:]) + [k.value for k in node.keywords]:
        for n in ast.walk(a):
            if isinstance(n, ast.Attribute):
                flags.append(n.attr)
    pat = None
    try:
        v = ast.literal_eval(node.args[0])
        pat = v.decode("latin-1") if isinstance(v, bytes) else v
    except Exception:
        pat = ast.unparse(node.args[0])
    return {"pattern": pat, "flags": sorted(flags)}


def extract_values() -> Dict[str, Any]:
    """All extracted values as plain JSON-able data; missing ones are absent."""
    vals: Dict[str, Any] = {}
    missing: List[str] = []

    def attempt(name: str, fn):
        try:
            vals[name] = fn()
        except Exception:
            missing.append(name)

    # --- app_settings.defaults ---------------------------------------------------------------
    try:
        settings_mod = _parse("app_settings.py")
        dkw = _find_call_kwargs(settings_mod, "defaults") or {}
    except Exception:
        dkw = {}
    attempt("static_files_allowed", lambda: [x for x in _literal(dkw.get("static_files_allowed")) if isinstance(x, str)])
    attempt("static_files_forbidden", lambda: [x for x in _literal(dkw.get("static_files_forbidden")) if isinstance(x, str)])
    attempt("template_cache_size", lambda: _literal(dkw.get("template_cache_size")))
    attempt("multiline_tags", lambda: _literal(dkw.get("multiline_tags")))
    attempt("app_dirs", lambda: _literal(dkw.get("app_dirs")))
    attempt("dynamic_component_name", lambda: _literal(dkw.get("dynamic_component_name")))

    def ctx_default():
        n = dkw.get("context_behavior")
        # ContextBehavior.DJANGO.value
        src = ast.unparse(n)
        m = re.search(r"ContextBehavior\.(\w+)", src)
        return m.group(1).lower() if m else _literal(n)

    attempt("context_behavior", ctx_default)

    # --- library.PROTECTED_TAGS -------------------------------------------------------------------
    def protected():
        return list(_literal(_module_assign(_parse("library.py"), "PROTECTED_TAGS")))

    attempt("protected_tags", protected)

    # --- dependencies.py regexes / constants ----------------------------------------------------
    try:
        deps = _parse("dependencies.py")
    except Exception:
        deps = ast.Module(body=[], type_ignores=[])
    for nm in ("COMPONENT_COMMENT_REGEX", "SCRIPT_NAME_REGEX", "PLACEHOLDER_REGEX"):
        attempt("re_" + nm, lambda nm=nm: _regex_source(_module_assign(deps, nm)))
    for nm in ("CSS_PLACEHOLDER_NAME", "JS_PLACEHOLDER_NAME", "COMPONENT_DEPS_COMMENT"):
        attempt(nm, lambda nm=nm: _literal(_module_assign(deps, nm)))

    def head_body_re():
        for node in ast.walk(deps):
            if isinstance(node, ast.Assign) and any(
                isinstance(t, ast.Name) and t.id == "head_or_body_end_tag_re" for t in node.targets
            ):
                return _regex_source(node.value)
        raise KeyError

    attempt("re_head_or_body_end_tag", head_body_re)

    # --- tag parser tables ----------------------------------------------------------------------
    try:
        tp = _parse("util/tag_parser.py")
    except Exception:
        tp = ast.Module(body=[], type_ignores=[])
    for nm in ("TAG_WHITESPACE", "TAG_FILTER", "TAG_SPREAD"):
        def f(nm=nm):
            v = _literal(_module_assign(tp, nm))
            return sorted(v) if isinstance(v, (set, frozenset)) else list(v) if isinstance(v, (tuple, list)) else v
        attempt(nm, f)

    # --- slots / context constants ----------------------------------------------------------------
    try:
        sl = _parse("slots.py")
        for nm in ("DEFAULT_SLOT_KEY", "FILL_GEN_CONTEXT_KEY", "SLOT_DATA_KWARG", "SLOT_NAME_KWARG", "SLOT_DEFAULT_KWARG",
                   "SLOT_REQUIRED_KEYWORD", "SLOT_DEFAULT_KEYWORD"):
            attempt(nm, lambda nm=nm: _literal(_module_assign(sl, nm)))
    except Exception:
        pass
    try:
        cx = _parse("context.py")
        for nm in ("_COMPONENT_CONTEXT_KEY", "_INJECT_CONTEXT_KEY_PREFIX"):
            attempt(nm, lambda nm=nm: _literal(_module_assign(cx, nm)))
    except Exception:
        pass

    # --- finders._is_path_valid: how a suffix becomes a regex ------------------------------------
    def suffix_regex_expr():
        fm = _parse("finders.py")
        for node in ast.walk(fm):
            if isinstance(node, ast.FunctionDef) and node.name == "_is_path_valid":
                return ast.unparse(node)
        raise KeyError

    attempt("src_is_path_valid", suffix_regex_expr)

    return {"values": vals, "missing": missing}


def render_lean(vals: Dict[str, Any]) -> str:
    g = vals.get
    lines = [
        "/-",
        "  GENERATED by harness/extract.py from the sources under /repo on every check run.",
        "  Do not edit: theorems that mention these constants are re-checked against the code.",
        "-/",
        "namespace Djc.Generated",
        "",
        f"def staticFilesAllowed : List String := {_lean_str_list(g('static_files_allowed', []))}",
        f"def staticFilesForbidden : List String := {_lean_str_list(g('static_files_forbidden', []))}",
        f"def protectedTags : List String := {_lean_str_list(g('protected_tags', []))}",
        f"def templateCacheSize : Option Nat := {('some ' + str(max(int(g('template_cache_size')), 0))) if isinstance(g('template_cache_size'), int) else 'none'}",
        f"def multilineTags : Bool := {'true' if g('multiline_tags', True) else 'false'}",
        f"def contextBehaviorDefault : String := {_lean_str(str(g('context_behavior', 'django')))}",
        f"def dynamicComponentName : String := {_lean_str(str(g('dynamic_component_name', 'dynamic')))}",
        f"def appDirs : List String := {_lean_str_list([str(x) for x in g('app_dirs', [])])}",
        f"def tagWhitespace : List Char := {_lean_str(''.join(g('TAG_WHITESPACE', [])))}.toList",
        f"def tagFilter : List String := {_lean_str_list(list(g('TAG_FILTER', [])))}",
        f"def tagSpread : List String := {_lean_str_list(list(g('TAG_SPREAD', [])))}",
        f"def headBodyEndTagIgnoreCase : Bool := {'true' if 'IGNORECASE' in (g('re_head_or_body_end_tag') or {}).get('flags', []) or 'I' in (g('re_head_or_body_end_tag') or {}).get('flags', []) else 'false'}",
        f"def headBodyEndTagPattern : String := {_lean_str(str((g('re_head_or_body_end_tag') or {}).get('pattern')))}",
        f"def placeholderPattern : String := {_lean_str(str((g('re_PLACEHOLDER_REGEX') or {}).get('pattern')))}",
        f"def componentCommentPattern : String := {_lean_str(str((g('re_COMPONENT_COMMENT_REGEX') or {}).get('pattern')))}",
        f"def defaultSlotKey : String := {_lean_str(str(g('DEFAULT_SLOT_KEY', 'default')))}",
        f"def componentContextKey : String := {_lean_str(str(g('_COMPONENT_CONTEXT_KEY', '')))}",
        f"def injectContextKeyPrefix : String := {_lean_str(str(g('_INJECT_CONTEXT_KEY_PREFIX', '')))}",
        "",
        "end Djc.Generated",
        "",
    ]
    return "\n".join(lines)


def regenerate() -> Dict[str, Any]:
    res = extract_values()
    vals = dict(res["values"])
    last: Dict[str, Any] = {}
    if LAST.exists():
        try:
            last = json.loads(LAST.read_text())
        except Exception:
            last = {}
    for k in res["missing"]:
        if k in last:
            vals[k] = last[k]
    text = render_lean(vals)
    if not GEN.exists() or GEN.read_text() != text:
        GEN.write_text(text)
    small = {k: v for k, v in vals.items() if not k.startswith("src_")}
    return {"values": small, "missing": res["missing"], "all": vals}


def write_last() -> None:
    """Development helper: commit the currently extracted values as the fallback."""
    res = extract_values()
    LAST.write_text(json.dumps(res["values"], indent=1, sort_keys=True) + "\n")


if __name__ == "__main__":
    write_last()
    r = regenerate()
    print(json.dumps({"missing": r["missing"], "values": r["values"]}, indent=1)[:4000])
