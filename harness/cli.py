"""./check <property> [--tier quick|thorough] [--replay FILE]"""
from __future__ import annotations

import argparse
import importlib
import json
import os
import sys
import traceback

from . import core


def main() -> int:
    ap = argparse.ArgumentParser()
    ap.add_argument("prop")
    ap.add_argument("--tier", default=os.environ.get("VERIF_TIER", "quick"), choices=["quick", "thorough"])
    ap.add_argument("--replay", default=None)
    a = ap.parse_args()
    prop = a.prop.upper()
    try:
        mod = importlib.import_module(f"harness.props.{prop.lower()}")
    except ModuleNotFoundError as e:
        print(f"no check for {prop}: {e}", file=sys.stderr)
        return 2
    try:
        if a.replay:
            doc = json.loads(open(a.replay).read())
            if not hasattr(mod, "replay"):
                # no automatic re-execution for this property: show the recorded case, which names the exact
                # input, what the real code did and what the model / property say
                print(f"{prop}: recorded case (re-run `./check {prop}` with VERIF_SEED={doc.get('seed')} to reproduce):")
                print(json.dumps({k: doc.get(k) for k in ("kind", "stream", "input", "impl", "model", "spec", "note", "unchecked")},
                                 indent=1, ensure_ascii=False, default=str)[:8000])
                return 1 if doc.get("kind") == "impl-violates-spec" else 2
            return int(mod.replay(doc))
        return int(mod.run(a.tier))
    except core.InfraError as e:
        print(f"INFRA-ERROR [{prop}]: {e}", file=sys.stderr)
        return 2
    except Exception:
        traceback.print_exc()
        print(f"INFRA-ERROR [{prop}]: harness crashed (see traceback)", file=sys.stderr)
        return 2


if __name__ == "__main__":
    sys.exit(main())
