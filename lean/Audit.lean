/-
  Audit: for the property module named in the environment variable DJC_AUDIT_MODULE
  (e.g. `Djc.Props.C18`), print every theorem it declares together with the axioms its
  proof depends on.  Used by `harness/core.py` on every run.
  usage: DJC_AUDIT_MODULE=Djc.Props.C18 lake env lean Audit.lean
-/
import Lean
import Djc
open Lean Elab Command

run_cmd do
  let some modStr ← (IO.getEnv "DJC_AUDIT_MODULE" : IO (Option String))
    | throwError "DJC_AUDIT_MODULE not set"
  let modName := modStr.splitOn "." |>.foldl (fun n s => Name.str n s) Name.anonymous
  let env ← getEnv
  let some idx := env.getModuleIdx? modName
    | throwError "module {modName} not imported by Djc"
  let md := env.header.moduleData[idx.toNat]!
  for n in md.constNames do
    if n.isInternal then continue
    match env.find? n with
    | some (.thmInfo _) =>
      let axs ← collectAxioms n
      IO.println s!"THEOREM {n} AXIOMS {axs.toList}"
    | some (.defnInfo _) =>
      -- `def Cxx_full : Prop := …` open statements are reported, never counted
      if (n.toString.endsWith "_full") || (n.toString.endsWith "_open") then IO.println s!"OPEN {n}"
    | _ => pure ()
