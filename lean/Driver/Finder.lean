import Driver.Util
import Djc.Model.Finder
open Lean Djc.Model.Finder

namespace Driver.FinderD

def parsePat (j : Json) : Except String Pat := do
  match ← Driver.asArr j with
  | [Json.str "s", v] => pure (.suffix (← Driver.asStr v).toList)
  | [Json.str "r", v] => pure (.regex (← Driver.asNat v))
  | _ => throw "bad pat"

def parseComps (j : Json) : Except String (List (List Char)) := do
  (← Driver.asArr j).mapM fun c => do pure (← Driver.asStr c).toList

def compsJson (cs : List (List Char)) : Json := Driver.jarr (cs.map fun c => Json.str (String.ofList c))

def handle (j : Json) : Except String Json := do
  let allowed ← (← Driver.getArr j "allowed").mapM parsePat
  let forbidden ← (← Driver.getArr j "forbidden").mapM parsePat
  let tbl ← (← Driver.getArr j "rxtrue").mapM fun e => do
    match ← Driver.asArr e with
    | [i, p] => pure ((← Driver.asNat i), (← Driver.asStr p).toList)
    | _ => throw "bad rx entry"
  let rx : Nat → List Char → Bool := fun i p => tbl.contains (i, p)
  let root ← parseComps (← j.getObjVal? "root")
  let files ← (← Driver.getArr j "files").mapM parseComps
  let queries ← (← Driver.getArr j "queries").mapM fun q => do
    pure ((← Driver.getBool q "abs"), ← parseComps (← q.getObjVal? "path"))
  let finds := queries.map fun (a, p) =>
    match find rx allowed forbidden root files a p with
    | none => Json.null
    | some q => compsJson q
  pure <| Json.mkObj [
    ("list", Driver.jarr ((list rx allowed forbidden files).map compsJson)),
    ("find", Driver.jarr finds)]

end Driver.FinderD
