import Driver.Util
import Djc.Model.Media
open Lean Djc.Model.Media Djc.AList

namespace Driver.MediaD

def parseFile (j : Json) : Except String File := do
  match ← Driver.asArr j with
  | [t, p] => pure ((← Driver.asStr t).toList, (← Driver.asStr p).toList)
  | _ => throw "bad file"

def parseExt (j : Json) : Except String Ext :=
  match j with
  | Json.str "all" => pure .all
  | Json.str "none" => pure .none
  | v => do
    let ids ← (← Driver.asArr v).mapM Driver.asNat
    pure (.only ids)

def parseOwn (j : Json) : Except String (Option MediaDecl) :=
  match j with
  | Json.null => pure none
  | v => do
    let files ← (← Driver.getArr v "files").mapM parseFile
    let ext ← parseExt (← v.getObjVal? "extend")
    pure (some { files := files, extend := ext })

def parseCls (j : Json) : Except String ClsDecl := do
  let bases ← (← Driver.getArr j "bases").mapM Driver.asNat
  let own ← parseOwn (← j.getObjVal? "own")
  let eff ← Driver.getOptNat j "eff"
  pure { bases := bases, own := own, eff := eff }

def filesJson (fs : List File) : Json :=
  Driver.jarr (fs.map fun (t, p) => Driver.jarr [Json.str (String.ofList t), Json.str (String.ofList p)])

def handle (j : Json) : Except String Json := do
  let H ← (← Driver.getArr j "hier").mapM parseCls
  let accesses ← (← Driver.getArr j "accesses").mapM Driver.asNat
  let mut cache : List (Nat × List File) := []
  let mut outs : List Json := []
  for i in accesses do
    let r := getMedia H 100000 cache i
    cache := r.2
    outs := (match r.1 with
      | none => Json.null
      | some fs => filesJson fs) :: outs
  pure <| Json.mkObj [("out", Driver.jarr outs.reverse),
    ("cached", Driver.jarr (cache.map fun (k, _) => Driver.jnat k))]

def parsePair (j : Json) : Except String PairDecl := do
  let o (k : String) : Except String (Option Str) := do
    match ← j.getObjVal? k with
    | Json.null => pure none
    | v => pure (some (← Driver.asStr v).toList)
  pure { inline := ← o "inline", file := ← o "file" }

def handleAttr (j : Json) : Except String Json := do
  let mro ← (← Driver.getArr j "mro").mapM parsePair
  let s (o : Option Str) : Json := match o with
    | none => Json.null
    | some x => Json.str (String.ofList x)
  pure <| Json.mkObj [("inline", s (attrLookup mro false)), ("file", s (attrLookup mro true)),
    ("rejected", Driver.jarr (mro.map fun p => Json.bool (pairRejected p)))]

end Driver.MediaD
