import Driver.Util
import Djc.Model.Attrs
import Djc.Spec.Html
open Lean Djc.Model.Attrs

namespace Driver.AttrsD

def parseVal (j : Json) : Except String Val := do
  match ← Driver.asArr j with
  | [Json.str "s", v] => pure (.str (← Driver.asStr v).toList)
  | [Json.str "safe", v] => pure (.safe (← Driver.asStr v).toList)
  | [Json.str "n", v] => pure (.num (← Driver.asNat v))
  | [Json.str "t"] => pure .tt
  | [Json.str "f"] => pure .ff
  | [Json.str "none"] => pure .none
  | _ => throw "bad val"

def parsePairs (j : Json) (k : String) : Except String (List (Str × Val)) := do
  (← Driver.getArr j k).mapM fun e => do
    match ← Driver.asArr e with
    | [n, v] => pure ((← Driver.asStr n).toList, ← parseVal v)
    | _ => throw "bad pair"

def parsedJson (xs : List (Djc.Spec.Html.Str × Option Djc.Spec.Html.Str)) : Json :=
  Driver.jarr (xs.map fun (n, v) =>
    Driver.jarr [Json.str (String.ofList n), match v with
      | none => Json.null
      | some s => Json.str (String.ofList s)])

def handle (j : Json) : Except String Json := do
  let d ← parsePairs j "defaults"
  let a ← parsePairs j "attrs"
  let k ← parsePairs j "kwargs"
  let sp ← (← Driver.getArr j "special").mapM Driver.asStr
  let special : Str → Bool := fun x => sp.contains (String.ofList x)
  match htmlAttrsTag special d a k with
  | .error _ => pure <| Json.mkObj [("err", Json.str "TypeError")]
  | .ok s => pure <| Json.mkObj [("out", Json.str (String.ofList s)),
                                 ("parsed", parsedJson (Djc.Spec.Html.parseAttrs s))]

def handleParse (j : Json) : Except String Json := do
  let s := (← Driver.getStr j "s").toList
  pure <| Json.mkObj [("parsed", parsedJson (Djc.Spec.Html.parseAttrs s))]

def parseContent (j : Json) : Except String Content := do
  match ← Driver.asArr j with
  | [Json.str "plain", s] => pure (.plain (← Driver.asStr s).toList)
  | [Json.str "safe", s] => pure (.safeS (← Driver.asStr s).toList)
  | [Json.str "fn", s, safe] => pure (.fn { text := (← Driver.asStr s).toList, safe := ← safe.getBool? })
  | [Json.str "slot", s, safe] =>
    pure (.slot { escaped := false, named := false, yield := { text := (← Driver.asStr s).toList, safe := ← safe.getBool? } })
  | _ => throw "bad content"

def handleSlot (j : Json) : Except String Json := do
  let c ← parseContent (← j.getObjVal? "content")
  let flag ← Driver.getBool j "flag"
  let re ← (← Driver.getArr j "repass").mapM fun b => b.getBool?
  let v := repass re (normalize flag c)
  pure <| Json.mkObj [("out", Json.str (String.ofList (output v)))]

def handleGuard (j : Json) : Except String Json := do
  let isJs ← Driver.getBool j "js"
  let c := (← Driver.getStr j "content").toList
  match wrapScript isJs c with
  | none => pure <| Json.mkObj [("refused", Json.bool true)]
  | some s => pure <| Json.mkObj [("refused", Json.bool false), ("out", Json.str (String.ofList s))]

end Driver.AttrsD
