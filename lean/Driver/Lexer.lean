import Driver.Util
import Djc.Model.Lexer
open Lean Djc.Model.Lexer

namespace Driver.LexerD

def typStr : TokType → String
  | .text => "TEXT" | .var => "VAR" | .block => "BLOCK" | .comment => "COMMENT"

def tokJson (t : Tok) : Json :=
  Driver.jarr [Json.str (typStr t.typ), Json.str (String.ofList t.contents), Driver.jnat t.start,
    Driver.jnat t.stop, Driver.jnat t.lineno]

def handle (j : Json) : Except String Json := do
  let dotall ← Driver.getBool j "dotall"
  let src := (← Driver.getStr j "src").toList
  let stock := stockLex dotall src
  let res := match parseTemplate dotall src with
    | .ok toks => Json.mkObj [("ok", Driver.jarr (toks.map tokJson))]
    | .error .unterminatedString => Json.mkObj [("err", Json.str "unterminated-string")]
    | .error .unterminatedTag => Json.mkObj [("err", Json.str "unterminated-tag")]
  pure <| Json.mkObj [("parsed", res), ("stock", Driver.jarr (stock.map tokJson))]

end Driver.LexerD
