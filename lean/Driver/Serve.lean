import Driver.Util
import Djc.Model.Serve
open Lean Djc.Model.Serve

namespace Driver.ServeD

def optStr (j : Json) : Except String (Option Str) :=
  match j with
  | Json.null => pure none
  | v => do pure (some (← Driver.asStr v).toList)

def respJson : Resp → Json
  | .ok b ct => Json.mkObj [("status", Driver.jnat 200), ("body", Json.str (String.ofList b)), ("ct", Json.str (String.ofList ct))]
  | .notFound => Json.mkObj [("status", Driver.jnat 404)]
  | .notAllowed => Json.mkObj [("status", Driver.jnat 405)]
  | .serverError => Json.mkObj [("status", Driver.jnat 500)]

def handle (j : Json) : Except String Json := do
  let ops ← Driver.getArr j "ops"
  let mut s : State := { classes := [], cache := [] }
  let mut outs : List Json := []
  for o in ops do
    match ← Driver.asArr o with
    | [Json.str "define", h, js, css] =>
      s := step s (.define (← Driver.asStr h).toList { js := ← optStr js, css := ← optStr css })
      outs := Json.null :: outs
    | [Json.str "render", h, ji, ci] =>
      let r := render s (← Driver.asStr h).toList (← optStr ji) (← optStr ci)
      s := r.1
      outs := Driver.jarr (r.2.map fun u => Json.str (String.ofList u)) :: outs
    | [Json.str "clear"] =>
      s := step s .clearCache
      outs := Json.null :: outs
    | [Json.str "get", p, g] =>
      outs := respJson (serve s (← Driver.asStr p).toList (← g.getBool?)) :: outs
    | _ => throw "bad serve op"
  pure <| Json.mkObj [("out", Driver.jarr outs.reverse),
    ("cache", Driver.jarr (s.cache.map fun (k, v) => Driver.jarr [Json.str (String.ofList k), Json.str (String.ofList v)]))]

end Driver.ServeD
