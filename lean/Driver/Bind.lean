import Driver.Util
import Djc.Model.Bind
open Lean Djc.Model.Bind

namespace Driver.BindD

def parseParam (j : Json) : Except String (Param String) := do
  match ← Driver.asArr j with
  | [n, Json.null] => pure { name := ← Driver.asStr n, dflt := none }
  | [n, d] => pure { name := ← Driver.asStr n, dflt := some (← Driver.asNat d) }
  | _ => throw "bad param"

def parseOptStr (j : Json) (k : String) : Except String (Option String) := do
  match ← j.getObjVal? k with
  | Json.null => pure none
  | v => pure (some (← Driver.asStr v))

def parseSig (j : Json) : Except String (Sig String) := do
  pure {
    posonly := ← (← Driver.getArr j "posonly").mapM parseParam,
    poskw := ← (← Driver.getArr j "poskw").mapM parseParam,
    varargs := ← parseOptStr j "varargs",
    kwonly := ← (← Driver.getArr j "kwonly").mapM parseParam,
    varkw := ← parseOptStr j "varkw" }

def parseArg (j : Json) : Except String (Arg String) := do
  match ← Driver.asArr j with
  | [Json.null, v] => pure (.pos (← Driver.asNat v))
  | [k, v] => pure (.kw (← Driver.asStr k) (← Driver.asNat v))
  | _ => throw "bad arg"

def sortPairs (xs : List (String × Nat)) : List (String × Nat) :=
  (xs.toArray.qsort (fun a b => a.1 < b.1 || (a.1 == b.1 && a.2 < b.2))).toList

def resJson : Except Err (Binding String) → Json
  | .error .type => Json.mkObj [("err", Json.str "TypeError")]
  | .error .syntax => Json.mkObj [("err", Json.str "SyntaxError")]
  | .ok b => Json.mkObj [("ok", Json.mkObj [
      ("params", Driver.jarr (b.params.map fun (k, v) => Driver.jarr [Json.str k, Driver.jnat v])),
      ("varargs", Driver.jarr (b.varargs.map Driver.jnat)),
      ("varkw", Driver.jarr ((sortPairs b.varkw).map fun (k, v) => Driver.jarr [Json.str k, Driver.jnat v]))])]

def handle (j : Json) : Except String Json := do
  let s ← parseSig (← j.getObjVal? "sig")
  let args ← (← Driver.getArr j "args").mapM parseArg
  let sp ← (← Driver.getArr j "special").mapM Driver.asStr
  let special : String → Bool := fun k => sp.contains k
  pure <| Json.mkObj [
    ("py", resJson (pyCall s args)),
    ("code", resJson (tagCall .code special s args)),
    ("sig", resJson (tagCall .sig special s args))]

end Driver.BindD
