import Driver.Util
import Djc.Model.Registry
open Lean Djc.Model.Registry Djc.AList

namespace Driver.RegistryD

def parseOp (j : Json) : Except String (Op String String) := do
  let a ← Driver.asArr j
  match a with
  | [Json.str "register", n, c] => do pure (.register (← Driver.asStr n) (← Driver.asStr c))
  | [Json.str "unregister", n] => do pure (.unregister (← Driver.asStr n))
  | [Json.str "get", n] => do pure (.get (← Driver.asStr n))
  | [Json.str "all"] => pure .all
  | [Json.str "clear"] => pure .clear
  | _ => throw "bad registry op"

def outJson : Out String String → Json
  | .ok => Json.str "ok"
  | .cls c => Driver.jarr [Json.str "cls", Json.str c]
  | .all d => Driver.jarr [Json.str "all", Driver.jarr (d.map fun (n, c) => Driver.jarr [Json.str n, Json.str c])]
  | .alreadyRegistered => Json.str "AlreadyRegistered"
  | .notRegistered => Json.str "NotRegistered"
  | .tagProtected => Json.str "TagProtectedError"
  | .keyError => Json.str "KeyError"

def ownerJson : Owner → Json
  | .builtin i => Driver.jarr [Json.str "builtin", Driver.jnat i]
  | .component => Json.str "component"

def handle (j : Json) : Except String Json := do
  let fmtName ← Driver.getStr j "fmt"
  let fmt : String → String := if fmtName == "shorthand" then id else fun _ => "component"
  let lib0 ← (← Driver.getArr j "lib0").mapM Driver.asStr
  let prot ← (← Driver.getArr j "prot").mapM Driver.asStr
  let ops ← (← Driver.getArr j "ops").mapM parseOp
  let lib0' : List (String × Owner) := (lib0.zipIdx).map fun (t, i) => (t, Owner.builtin i)
  let r0 : Reg String String String := init lib0' prot fmt
  let os := outs r0 ops
  let r := run r0 ops
  pure <| Json.mkObj [
    ("out", Driver.jarr (os.map outJson)),
    ("all", Driver.jarr ((all r).map fun (n, c) => Driver.jarr [Json.str n, Json.str c])),
    ("tags", Driver.jarr (r.tags.map fun (t, ns) => Driver.jarr [Json.str t, Driver.jarr (ns.map Json.str)])),
    ("lib", Driver.jarr (r.lib.map fun (t, o) => Driver.jarr [Json.str t, ownerJson o]))]

end Driver.RegistryD
