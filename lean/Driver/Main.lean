import Driver.Util
import Driver.Lru
import Driver.Registry
import Driver.Bind
import Driver.Deps
import Driver.Finder
import Driver.Discover
import Driver.Attrs
import Driver.Serve
import Driver.Media
import Driver.Lexer
import Driver.TagParser
import Driver.Resolve
import Driver.Render
import Driver.Collect
open Lean

def dispatch (j : Json) : Except String Json := do
  let op ← Driver.getStr j "op"
  match op with
  | "lru" => Driver.LruD.handle j
  | "tmpl" => Driver.LruD.handleTmpl j
  | "registry" => Driver.RegistryD.handle j
  | "bind" => Driver.BindD.handle j
  | "deps" => Driver.DepsD.handle j
  | "middleware" => Driver.DepsD.handleMw j
  | "finder" => Driver.FinderD.handle j
  | "discover" => Driver.DiscoverD.handle j
  | "attrs" => Driver.AttrsD.handle j
  | "parseattrs" => Driver.AttrsD.handleParse j
  | "slotesc" => Driver.AttrsD.handleSlot j
  | "guard" => Driver.AttrsD.handleGuard j
  | "serve" => Driver.ServeD.handle j
  | "media" => Driver.MediaD.handle j
  | "mediaattr" => Driver.MediaD.handleAttr j
  | "lex" => Driver.LexerD.handle j
  | "parsetag" => Driver.TagParserD.handle j
  | "leaves" => Driver.ResolveD.handleLeaves j
  | "resolve" => Driver.ResolveD.handleResolve j
  | "collect" => Driver.CollectD.handle j
  | "flatten" => Driver.RenderD.handleFlatten j
  | "render" => Driver.RenderD.handle j
  | "specrender" => Driver.RenderD.handleSpec j
  | "ping" => pure (Json.mkObj [("pong", Json.bool true)])
  | _ => throw s!"unknown op {op}"

partial def loop (hin : IO.FS.Stream) (hout : IO.FS.Stream) : IO Unit := do
  let line ← hin.getLine
  if line.isEmpty then return ()
  let reply := match Json.parse line with
    | .error e => Json.mkObj [("error", Json.str s!"parse: {e}")]
    | .ok j => match dispatch j with
      | .ok r => r
      | .error e => Json.mkObj [("error", Json.str e)]
  hout.putStrLn reply.compress
  loop hin hout

def main : IO Unit := do
  let hin ← IO.getStdin
  let hout ← IO.getStdout
  loop hin hout
  hout.flush
