import Driver.Util
import Djc.Model.Render
import Djc.Spec.Render
import Djc.Model.Blocks
open Lean
open Djc.Tpl Djc.Render

namespace Driver.RenderD

def strOf (j : Json) : Except String Str := do pure (chars (← asStr j))

def optStr (j : Json) (k : String) : Except String (Option Str) := do
  match j.getObjVal? k with
  | .ok Json.null => pure none
  | .ok v => do pure (some (← strOf v))
  | .error _ => pure none

def exprOf (j : Json) : Except String Expr := do
  match j.getObjVal? "lit" with
  | .ok v => pure (.lit (← strOf v))
  | .error _ =>
    let p ← getArr j "var"
    pure (.var (← p.mapM strOf))

def kwOf (js : List Json) : Except String (List (Str × Expr)) :=
  js.mapM (fun kv => do
    let a ← asArr kv
    match a with
    | [k, e] => do pure ((← strOf k), (← exprOf e))
    | _ => throw "kw pair")

partial def nodeOf (j : Json) : Except String Node := do
  let t ← getStr j "t"
  let body (k : String) : Except String (List Node) := do (← getArr j k).mapM nodeOf
  match t with
  | "text" => pure (.text (chars (← getStr j "s")))
  | "out" => pure (.out (← exprOf (← j.getObjVal? "e")))
  | "if" => pure (.ifn (← exprOf (← j.getObjVal? "c")) (← body "a") (← body "b"))
  | "for" => pure (.forn (chars (← getStr j "x")) (← exprOf (← j.getObjVal? "e")) (← body "body"))
  | "with" => pure (.withn (chars (← getStr j "x")) (← exprOf (← j.getObjVal? "e")) (← body "body"))
  | "elem" => pure (.elem (chars (← getStr j "tag")) (← body "body"))
  | "slot" => pure (.slot (← exprOf (← j.getObjVal? "name")) (← getBool j "default") (← getBool j "required")
                      (← kwOf (← getArr j "data")) (← body "body"))
  | "fill" => pure (.fill (← exprOf (← j.getObjVal? "name")) (← optStr j "data") (← optStr j "dflt") (← body "body"))
  | "comp" => pure (.comp (chars (← getStr j "name")) (← kwOf (← getArr j "kwargs")) (← getBool j "only")
                      (← getBool j "dyn") (← body "body"))
  | "provide" => pure (.provide (chars (← getStr j "key")) (← kwOf (← getArr j "kwargs")) (← body "body"))
  | "block" => pure (.block (chars (← getStr j "name")) (← body "body"))
  | "super" => pure .blockSuper
  | "extends" => pure (.extends (chars (← getStr j "parent")))
  | "include" => pure (.includen (chars (← getStr j "name")))
  | _ => throw s!"node {t}"

partial def valOf (j : Json) : Except String Val := do
  match j with
  | Json.null => pure .none
  | _ =>
    match j.getObjVal? "s" with
    | .ok v => pure (.str (← strOf v))
    | .error _ =>
      match j.getObjVal? "l" with
      | .ok v => do pure (.list (← (← asArr v).mapM valOf))
      | .error _ =>
        match j.getObjVal? "d" with
        | .ok v => do
          let kvs ← (← asArr v).mapM (fun kv => do
            match (← asArr kv) with
            | [k, x] => do pure ((← strOf k), (← valOf x))
            | _ => throw "dict pair")
          pure (.dict kvs)
        | .error _ => do pure (.bool (← getBool j "b"))

def kvValsOf (js : List Json) : Except String (List (Str × Val)) :=
  js.mapM (fun kv => do
    match (← asArr kv) with
    | [k, x] => do pure ((← strOf k), (← valOf x))
    | _ => throw "kv pair")

def srcOf (j : Json) : Except String Src := do
  match j.getObjVal? "kwarg" with
  | .ok v => pure (.kwarg (← strOf v))
  | .error _ =>
    match j.getObjVal? "const" with
    | .ok v => pure (.const (← valOf v))
    | .error _ =>
      match j.getObjVal? "inject" with
      | .ok v => pure (.inject (← strOf v) (← optStr j "dflt"))
      | .error _ =>
        match j.getObjVal? "side" with
        | .ok _ => pure .side
        | .error _ => pure .selfId

def defOf (j : Json) : Except String CompDef := do
  let data ← (← getArr j "data").mapM (fun kv => do
    match (← asArr kv) with
    | [k, s] => do pure ((← strOf k), (← srcOf s))
    | _ => throw "data pair")
  pure { name := chars (← getStr j "name"), template := ← (← getArr j "template").mapM nodeOf, data }

def jl (xs : List Str) : Json := jarr (xs.map (fun s => jstr (ofChars s)))

def tokJ : Tok → Json
  | .text s => jarr [jstr "t", jstr (ofChars s)]
  | .opn t a => jarr [jstr "o", jstr (ofChars t), jl a]
  | .cls t => jarr [jstr "c", jstr (ofChars t)]
  | .hole i a => jarr [jstr "h", jnat i, jl a]
  | .marker c i => jarr [jstr "m", jstr (ofChars c), jnat i]

def errJ : Err → Json
  | .outOfFuel => jstr "fuel"
  | .budget => jstr "budget"
  | .tse s => jstr s!"TemplateSyntaxError:{s}"
  | .notRegistered => jstr "NotRegistered"
  | .keyError s => jstr s!"KeyError:{s}"
  | .typeError s => jstr s!"TypeError:{s}"
  | .runtime s => jstr s!"RuntimeError:{s}"
  | .user c => jstr s!"User:{c}"

def evJ : Ev → Json
  | .gcd i => jarr [jstr "gcd", jnat i]
  | .before i => jarr [jstr "before", jnat i]
  | .after i => jarr [jstr "after", jnat i]
  | .inject i k => jarr [jstr "inject", jnat i, jstr (ofChars k)]

def worldJ (w : World) : List (String × Json) :=
  [("events", jarr (w.events.map evJ)), ("rc_leak", jnat w.rcLeak), ("steps", jnat w.steps),
   ("residue", Json.mkObj [
      ("component_context_cache", jnat w.ctxCache.length),
      ("component_renderer_cache", jnat w.rendererCache.length),
      ("child_component_attrs", jnat w.childAttrs.length),
      ("provide_cache", jnat w.provideCache.length),
      ("provide_references", jnat w.provideRefs.length),
      ("all_reference_ids", jnat w.allRefIds.length)])]

def envOf (j : Json) : Except String (Env × Nat) := do
  let lib ← (← getArr j "lib").mapM defOf
  let raiseAt ← match j.getObjVal? "raise" with
    | .ok (Json.arr a) =>
      (match a.toList with
       | [i, c] => do pure (some ((← asNat i), (← asNat c)))
       | _ => throw "raise")
    | _ => pure none
  let fuel := (getNat j "fuel").toOption.getD 100000
  let maxInst := (getNat j "maxinst").toOption.getD 150
  let maxSteps := (getNat j "maxsteps").toOption.getD 30000
  pure ({ isolated := ← getBool j "isolated", lib, raiseAt, maxInst, maxSteps }, fuel)


def runEntry (env : Env) (fuel : Nat) (j : Json) (w : World) : Except String (Except Err (List Tok) × World) := do
  let vars ← kvValsOf (← getArr j "ctx")
  let entry ← j.getObjVal? "entry"
  match entry.getObjVal? "page" with
  | .ok p => do
    let nodes ← (← asArr p).mapM nodeOf
    pure ((renderNodes env fuel nodes (rootCtx vars)).run.run w)
  | .error _ => do
    let name := chars (← getStr entry "comp")
    let kw ← kvValsOf (← getArr entry "kwargs")
    let slots ← (← getArr entry "slots").mapM (fun kv => do
      match (← asArr kv) with
      | [k, s] => do pure ((← strOf k), ({ nodes := [], dataVar := none, defaultVar := none, extra := [], content := some (← strOf s) } : FillFn))
      | _ => throw "slot pair")
    pure ((renderImpl env fuel name kw slots none (rootCtx vars)).run.run w)

/-- {"op":"render", …}: one render from the initial world; or "runs":[entry…] a history in one world -/
def handle (j : Json) : Except String Json := do
  let (env, fuel) ← envOf j
  match j.getObjVal? "runs" with
  | .ok rs => do
    let runs ← asArr rs
    let (outs, w) ← runs.foldlM (fun (acc : List Json × World) r => do
      let env' : Env := { env with raiseAt := match r.getObjVal? "raise" with
        | .ok (Json.arr a) => (match a.toList with
          | [i, c] => (match i.getNat?, c.getNat? with | .ok i, .ok c => some (i, c) | _, _ => none)
          | _ => none)
        | _ => none }
      let w0 : World := { acc.2 with events := [] }
      let (res, w1) ← runEntry env' fuel r w0
      let o := match res with
        | .ok toks => Json.mkObj ([("out", jarr (toks.map tokJ)), ("err", Json.null)] ++ worldJ w1)
        | .error e => Json.mkObj ([("out", Json.null), ("err", errJ e)] ++ worldJ w1)
      pure (acc.1 ++ [o], w1)) (([] : List Json), ({} : World))
    let _ := w
    pure (Json.mkObj [("runs", jarr outs)])
  | .error _ => do
    let (res, w1) ← runEntry env fuel j {}
    match res with
    | .ok toks => pure (Json.mkObj ([("out", jarr (toks.map tokJ)), ("err", Json.null)] ++ worldJ w1))
    | .error e => pure (Json.mkObj ([("out", Json.null), ("err", errJ e)] ++ worldJ w1))

/-- {"op":"specrender", …}: the specification's output for the same program -/
def handleSpec (j : Json) : Except String Json := do
  let (env, fuel) ← envOf j
  let vars ← kvValsOf (← getArr j "ctx")
  let entry ← j.getObjVal? "entry"
  let res ← match entry.getObjVal? "page" with
    | .ok p => do
      let nodes ← (← asArr p).mapM nodeOf
      pure ((Djc.SpecRender.sNodes env fuel nodes (.mk [[], vars] [] none [])).run {})
    | .error _ => do
      let name := chars (← getStr entry "comp")
      let kw ← kvValsOf (← getArr entry "kwargs")
      let slots ← (← getArr entry "slots").mapM (fun kv => do
        match (← asArr kv) with
        | [k, s] => do pure ((← strOf k), (← strOf s))
        | _ => throw "slot pair")
      pure ((Djc.SpecRender.sRenderComp env fuel name kw slots [[], vars]).run {})
  match res with
  | .ok (toks, st) => pure (Json.mkObj [("out", jarr (toks.map tokJ)), ("err", Json.null), ("paths", jarr (st.paths.map jl))])
  | .error e => pure (Json.mkObj [("out", Json.null), ("err", errJ e)])

def exprJ : Expr → Json
  | .lit s => Json.mkObj [("lit", jstr (ofChars s))]
  | .var p => Json.mkObj [("var", jl p)]

def kwJ (kw : List (Str × Expr)) : Json := jarr (kw.map (fun kv => jarr [jstr (ofChars kv.1), exprJ kv.2]))

def optJ (o : Option Str) : Json := match o with | some s => jstr (ofChars s) | none => Json.null

partial def nodeJ : Node → Json
  | .text s => Json.mkObj [("t", jstr "text"), ("s", jstr (ofChars s))]
  | .out e => Json.mkObj [("t", jstr "out"), ("e", exprJ e)]
  | .ifn c a b => Json.mkObj [("t", jstr "if"), ("c", exprJ c), ("a", jarr (a.map nodeJ)), ("b", jarr (b.map nodeJ))]
  | .forn x e body => Json.mkObj [("t", jstr "for"), ("x", jstr (ofChars x)), ("e", exprJ e), ("body", jarr (body.map nodeJ))]
  | .withn x e body => Json.mkObj [("t", jstr "with"), ("x", jstr (ofChars x)), ("e", exprJ e), ("body", jarr (body.map nodeJ))]
  | .elem t body => Json.mkObj [("t", jstr "elem"), ("tag", jstr (ofChars t)), ("body", jarr (body.map nodeJ))]
  | .slot n d r data body => Json.mkObj [("t", jstr "slot"), ("name", exprJ n), ("default", jbool d), ("required", jbool r),
      ("data", kwJ data), ("body", jarr (body.map nodeJ))]
  | .fill n d f body => Json.mkObj [("t", jstr "fill"), ("name", exprJ n), ("data", optJ d), ("dflt", optJ f), ("body", jarr (body.map nodeJ))]
  | .comp n kw o d body => Json.mkObj [("t", jstr "comp"), ("name", jstr (ofChars n)), ("kwargs", kwJ kw), ("only", jbool o),
      ("dyn", jbool d), ("body", jarr (body.map nodeJ))]
  | .provide k kw body => Json.mkObj [("t", jstr "provide"), ("key", jstr (ofChars k)), ("kwargs", kwJ kw), ("body", jarr (body.map nodeJ))]
  | .block n body => Json.mkObj [("t", jstr "block"), ("name", jstr (ofChars n)), ("body", jarr (body.map nodeJ))]
  | .blockSuper => Json.mkObj [("t", jstr "super")]
  | .extends p => Json.mkObj [("t", jstr "extends"), ("parent", jstr (ofChars p))]
  | .includen n => Json.mkObj [("t", jstr "include"), ("name", jstr (ofChars n))]

/-- {"op":"flatten","family":[[name,[Node]]…],"roots":[name…]}: each root with extends / block / include resolved -/
def handleFlatten (j : Json) : Except String Json := do
  let fam ← (← getArr j "family").mapM (fun kv => do
    match (← asArr kv) with
    | [n, t] => do pure ((← strOf n), (← (← asArr t).mapM nodeOf))
    | _ => throw "family pair")
  let roots ← (← getArr j "roots").mapM strOf
  let fuel := (getNat j "fuel").toOption.getD 400
  pure (Json.mkObj [("flat", jarr (roots.map (fun r => jarr ((Djc.Blocks.flattenTpl fam fuel r []).map nodeJ))))])

end Driver.RenderD
