import Driver.Util
import Djc.Model.Resolve
open Lean Djc.Model.TagParser Djc.Model.Resolve

namespace Driver.ResolveD

partial def pvJson : PV → Json
  | .atom r => Json.mkObj [("a", Json.str (String.ofList r))]
  | .str s => Json.mkObj [("s", Json.str (String.ofList s))]
  | .list xs => Json.mkObj [("l", Driver.jarr (xs.map pvJson))]
  | .dict kvs => Json.mkObj [("d", Driver.jarr (kvs.map fun (k, v) => Driver.jarr [pvJson k, pvJson v]))]

partial def parsePV (j : Json) : Except String PV := do
  if let .ok a := j.getObjVal? "a" then return .atom (← Driver.asStr a).toList
  if let .ok s := j.getObjVal? "s" then return .str (← Driver.asStr s).toList
  if let .ok l := j.getObjVal? "l" then
    let xs ← (← Driver.asArr l).mapM parsePV
    return .list xs
  if let .ok d := j.getObjVal? "d" then
    let kvs ← (← Driver.asArr d).mapM fun e => do
      match ← Driver.asArr e with
      | [k, v] => pure ((← parsePV k), (← parsePV v))
      | _ => throw "bad dict entry"
    return .dict kvs
  throw "bad PV"

partial def pvEq : PV → PV → Bool
  | .atom a, .atom b => a == b
  | .str a, .str b => a == b
  | .list a, .list b => a.length == b.length && (a.zip b).all (fun p => pvEq p.1 p.2)
  | .dict a, .dict b => a.length == b.length && (a.zip b).all (fun p => pvEq p.1.1 p.2.1 && pvEq p.1.2 p.2.2)
  | _, _ => false

partial def leavesOf : Val → List Str
  | .value parts => [serializeParts true parts]
  | .struct _ _ es => (es.map leavesOf).flatten

def errJson : RErr → Json
  | .tse s => Json.mkObj [("err", Json.str "TemplateSyntaxError"), ("site", Json.str s)]
  | .value s => Json.mkObj [("err", Json.str "ValueError"), ("site", Json.str s)]
  | .type s => Json.mkObj [("err", Json.str "TypeError"), ("site", Json.str s)]
  | .leaf => Json.mkObj [("err", Json.str "LeafError")]

def handleLeaves (j : Json) : Except String Json := do
  let s := (← Driver.getStr j "s").toList
  match parseTag s with
  | .ok _ attrs => pure <| Json.mkObj [("leaves", Driver.jarr (((attrs.drop 1).map fun a => leavesOf a.value).flatten.map fun l => Json.str (String.ofList l)))]
  | .error (.tse site) => pure <| Json.mkObj [("err", Json.str "TemplateSyntaxError"), ("site", Json.str site)]
  | .outOfFuel => pure <| Json.mkObj [("err", Json.str "OUT-OF-FUEL")]

def handleResolve (j : Json) : Except String Json := do
  let s := (← Driver.getStr j "s").toList
  let flags ← (← Driver.getArr j "flags").mapM fun f => do pure (← Driver.asStr f).toList
  let tbl ← (← Driver.getArr j "leaves").mapM fun e => do
    match ← Driver.asArr e with
    | [t, Json.null] => pure ((← Driver.asStr t).toList, (none : Option PV))
    | [t, v] => pure ((← Driver.asStr t).toList, some (← parsePV v))
    | _ => throw "bad leaf entry"
  let leaf : Str → Option PV := fun t => match tbl.find? (fun e => e.1 == t) with
    | some e => e.2
    | none => none
  match parseTag s with
  | .error (.tse site) => pure <| Json.mkObj [("err", Json.str "TemplateSyntaxError"), ("site", Json.str site)]
  | .outOfFuel => pure <| Json.mkObj [("err", Json.str "OUT-OF-FUEL")]
  | .ok _ attrs =>
    match resolveTag pvEq leaf flags attrs with
    | .error e => pure (errJson e)
    | .ok (ps, fl) => pure <| Json.mkObj [
        ("params", Driver.jarr (ps.map fun p => Driver.jarr [
          (match p.key with | some k => Json.str (String.ofList k) | none => Json.null), pvJson p.value])),
        ("flags", Driver.jarr (fl.map fun f => Json.str (String.ofList f)))]

end Driver.ResolveD
