import Driver.Util
import Djc.Model.Deps
open Lean Djc.Model.Deps

namespace Driver.DepsD

def handle (j : Json) : Except String Json := do
  let ci ← Driver.getBool j "ci"
  let doc ← Driver.getBool j "doc"
  let C := (← Driver.getStr j "C").toList
  let J := (← Driver.getStr j "J").toList
  let s := (← Driver.getStr j "s").toList
  let t1 := stripMarkers s
  let out := renderDeps ci doc C J s
  pure <| Json.mkObj [
    ("out", Json.str (String.ofList out)),
    ("t1", Json.str (String.ofList t1)),
    ("foundCss", Json.bool (foundKind .css t1)),
    ("foundJs", Json.bool (foundKind .js t1))]

def handleMw (j : Json) : Except String Json := do
  let st ← Driver.getBool j "streaming"
  let ct := (← Driver.getStr j "ctype").toList
  pure <| Json.mkObj [("touch", Json.bool (middlewareTouches st ct))]

end Driver.DepsD
