import Driver.Util
import Djc.Model.Collect
open Lean
open Djc.Collect

namespace Driver.CollectD

def strs (js : List Json) : Except String (List Str) := js.mapM (fun j => do pure (chars (← asStr j)))

/-- {"op":"collect","doc":bool,"classes":[{"js":bool,"css":bool,"mjs":[..],"mcss":[..],"hash":str}],
     "markers":[[classIdx, id]...]}: the markers the pattern recognises are processed, the others survive -/
def handle (j : Json) : Except String Json := do
  let doc ← getBool j "doc"
  let cls ← (← getArr j "classes").mapM (fun c => do
    pure (({ hasJs := ← getBool c "js", hasCss := ← getBool c "css", mediaJs := ← strs (← getArr c "mjs"),
             mediaCss := ← strs (← getArr c "mcss") } : Cls), chars (← getStr c "hash")))
  let ms ← (← getArr j "markers").mapM (fun m => do
    match (← asArr m) with
    | [c, i] => do pure ((← asNat c), chars (← asStr i))
    | _ => throw "marker")
  let table : Nat → Cls := fun i => (cls.getD i (default, [])).1
  let ok := ms.filter (fun m => harvestable (payloadOf (cls.getD m.1 (default, [])).2 m.2))
  let surviving := ms.filter (fun m => !harvestable (payloadOf (cls.getD m.1 (default, [])).2 m.2))
  let o := process doc table (ok.map (·.1))
  let nats (l : List Nat) := jarr (l.map jnat)
  let ss (l : List Str) := jarr (l.map (fun s => jstr (ofChars s)))
  pure (Json.mkObj [("classes", nats o.classes), ("inlineJs", nats o.inlineJs), ("inlineCss", nats o.inlineCss),
    ("loadJs", nats o.loadJsClasses), ("loadCss", nats o.loadCssClasses), ("mediaJs", ss o.mediaJs), ("mediaCss", ss o.mediaCss),
    ("surviving", nats (surviving.map (·.1)))])

end Driver.CollectD
