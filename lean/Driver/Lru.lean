import Driver.Util
import Djc.Model.Lru
open Lean Djc.Model.Lru

namespace Driver.LruD

def parseOp (j : Json) : Except String (Op String Int) := do
  let a ← Driver.asArr j
  match a with
  | [Json.str "get", k] => do pure (.get (← Driver.asStr k))
  | [Json.str "has", k] => do pure (.has (← Driver.asStr k))
  | [Json.str "set", k, v] => do pure (.set (← Driver.asStr k) (← Driver.asInt v))
  | [Json.str "clear"] => pure .clear
  | _ => throw "bad lru op"

def outJson : Out Int → Json
  | .val none => Json.null
  | .val (some v) => Driver.jint v
  | .bool b => Json.bool b
  | .unit => Json.str "unit"

def handle (j : Json) : Except String Json := do
  let cap ← Driver.getOptNat j "cap"
  let ops ← (← Driver.getArr j "ops").mapM parseOp
  let c0 : Lru String Int := empty cap
  let os := outs c0 ops
  let c := run c0 ops
  pure <| Json.mkObj [
    ("out", Driver.jarr (os.map outJson)),
    ("items", Driver.jarr (c.items.map fun (k, v) => Driver.jarr [Json.str k, Driver.jint v]))]

def handleTmpl (j : Json) : Except String Json := do
  let cap ← Driver.getOptNat j "cap"
  let ks ← (← Driver.getArr j "keys").mapM Driver.asStr
  let r := tRun ({ cache := empty cap, next := 0 } : TState String) ks
  pure <| Json.mkObj [
    ("idents", Driver.jarr (r.2.map fun t => Driver.jnat t.ident)),
    ("keys", Driver.jarr (r.2.map fun t => Json.str t.key)),
    ("cached", Driver.jarr (r.1.cache.items.map fun (k, _) => Json.str k))]

end Driver.LruD
