import Driver.Util
import Djc.Model.Discover
open Lean Djc.Model.Discover

namespace Driver.DiscoverD

def parseParts (j : Json) : Except String (List (List Char)) := do
  (← Driver.asArr j).mapM fun c => do pure (← Driver.asStr c).toList

def handle (j : Json) : Except String Json := do
  let suffix := (← Driver.getStr j "suffix").toList
  let kind ← Driver.getStr j "kind"
  let above ← parseParts (← j.getObjVal? "above")
  let tree ← (← Driver.getArr j "tree").mapM parseParts
  let entries :=
    if kind == "app" then
      match Driver.getStr j "pkg" with
      | .ok p => appEntries suffix p.toList above tree
      | .error _ => []
    else dirEntries suffix above tree
  pure <| Json.mkObj [
    ("entries", Driver.jarr (entries.map fun (d, f) =>
      Driver.jarr [Json.str (String.ofList d), Driver.jarr (f.map fun p => Json.str (String.ofList p))]))]

end Driver.DiscoverD
