import Driver.Util
import Djc.Model.TagParser
open Lean Djc.Model.TagParser

namespace Driver.TagParserD

def optStrJson (o : Option Str) : Json := match o with
  | none => Json.null
  | some s => Json.str (String.ofList s)
def optCharJson (o : Option Char) : Json := match o with
  | none => Json.null
  | some c => Json.str (String.singleton c)

def kindStr : Kind → String
  | .simple => "simple" | .list => "list" | .dict => "dict"

partial def valJson : Val → Json
  | .value parts => Json.mkObj [("t", Json.str "value"), ("parts", Driver.jarr (parts.map fun p =>
      Driver.jarr [Json.str (String.ofList p.value), optCharJson p.quoted, optStrJson p.spread,
        Json.bool p.translation, optCharJson p.filter]))]
  | .struct k sp es => Json.mkObj [("t", Json.str (kindStr k)), ("spread", optStrJson sp),
      ("entries", Driver.jarr (es.map valJson))]

def attrJson (a : Attr) : Json :=
  Json.mkObj [("key", optStrJson a.key), ("start", Driver.jnat a.startIndex), ("value", valJson a.value)]

def handle (j : Json) : Except String Json := do
  let s := (← Driver.getStr j "s").toList
  match parseTag s with
  | .ok n attrs => pure <| Json.mkObj [("ok", Json.mkObj [("norm", Json.str (String.ofList n)),
      ("attrs", Driver.jarr (attrs.map attrJson))])]
  | .error (.tse site) => pure <| Json.mkObj [("err", Json.str "TemplateSyntaxError"), ("site", Json.str site)]
  | .outOfFuel => pure <| Json.mkObj [("err", Json.str "OUT-OF-FUEL")]

end Driver.TagParserD
