import Lean.Data.Json
open Lean

namespace Driver

def jstr (s : String) : Json := Json.str s
def jnat (n : Nat) : Json := Json.num (JsonNumber.fromNat n)
def jint (n : Int) : Json := Json.num (JsonNumber.fromInt n)
def jarr (xs : List Json) : Json := Json.arr xs.toArray
def jbool (b : Bool) : Json := Json.bool b

def getStr (j : Json) (k : String) : Except String String := j.getObjValAs? String k
def getNat (j : Json) (k : String) : Except String Nat := j.getObjValAs? Nat k
def getBool (j : Json) (k : String) : Except String Bool := j.getObjValAs? Bool k
def getArr (j : Json) (k : String) : Except String (List Json) := do
  let v ← j.getObjVal? k
  let a ← v.getArr?
  pure a.toList
def getOptNat (j : Json) (k : String) : Except String (Option Nat) := do
  let v ← j.getObjVal? k
  match v with
  | Json.null => pure none
  | _ => do let n ← v.getNat?; pure (some n)

def asArr (j : Json) : Except String (List Json) := do
  let a ← j.getArr?
  pure a.toList
def asStr (j : Json) : Except String String := j.getStr?
def asNat (j : Json) : Except String Nat := j.getNat?
def asInt (j : Json) : Except String Int := j.getInt?

def chars (s : String) : List Char := s.toList
def ofChars (cs : List Char) : String := String.ofList cs

end Driver
