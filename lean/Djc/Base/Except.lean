/- Decidable equality for `Except` (core Lean does not derive it). -/
namespace Djc

instance instDecEqExcept {ε α : Type} [DecidableEq ε] [DecidableEq α] : DecidableEq (Except ε α) :=
  fun a b =>
    match a, b with
    | .ok x, .ok y =>
      if h : x = y then isTrue (by rw [h]) else isFalse (by intro e; cases e; exact h rfl)
    | .error x, .error y =>
      if h : x = y then isTrue (by rw [h]) else isFalse (by intro e; cases e; exact h rfl)
    | .ok _, .error _ => isFalse (by intro e; cases e)
    | .error _, .ok _ => isFalse (by intro e; cases e)

end Djc
