/-
  Insertion-ordered association lists with Python `dict` semantics:
    d[k] = v   keeps the position of an existing key, appends a new one   (`aset`)
    del d[k]   removes the key                                            (`aerase`)
    d.get(k)                                                               (`alookup`)
  No imports (linked into the driver).  Lemmas are in `Djc/Proofs/AList.lean`.
-/
namespace Djc.AList

variable {α β : Type} [DecidableEq α]

def alookup (k : α) : List (α × β) → Option β
  | [] => none
  | (k', v) :: xs => if k' = k then some v else alookup k xs

def aset (k : α) (v : β) : List (α × β) → List (α × β)
  | [] => [(k, v)]
  | (k', v') :: xs => if k' = k then (k, v) :: xs else (k', v') :: aset k v xs

def aerase (k : α) : List (α × β) → List (α × β)
  | [] => []
  | (k', v') :: xs => if k' = k then aerase k xs else (k', v') :: aerase k xs

def akeys (xs : List (α × β)) : List α := xs.map Prod.fst

def ahas (k : α) (xs : List (α × β)) : Bool := (alookup k xs).isSome

end Djc.AList
