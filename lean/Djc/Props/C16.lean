/-
  C16 — component assets = own class plus the bases selected by Media.extend.
  Property theorems only (helper lemmas: `Djc/Proofs/Media.lean`).
  Hierarchies have any number of classes, any inheritance shape, any Media declarations.
-/
import Djc.Proofs.Media
namespace Djc.Props.C16
open Djc.AList Djc.Model.Media Djc.Spec.Media Djc.Proofs.Media

/-- The explicit work stack terminates for every class of every well-founded hierarchy, from every
consistent state of the process-global cache, and leaves in the cache exactly the file set the
recursive definition assigns to the class, without duplicates. -/
theorem workstack_terminates_and_is_correct (H : Hier) (hwf : WF H)
    (cache : List (Nat × List File)) (hc : CacheOK H cache) (i : Nat) :
    ∃ n cache', iter H n { stack := [i], cache := cache } = { stack := [], cache := cache' } ∧
      CacheOK H cache' ∧
      ∃ L, alookup i cache' = some L ∧ L.Nodup ∧ ∀ f, f ∈ L ↔ HasFile H i f := by
  obtain ⟨n, c', h1, h2, h3, _⟩ := visit H hwf i [] cache hc
  obtain ⟨L, hL⟩ := Option.isSome_iff_exists.mp h3
  exact ⟨n, c', h1, h2, L, hL, h2 i L hL⟩

/-- **Access-order independence.** Whatever classes were accessed before (any sequence, leaving any
reachable cache), `cls.media` yields the same file set; and enough fuel is enough: more iterations
do not change the answer. -/
theorem media_access_order_independent (H : Hier) (hwf : WF H)
    (cache : List (Nat × List File)) (hc : CacheOK H cache) (i : Nat) :
    ∃ n0, ∀ fuel, n0 ≤ fuel →
      ∃ L, (getMedia H fuel cache i).1 = some L ∧ L.Nodup ∧ (∀ f, f ∈ L ↔ HasFile H i f) ∧
        CacheOK H (getMedia H fuel cache i).2 := by
  obtain ⟨n, c', h1, h2, L, hL, hnd, hmem⟩ := workstack_terminates_and_is_correct H hwf cache hc i
  refine ⟨n, ?_⟩
  intro fuel hle
  obtain ⟨k, rfl⟩ : ∃ k, fuel = n + k := ⟨fuel - n, by omega⟩
  have : iter H (n + k) { stack := [i], cache := cache } = { stack := [], cache := c' } := by
    rw [iter_add, h1, iter_empty]
  refine ⟨L, ?_, hnd, hmem, ?_⟩
  · simp [getMedia, this, hL]
  · simp [getMedia, this, h2]

/-- The empty cache is consistent, so the two theorems above apply to every sequence of accesses
in a fresh process. -/
theorem empty_cache_ok (H : Hier) : CacheOK H [] := by
  intro i L h; simp [alookup] at h

/-- Each file once per medium. -/
theorem media_nodup (H : Hier) (hwf : WF H) (cache : List (Nat × List File)) (hc : CacheOK H cache)
    (i : Nat) : ∃ n L, (getMedia H n cache i).1 = some L ∧ L.Nodup := by
  obtain ⟨n0, h⟩ := media_access_order_independent H hwf cache hc i
  obtain ⟨L, h1, h2, _⟩ := h n0 (Nat.le_refl _)
  exact ⟨n0, L, h1, h2⟩

/-- **Implementation = property**, for hierarchies in which every class without its own Media
inherits a Media with `extend = True` (hypothesis `Hyp`; `EffOK` is the checked side condition on
the MRO data): the files are exactly the class's own declared ones plus, transitively, those of
the bases its own `extend` selects. -/
theorem media_eq_spec_partial (H : Hier) (hwf : WF H) (heff : EffOK H) (hyp : Hyp H) (i : Nat)
    (f : File) : HasFile H i f ↔ SpecFile H i f := by
  constructor
  · intro h
    induction h with
    | @own i f hf =>
      -- f is a file of the effective Media of i
      cases hc : H[i]? with
      | none => simp [ownFiles, effMedia, hc] at hf
      | some c =>
        cases he : c.eff with
        | none => simp [ownFiles, effMedia, hc, he] at hf
        | some m =>
          obtain ⟨d, md, hd, hdo⟩ := (heff i c hc).2.2 m he
          have : f ∈ md.files := by simpa [ownFiles, effMedia, hc, he, hd, hdo] using hf
          exact eff_files_in_spec H hwf heff m d md hd hdo f this i c hc he
    | @inh i b f hb _ ih =>
      rw [selected_eq_spec H heff hyp i] at hb
      exact SpecFile.inh hb ih
  · intro h
    induction h with
    | @own i f hf =>
      cases hc : H[i]? with
      | none => simp [declFiles, hc] at hf
      | some c =>
        cases hco : c.own with
        | none => simp [declFiles, hc, hco] at hf
        | some md =>
          have he := (heff i c hc).1 md hco
          apply HasFile.own
          simpa [ownFiles, effMedia, declFiles, hc, he, hco] using hf
    | @inh i b f hb _ ih =>
      rw [← selected_eq_spec H heff hyp i] at hb
      exact HasFile.inh hb ih

/-- The witness of the known finding: `class A: Media(js=[a.js], extend=False)`,
`class B: Media(js=[b.js])`, `class C(A, B): pass`. -/
def witness : Hier :=
  [ { bases := [], own := some { files := [("js".toList, "a.js".toList)], extend := .none }, eff := some 0 },
    { bases := [], own := some { files := [("js".toList, "b.js".toList)], extend := .all }, eff := some 1 },
    { bases := [0, 1], own := none, eff := some 0 } ]

/-- The property at full strength is false on the current tree: in the witness hierarchy the
property gives `C` the file `b.js`, the implementation does not. -/
theorem not_C16_full : ¬ C16_full := by
  intro h
  have hwf : WF witness := by
    constructor
    · intro i b hb
      match i with
      | 0 => simp [selected, effMedia, witness] at hb
      | 1 => simp [selected, effMedia, witness, basesOf] at hb
      | 2 => simp [selected, effMedia, witness] at hb
      | n + 3 => simp [selected, effMedia, witness, basesOf] at hb
    · intro i b hb
      match i with
      | 0 => simp [basesOf, witness] at hb
      | 1 => simp [basesOf, witness] at hb
      | 2 => simp [basesOf, witness] at hb; omega
      | n + 3 => simp [basesOf, witness] at hb
  have heff : EffOK witness := by
    intro i c hc
    match i with
    | 0 => simp [witness] at hc; subst hc; simp; exact ⟨_, rfl, _, rfl⟩
    | 1 => simp [witness] at hc; subst hc; simp; exact ⟨_, rfl, _, rfl⟩
    | 2 =>
      simp [witness] at hc; subst hc
      refine ⟨by simp, ?_, ?_⟩
      · intro _; right; exact ⟨0, by simp, _, rfl, rfl⟩
      · intro m hm; simp at hm; subst hm; exact ⟨_, _, rfl, rfl⟩
    | n + 3 => simp [witness] at hc
  have hspec : SpecFile witness 2 ("js".toList, "b.js".toList) := by
    apply SpecFile.inh (b := 1)
    · simp [specSelected, witness]
    · apply SpecFile.own; simp [declFiles, witness]
  have himpl := (h witness hwf heff 2 ("js".toList, "b.js".toList)).mpr hspec
  cases himpl with
  | own hf => simp [ownFiles, effMedia, witness] at hf
  | inh hb _ => simp [selected, effMedia, witness] at hb

/-- `template` / `js` / `css` (and their `_file` forms) come from the nearest class in the MRO that
defines either member of the pair — even when the requested member is `None` there. -/
theorem attr_nearest_in_mro (pre post : List PairDecl) (p : PairDecl) (wantFile : Bool)
    (hpre : ∀ q, q ∈ pre → q.inline = none ∧ q.file = none)
    (hp : p.inline.isSome = true ∨ p.file.isSome = true) :
    attrLookup (pre ++ p :: post) wantFile = if wantFile then p.file else p.inline := by
  unfold attrLookup
  have : (pre ++ p :: post).find? (fun p => p.inline.isSome || p.file.isSome) = some p := by
    induction pre with
    | nil =>
      have : (p.inline.isSome || p.file.isSome) = true := by
        rcases hp with h | h <;> simp [h]
      simp [List.find?, this]
    | cons q qs ih =>
      have hq := hpre q (by simp)
      simp only [List.cons_append, List.find?, hq.1, hq.2, Option.isSome_none, Bool.or_self]
      exact ih (fun x hx => hpre x (by simp [hx]))
  rw [this]

theorem attr_none_when_undefined (mro : List PairDecl) (wantFile : Bool)
    (h : ∀ q, q ∈ mro → q.inline = none ∧ q.file = none) : attrLookup mro wantFile = none := by
  unfold attrLookup
  have : mro.find? (fun p => p.inline.isSome || p.file.isSome) = none := by
    apply List.find?_eq_none.mpr
    intro q hq
    simp [(h q hq).1, (h q hq).2]
  rw [this]

/-- Defining both members of a pair in one class is rejected. -/
theorem both_members_rejected (p : PairDecl) :
    pairRejected p = true ↔ (p.inline.isSome = true ∧ p.file.isSome = true) := by
  simp [pairRejected]

/-! ### non-vacuity -/

example : (getMedia witness 8 [] 2).1 = some [("js".toList, "a.js".toList)] := by decide +kernel

example : (getMedia witness 8 (getMedia witness 8 [] 1).2 2).1
    = some [("js".toList, "a.js".toList)] := by decide +kernel

end Djc.Props.C16
