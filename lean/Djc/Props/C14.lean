/-
  C14 — root elements of a component instance, and only they, carry its render id.
  Property theorems only.  `addRootAttrs` is `set_html_attributes(root_attributes=…)` on the token
  form; statements hold for every well-nested token list, at any nesting depth.
-/
import Djc.Proofs.Render
import Djc.Proofs.Leaf
import Djc.Proofs.Tree
import Djc.Proofs.Stitch
import Djc.Proofs.TreeFail
namespace Djc.Props.C14
open Djc.Tpl Djc.Render Djc.Proofs.Render

/-- well-nested output: what templates built from element nodes produce -/
inductive Balanced : List Tok → Prop
  | nil : Balanced []
  | text (s : Str) {rest} : Balanced rest → Balanced (.text s :: rest)
  | hole (i : Nat) (a : List Str) {rest} : Balanced rest → Balanced (.hole i a :: rest)
  | marker (c : Str) (i : Nat) {rest} : Balanced rest → Balanced (.marker c i :: rest)
  | elem (t : Str) (a : List Str) {inner rest} : Balanced inner → Balanced rest →
      Balanced (.opn t a :: (inner ++ .cls t :: rest))

/-- below the top level nothing is touched: a well-nested stretch passes through unchanged, at
every depth ≥ 1 -/
theorem nested_untouched (attrs : List Str) {xs : List Tok} (hb : Balanced xs) :
    ∀ (d : Nat) (ys : List Tok),
      addRootAttrsAux attrs (d + 1) (xs ++ ys) = xs ++ addRootAttrsAux attrs (d + 1) ys := by
  induction hb with
  | nil => intro d ys; rfl
  | text s _ ih => intro d ys; simp [addRootAttrsAux, ih]
  | hole i a _ ih => intro d ys; simp [addRootAttrsAux, ih]
  | marker c i _ ih => intro d ys; simp [addRootAttrsAux, ih]
  | elem t a _ _ ih1 ih2 =>
    intro d ys
    simp only [List.cons_append, List.append_assoc, addRootAttrsAux]
    rw [if_neg (by omega)]
    rw [ih1 (d + 1) _]
    simp only [addRootAttrsAux, Nat.add_sub_cancel]
    rw [ih2 d ys]

/-- **A root element gets the id; nothing inside it does.** -/
theorem root_element_tagged (attrs : List Str) (t : Str) (a : List Str) {inner : List Tok}
    (hb : Balanced inner) (rest : List Tok) :
    addRootAttrs attrs (.opn t a :: (inner ++ .cls t :: rest)) =
      .opn t (a ++ attrs) :: (inner ++ .cls t :: addRootAttrs attrs rest) := by
  unfold addRootAttrs
  simp only [addRootAttrsAux, if_true]
  rw [nested_untouched attrs hb 0 _]
  simp [addRootAttrsAux]

/-- text, markers at the top level are untouched; a placeholder at the top level is tagged (the
attributes are handed to the child whose output replaces it) -/
theorem root_text_untouched (attrs : List Str) (s : Str) (rest : List Tok) :
    addRootAttrs attrs (.text s :: rest) = .text s :: addRootAttrs attrs rest := rfl

theorem root_marker_untouched (attrs : List Str) (c : Str) (i : Nat) (rest : List Tok) :
    addRootAttrs attrs (.marker c i :: rest) = .marker c i :: addRootAttrs attrs rest := rfl

theorem root_placeholder_tagged (attrs : List Str) (i : Nat) (a : List Str) (rest : List Tok) :
    addRootAttrs attrs (.hole i a :: rest) = .hole i (a ++ attrs) :: addRootAttrs attrs rest := by
  simp [addRootAttrs, addRootAttrsAux]

/-- **Hand-over.** The attributes recorded for child placeholders: the parent's attributes for
a placeholder at the top level, none for a placeholder inside an element. -/
theorem nested_placeholders_get_nothing (attrs : List Str) {xs : List Tok} (hb : Balanced xs) :
    ∀ (d : Nat) (ys : List Tok),
      rootHolesAux attrs (d + 1) (xs ++ ys) =
        (xs.filterMap (fun t => match t with | .hole i _ => some (i, ([] : List Str)) | _ => none)) ++
          rootHolesAux attrs (d + 1) ys := by
  induction hb with
  | nil => intro d ys; rfl
  | text s _ ih => intro d ys; simp [rootHolesAux, ih]
  | hole i a _ ih => intro d ys; simp [rootHolesAux, ih]
  | marker c i _ ih => intro d ys; simp [rootHolesAux, ih]
  | elem t a _ _ ih1 ih2 =>
    intro d ys
    simp only [List.cons_append, List.append_assoc, rootHolesAux]
    rw [ih1 (d + 1) _]
    simp only [rootHolesAux, Nat.add_sub_cancel]
    rw [ih2 d ys]
    simp [List.filterMap_append]

theorem root_placeholder_handed_over (attrs : List Str) (i : Nat) (a : List Str) (rest : List Tok) :
    rootHoles attrs (.hole i a :: rest) = (i, attrs) :: rootHoles attrs rest := by
  simp [rootHoles, rootHolesAux]

/-- **Ids are distinct**: every `gen_id` call returns a number no earlier call returned. -/
theorem gen_id_fresh (w : World) :
    (genId.run.run w) = (.ok w.nextId, { w with nextId := w.nextId + 1 }) := rfl

/-- non-vacuity: `<div><p>x</p></div>t<span></span>` -/
example : addRootAttrs ["i".toList]
    [.opn "div".toList [], .opn "p".toList [], .text "x".toList, .cls "p".toList, .cls "div".toList, .text "t".toList,
     .opn "span".toList [], .cls "span".toList] =
    [.opn "div".toList ["i".toList], .opn "p".toList [], .text "x".toList, .cls "p".toList, .cls "div".toList, .text "t".toList,
     .opn "span".toList ["i".toList], .cls "span".toList] := by decide

/-- **End to end for one component: the id on the root elements is the id `Component.id` reports.**  A component tag
with an empty body where no component encloses it, template in the plain fragment, data from the call — through the
whole deferred pipeline (renderer, attribute pass, placeholder pass).  The output is the render marker followed by the
template's own tokens (`toks`: what the reference interpreter prints for the template in the component's context, in
which `Component.id` — data source `selfId` — is the box of the id `w.nextId`) with exactly `addRootAttrs` of *that same
id* applied: by `root_element_tagged` / `nested_untouched` every root element carries it, nothing below does. -/
theorem leaf_component_roots_carry_reported_id (env : Env) (i : Nat) (name : Str) (kwargs : List (Str × Expr))
    (only dyn : Bool) (ctx ctx' : Ctx) (w : World) (d : CompDef) (toks : List Tok) (st : Nat)
    (hctx' : ctx' = if only || env.isolated then isolatedCopy ctx else ctx)
    (hr : env.raiseAt = none) (hd : findDef env name = some d) (hdyn : isDynName name = false)
    (hp : Djc.Proofs.Plain.plainL d.template = true) (hsrc : d.data.all (fun kv => Djc.Proofs.Leaf.pureSrc kv.2) = true)
    (hsteps : ¬ w.steps ≥ env.maxSteps) (hgcd : w.gcds < env.maxInst) (hext : isExtracting ctx = false)
    (hpar : ∀ p, ctxGet ctx' compKey ≠ some (.compRef p)) (hprov : w.provideCache = [])
    (hf1 : alGet w.nextId w.ctxCache = none) (hf2 : alGet w.nextId w.rendererCache = none)
    (hf3 : alGet w.nextId w.childAttrs = none) (hf4 : w.allRefIds.contains w.nextId = false)
    (hc : Djc.Proofs.Plain.ctxFree (Djc.Proofs.Leaf.leafCtx ctx' w.nextId (evalKwargs ctx kwargs) d) = true)
    (hok : Djc.Proofs.Plain.pNodes env.maxSteps (i + 1) d.template
      (Djc.Proofs.Leaf.leafCtx ctx' w.nextId (evalKwargs ctx kwargs) d) (w.steps + 1) = (.ok toks, st)) :
    ((renderNode env (i + 6) (.comp name kwargs only dyn []) ctx).run.run w).1 =
        .ok (.marker name w.nextId :: addRootAttrs [idAttr w.nextId] toks) ∧
      (∀ out, (out, Src.selfId) ∈ d.data →
        Djc.Proofs.Leaf.srcVal w.nextId (evalKwargs ctx kwargs) Src.selfId = Val.idBox w.nextId) := by
  rw [Djc.Proofs.Leaf.leaf_component env i name kwargs only dyn ctx ctx' w d toks st hctx' hr hd hdyn hp hsrc hsteps hgcd hext
    hpar hprov hf1 hf2 hf3 hf4 hc hok]
  exact ⟨rfl, fun _ _ => rfl⟩


/-! ### the hypotheses of `leaf_component_roots_carry_reported_id` are satisfiable -/

section LeafExample
deriving instance DecidableEq for Err
deriving instance DecidableEq for Except

def exDef : CompDef :=
  { name := "c0".toList,
    template := [.elem "div".toList [.out (.var ["a".toList]), .elem "p".toList []], .out (.var ["x".toList]), .text "t".toList],
    data := [("cid".toList, .selfId), ("a".toList, .kwarg "a".toList)] }
def exEnv : Env := { isolated := true, lib := [exDef] }
def exCtx : Ctx := rootCtx [("x".toList, .str "X".toList)]

/-- `{% component "c0" a="A" %}{% endcomponent %}` on a page with a variable `x`, isolated mode, empty world: the
element at the root carries the id, the nested one does not, the page's `x` is not visible in the component (it
prints as the empty string), `a` arrives. -/
example :
    ((renderNode exEnv 14 (.comp "c0".toList [("a".toList, .lit "A".toList)] false false []) exCtx).run.run {}).1 =
      .ok [.marker "c0".toList 1, .opn "div".toList [idAttr 1], .text "A".toList, .opn "p".toList [], .cls "p".toList,
           .cls "div".toList, .text [], .text "t".toList] := by
  have h0 : (ctxGet (isolatedCopy exCtx) compKey).isNone = true := by decide +kernel
  have hpar : ∀ p, ctxGet (isolatedCopy exCtx) compKey ≠ some (.compRef p) := by
    intro p hp; rw [hp] at h0; cases h0
  have hfd : findDef exEnv "c0".toList = some exDef := by
    simp [findDef, exEnv, exDef]
  have h := (leaf_component_roots_carry_reported_id exEnv 8 "c0".toList [("a".toList, .lit "A".toList)] false false exCtx
    (isolatedCopy exCtx) {} exDef
    [.opn "div".toList [], .text "A".toList, .opn "p".toList [], .cls "p".toList, .cls "div".toList, .text [], .text "t".toList] 6
    rfl rfl hfd (by decide +kernel) (by decide +kernel) (by decide +kernel) (by decide +kernel)
    (by decide +kernel) (by decide +kernel) hpar rfl rfl rfl rfl rfl (by decide +kernel) (by decide +kernel)).1
  rw [h]
  decide +kernel
end LeafExample

/-! ### ids across a whole tree of components -/

/-- **Ids are distinct across all instances of a page, at any nesting depth.**  For a component tag over any library of
the tree fragment (`GoodLib`: components nested through their templates to any depth, in loops, recursively): the
`get_context_data` calls made until the render returns — one per instance, nested ones deferred through the queue of
`component_post_render` — carry the ids `w.nextId, w.nextId + 1, …, w'.nextId - 1`, each exactly once, in the order the
instances were created; in particular no two instances share an id, and `Component.id` (the id handed to
`get_context_data`, data source `selfId`) is the id under which the instance's renderer was queued
(`Djc.Proofs.Tree.GoodR.id`). -/
theorem component_tree_ids_distinct (env : Env) (hlib : Djc.Proofs.Tree.GoodLib env) (fuel : Nat)
    (name : Str) (kwargs : List (Str × Expr)) (only dyn : Bool) (body : List Node) (ctx : Ctx) (w w' : World) (toks : List Tok)
    (hd : isDynName name = false) (hb : Djc.Proofs.Tree.gbody body = true) (hc : Djc.Proofs.Plain.ctxFree ctx = true)
    (hw : Djc.Proofs.Tree.WInv w)
    (h : (renderCompTag env fuel name kwargs only dyn body ctx).run.run w = (.ok toks, w')) :
    ∃ evs, w'.events = w.events ++ evs ∧
      Djc.Proofs.Tree.gcdIds evs = List.range' w.nextId (w'.nextId - w.nextId) ∧ (Djc.Proofs.Tree.gcdIds evs).Nodup := by
  obtain ⟨evs, he, hg⟩ := ((Djc.Proofs.Tree.stmt_all env hlib fuel).tag name kwargs only dyn body ctx w toks w' hd hb hc hw h).evs
  exact ⟨evs, he, hg, by rw [hg]; exact List.nodup_range'⟩

/-- **Every placeholder stands for exactly one queued instance.**  Inside a component's template (any context, any
template of the fragment) the placeholders returned are pairwise distinct, were generated during this render, and each
has a queued renderer carrying that very id. -/
theorem placeholders_are_distinct_queued_instances (env : Env) (hlib : Djc.Proofs.Tree.GoodLib env) (fuel : Nat)
    (nodes : List Node) (ctx : Ctx) (w w' : World) (toks : List Tok)
    (ht : Djc.Proofs.Tree.tnodes nodes = true) (hc : Djc.Proofs.Plain.ctxFree ctx = true) (hw : Djc.Proofs.Tree.WInv w)
    (h : (renderNodes env fuel nodes ctx).run.run w = (.ok toks, w')) :
    (Djc.Proofs.Tree.holeIds toks).Nodup ∧
      (∀ k ∈ Djc.Proofs.Tree.holeIds toks, w.nextId ≤ k ∧ k < w'.nextId ∧
        ∃ r, alGet k w'.rendererCache = some r ∧ r.id = k) := by
  have hb := Djc.Proofs.Tree.tree_render_balanced env hlib fuel nodes ctx w w' toks ht hc hw h
  refine ⟨hb.nodup, fun k hk => ⟨(hb.range k hk).1, (hb.range k hk).2, ?_⟩⟩
  obtain ⟨r, hr, hg⟩ := hb.rcNew k hk
  exact ⟨r, hr, hg.id⟩

/-- instance (kernel-evaluated): page > list > two leaves in a loop, one leaf beside the list — ids 1‥5, markers in
document order `page 1, list 2, leaf 4, leaf 5, leaf 3` -/
example : Djc.Proofs.Tree.exSummary false = true ∧ Djc.Proofs.Tree.exSummary true = true :=
  ⟨by decide +kernel, by decide +kernel⟩

/-! ### the rendered page of a tree of components: which elements carry which ids, at any depth -/

open Djc.Proofs.Stitch in
/-- **The page is the in-order expansion of its root instance, every instance's root elements tagged.**  For a component
tag no component encloses, over any library of the tree fragment (`GoodLib`: nesting to any depth, loops, recursion): the
tokens `component_post_render` returns are `Exp [placeholder of the root instance]` — each placeholder replaced, where it
stands, by the instance's render marker and the tokens its template printed after `set_html_attributes` with the
attributes the parent handed down plus its own id (`Djc.Proofs.Stitch.Exp`).  With `root_element_tagged` /
`nested_untouched` (above) this reads: every top-level element of an instance's output carries its id, nothing below
does; with `root_placeholder_tagged`: a component that is itself a root of its parent inherits the parent's ids. -/
theorem page_is_expansion_of_root_instance (env : Env) (hlib : Djc.Proofs.Tree.GoodLib env) (fuel : Nat)
    (name : Str) (kwargs : List (Str × Expr)) (only dyn : Bool) (body : List Node) (ctx : Ctx) (w w' : World) (toks : List Tok)
    (hd : isDynName name = false) (hb : Djc.Proofs.Tree.gbody body = true) (hc : Djc.Proofs.Plain.ctxFree ctx = true)
    (hw : Djc.Proofs.Tree.WInv w)
    (hext : isExtracting ctx = false)
    (hpar : Djc.Proofs.Tree.parentOf (if only || env.isolated then isolatedCopy ctx else ctx) = none)
    (h : (renderCompTag env fuel name kwargs only dyn body ctx).run.run w = (.ok toks, w')) :
    Exp env [Tok.hole w.nextId []] toks :=
  tree_root_output env hlib fuel name kwargs only dyn body ctx w w' toks hd hb hc hw hext hpar h

open Djc.Proofs.Stitch in
/-- **A root element carries the inherited ids and the instance's own id** — at whatever depth the instance sits: in the
expansion of instance `c`, placed with inherited attributes `a`, whose template printed an element first, that element
comes out with `a ++ [data-djc-id-c]` appended to its attributes, right behind the render marker. -/
theorem expanded_instance_root_element (env : Env) (nm : Str) (c : Nat) (a x : List Str) (t : Str) (rest out : List Tok)
    (h : Exp env (.marker nm c :: addRootAttrs (a ++ [idAttr c]) (.opn t x :: rest)) out) :
    ∃ out', out = .marker nm c :: .opn t (x ++ (a ++ [idAttr c])) :: out' := by
  obtain ⟨e1, rfl, h1⟩ := Exp.tok_inv rfl h
  have : addRootAttrs (a ++ [idAttr c]) (.opn t x :: rest) =
      .opn t (x ++ (a ++ [idAttr c])) :: addRootAttrsAux (a ++ [idAttr c]) 1 rest := by
    simp [addRootAttrs, addRootAttrsAux]
  rw [this] at h1
  obtain ⟨e2, rfl, _⟩ := Exp.tok_inv rfl h1
  exact ⟨e2, rfl⟩

open Djc.Proofs.Stitch in
/-- **When a component's root is itself a component, the shared root elements carry both ids** (and so on down a chain
of any length): if the first thing instance `c`'s template printed is the placeholder of a child `k`, the child's
content is expanded with the attributes `a ++ [data-djc-id-c]` handed down — so by `expanded_instance_root_element` its
root elements carry `a`, `c`'s id and `k`'s id; applied again, a grandchild at the root of `k` carries all three. -/
theorem component_as_root_inherits_ids (env : Env) (nm : Str) (c k : Nat) (a : List Str) (rest out : List Tok)
    (h : Exp env (.marker nm c :: addRootAttrs (a ++ [idAttr c]) (.hole k [] :: rest)) out) :
    ∃ (r : Renderer) (d : CompDef) (html ek out' : List Tok), out = .marker nm c :: (ek ++ out') ∧ r.id = k ∧ findDef env r.name = some d ∧
      Exp env (.marker r.name k :: addRootAttrs ((a ++ [idAttr c]) ++ [idAttr k]) html) ek := by
  obtain ⟨e1, rfl, h1⟩ := Exp.tok_inv rfl h
  have : addRootAttrs (a ++ [idAttr c]) (.hole k [] :: rest) =
      .hole k (a ++ [idAttr c]) :: addRootAttrsAux (a ++ [idAttr c]) 0 rest := by
    simp [addRootAttrs, addRootAttrsAux]
  rw [this] at h1
  obtain ⟨r, d, html, ec, e, rfl, hid, hf, _, hec, _⟩ := Exp.hole_inv h1
  exact ⟨r, d, html, ec, e, rfl, hid, hf, hec⟩

/-- instance (kernel-evaluated): `page` > `list` (a root of `page`) > two leaves in a loop inside `<ul>`, and a leaf beside
the list (a root of `page`) — the `<ul>` carries ids 1 and 2, the looped `<li>` their own id only, the last `<li>` ids 1
and 3; the whole token list is `Djc.Proofs.Stitch.exExpected` -/
example : Djc.Proofs.Stitch.exOutputOk = true := by decide +kernel

/-- **Ids are never reused over the life of the process — whatever the renders did.**  For any history of top-level
renders of the tree fragment, each returning or raising (fault in a callback, `NotRegistered`, budget) in any order: the
`get_context_data` calls logged over the whole history carry strictly increasing — hence pairwise distinct — ids, all
generated during the history; an id used by a render that failed half-way is not handed out again by a later render. -/
theorem ids_distinct_over_any_history (env : Env) (hlib : Djc.Proofs.Tree.GoodLib env) (fuel : Nat)
    (qs : List Djc.Proofs.TreeFail.Req) (w : World) (hq : ∀ q ∈ qs, q.Good env) (hw : Djc.Proofs.Tree.WInv w) :
    ∃ evs, (Djc.Proofs.TreeFail.runHist env fuel qs w).events = w.events ++ evs ∧
      (∀ k ∈ Djc.Proofs.Tree.gcdIds evs, w.nextId ≤ k ∧ k < (Djc.Proofs.TreeFail.runHist env fuel qs w).nextId) ∧
      (Djc.Proofs.Tree.gcdIds evs).Pairwise (· < ·) ∧ (Djc.Proofs.Tree.gcdIds evs).Nodup :=
  Djc.Proofs.TreeFail.history_ids env hlib fuel qs w hq hw

/-- **… and when every render of the history returned, no id is skipped either**: the ids are exactly
`w.nextId, …, final.nextId - 1`, one instance each, in creation order, across all the pages rendered. -/
theorem ids_of_returning_history_are_consecutive (env : Env) (hlib : Djc.Proofs.Tree.GoodLib env) (fuel : Nat)
    (qs : List Djc.Proofs.TreeFail.Req) (w : World) (hq : ∀ q ∈ qs, q.Good env) (hw : Djc.Proofs.Tree.WInv w)
    (hall : Djc.Proofs.TreeFail.allReturn env fuel qs w) :
    ∃ evs, (Djc.Proofs.TreeFail.runHist env fuel qs w).events = w.events ++ evs ∧
      Djc.Proofs.Tree.gcdIds evs = List.range' w.nextId ((Djc.Proofs.TreeFail.runHist env fuel qs w).nextId - w.nextId) :=
  (Djc.Proofs.TreeFail.history_ids_returned env hlib fuel qs w hq hw hall).2

/-- instance (kernel-evaluated): three renders of the example page, the first raising in its fourth callback — the ids
of the whole history are pairwise distinct and the failed render's ids are not reused -/
example : Djc.Proofs.TreeFail.exHistIds = true := by decide +kernel

end Djc.Props.C14
