/-
  C14 — root elements of a component instance, and only they, carry its render id.
  Property theorems only.
-/
import Djc.Proofs.Render
namespace Djc.Props.C14
open Djc.Tpl Djc.Render Djc.Proofs.Render

end Djc.Props.C14
