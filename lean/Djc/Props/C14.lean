/-
  C14 — root elements of a component instance, and only they, carry its render id.
  Property theorems only.  `addRootAttrs` is `set_html_attributes(root_attributes=…)` on the token
  form; statements hold for every well-nested token list, at any nesting depth.
-/
import Djc.Proofs.Render
namespace Djc.Props.C14
open Djc.Tpl Djc.Render Djc.Proofs.Render

/-- well-nested output: what templates built from element nodes produce -/
inductive Balanced : List Tok → Prop
  | nil : Balanced []
  | text (s : Str) {rest} : Balanced rest → Balanced (.text s :: rest)
  | hole (i : Nat) (a : List Str) {rest} : Balanced rest → Balanced (.hole i a :: rest)
  | marker (c : Str) (i : Nat) {rest} : Balanced rest → Balanced (.marker c i :: rest)
  | elem (t : Str) (a : List Str) {inner rest} : Balanced inner → Balanced rest →
      Balanced (.opn t a :: (inner ++ .cls t :: rest))

/-- below the top level nothing is touched: a well-nested stretch passes through unchanged, at
every depth ≥ 1 -/
theorem nested_untouched (attrs : List Str) {xs : List Tok} (hb : Balanced xs) :
    ∀ (d : Nat) (ys : List Tok),
      addRootAttrsAux attrs (d + 1) (xs ++ ys) = xs ++ addRootAttrsAux attrs (d + 1) ys := by
  induction hb with
  | nil => intro d ys; rfl
  | text s _ ih => intro d ys; simp [addRootAttrsAux, ih]
  | hole i a _ ih => intro d ys; simp [addRootAttrsAux, ih]
  | marker c i _ ih => intro d ys; simp [addRootAttrsAux, ih]
  | elem t a _ _ ih1 ih2 =>
    intro d ys
    simp only [List.cons_append, List.append_assoc, addRootAttrsAux]
    rw [if_neg (by omega)]
    rw [ih1 (d + 1) _]
    simp only [addRootAttrsAux, Nat.add_sub_cancel]
    rw [ih2 d ys]

/-- **A root element gets the id; nothing inside it does.** -/
theorem root_element_tagged (attrs : List Str) (t : Str) (a : List Str) {inner : List Tok}
    (hb : Balanced inner) (rest : List Tok) :
    addRootAttrs attrs (.opn t a :: (inner ++ .cls t :: rest)) =
      .opn t (a ++ attrs) :: (inner ++ .cls t :: addRootAttrs attrs rest) := by
  unfold addRootAttrs
  simp only [addRootAttrsAux, if_true]
  rw [nested_untouched attrs hb 0 _]
  simp [addRootAttrsAux]

/-- text, markers at the top level are untouched; a placeholder at the top level is tagged (the
attributes are handed to the child whose output replaces it) -/
theorem root_text_untouched (attrs : List Str) (s : Str) (rest : List Tok) :
    addRootAttrs attrs (.text s :: rest) = .text s :: addRootAttrs attrs rest := rfl

theorem root_marker_untouched (attrs : List Str) (c : Str) (i : Nat) (rest : List Tok) :
    addRootAttrs attrs (.marker c i :: rest) = .marker c i :: addRootAttrs attrs rest := rfl

theorem root_placeholder_tagged (attrs : List Str) (i : Nat) (a : List Str) (rest : List Tok) :
    addRootAttrs attrs (.hole i a :: rest) = .hole i (a ++ attrs) :: addRootAttrs attrs rest := by
  simp [addRootAttrs, addRootAttrsAux]

/-- **Hand-over.** The attributes recorded for child placeholders: the parent's attributes for
a placeholder at the top level, none for a placeholder inside an element. -/
theorem nested_placeholders_get_nothing (attrs : List Str) {xs : List Tok} (hb : Balanced xs) :
    ∀ (d : Nat) (ys : List Tok),
      rootHolesAux attrs (d + 1) (xs ++ ys) =
        (xs.filterMap (fun t => match t with | .hole i _ => some (i, ([] : List Str)) | _ => none)) ++
          rootHolesAux attrs (d + 1) ys := by
  induction hb with
  | nil => intro d ys; rfl
  | text s _ ih => intro d ys; simp [rootHolesAux, ih]
  | hole i a _ ih => intro d ys; simp [rootHolesAux, ih]
  | marker c i _ ih => intro d ys; simp [rootHolesAux, ih]
  | elem t a _ _ ih1 ih2 =>
    intro d ys
    simp only [List.cons_append, List.append_assoc, rootHolesAux]
    rw [ih1 (d + 1) _]
    simp only [rootHolesAux, Nat.add_sub_cancel]
    rw [ih2 d ys]
    simp [List.filterMap_append]

theorem root_placeholder_handed_over (attrs : List Str) (i : Nat) (a : List Str) (rest : List Tok) :
    rootHoles attrs (.hole i a :: rest) = (i, attrs) :: rootHoles attrs rest := by
  simp [rootHoles, rootHolesAux]

/-- **Ids are distinct**: every `gen_id` call returns a number no earlier call returned. -/
theorem gen_id_fresh (w : World) :
    (genId.run.run w) = (.ok w.nextId, { w with nextId := w.nextId + 1 }) := rfl

/-- non-vacuity: `<div><p>x</p></div>t<span></span>` -/
example : addRootAttrs ["i".toList]
    [.opn "div".toList [], .opn "p".toList [], .text "x".toList, .cls "p".toList, .cls "div".toList, .text "t".toList,
     .opn "span".toList [], .cls "span".toList] =
    [.opn "div".toList ["i".toList], .opn "p".toList [], .text "x".toList, .cls "p".toList, .cls "div".toList, .text "t".toList,
     .opn "span".toList ["i".toList], .cls "span".toList] := by decide

end Djc.Props.C14
