/-
  C11 — a tag accepts its arguments exactly when the equivalent Python call would.
  Property theorems only (helper lemmas: `Djc/Proofs/Bind.lean`, `Djc/Proofs/BindEquiv.lean`).

  `tagCall path special s args` is the model of wrapper_render + validate_params + the final
  Python call; `pyCall s args` is Python's own binding.  Signatures have any arity, argument lists
  any length.
-/
import Djc.Proofs.Bind
import Djc.Proofs.BindEquiv
namespace Djc.Props.C11
open Djc.AList Djc.Model.Bind Djc.Spec.Bind Djc.Proofs.Bind

variable {κ : Type} [DecidableEq κ]

/-- A `SyntaxError` is raised only for a positional argument after a keyword one (exactly the
case in which the Python call itself is a syntax error); every other refusal is a `TypeError`. -/
theorem syntaxError_only_for_positional_after_keyword (path : Path) (special : κ → Bool)
    (s : Sig κ) (args : List (Arg κ)) (e : Err)
    (h : tagCall path special s args = .error e) :
    e = .type ∨ (e = .syntax ∧ pyCall s args = .error .syntax) := by
  unfold tagCall at h
  cases hs : splitSpecial special { keep := [], invalid := [], seenSpecial := false } args with
  | error e' =>
    rw [hs] at h; simp at h; subst h
    have := splitSpecial_error args hs
    right
    refine ⟨this.1, ?_⟩
    rcases this.2 with ⟨h1, _⟩ | h2
    · simp at h1
    · simp [pyCall, splitArgs_none_of_posAfterKw h2]
  | ok sp =>
    rw [hs] at h
    simp only at h
    cases hv : validate path s sp.keep sp.invalid with
    | error e' => rw [hv] at h; simp at h; subst h; exact Or.inl (validate_err_type hv)
    | ok r =>
      obtain ⟨vargs, vkw⟩ := r
      rw [hv] at h
      exact Or.inl (pyBind_err_type h)

/-- Keyword names that are not Python identifiers are accepted only through `**kwargs`. -/
theorem nonident_only_via_varkw (path : Path) (special : κ → Bool) (s : Sig κ)
    (args : List (Arg κ)) (hvk : s.varkw = none) (hsp : hasSpecialKw special args = true) :
    rejects (tagCall path special s args) = true := by
  unfold tagCall
  cases hs : splitSpecial special { keep := [], invalid := [], seenSpecial := false } args with
  | error e => simp [rejects]
  | ok sp =>
    have hne := splitSpecial_invalid_nonempty args hs (Or.inr hsp)
    simp only
    unfold validate
    cases hv : vloop path s vinit sp.keep with
    | error e => simp [rejects]
    | ok st =>
      have : ¬ sp.invalid.isEmpty = true := by
        intro h; exact hne (List.isEmpty_iff.mp h)
      simp [hvk, this, rejects]

/-- The fast path (over `__code__`) and the fallback path (over `inspect.Signature`) agree on
every call in which no keyword is literally the name of the `*args` parameter of a function
without `**kwargs` (there, both still reject: the fallback through the final Python call). -/
theorem code_path_eq_sig_path (special : κ → Bool) (s : Sig κ) (args : List (Arg κ))
    (h : s.varkw.isSome = true ∨ ∀ k ∈ kwKeys args, s.varargs ≠ some k) :
    tagCall .code special s args = tagCall .sig special s args := by
  unfold tagCall
  cases hs : splitSpecial special { keep := [], invalid := [], seenSpecial := false } args with
  | error e => rfl
  | ok sp =>
    simp only
    have hk : ∀ k ∈ kwKeys sp.keep, validKey .code s k = validKey .sig s k := by
      intro k hk
      apply validKey_agree
      rcases h with h | h
      · exact Or.inl h
      · right
        rcases splitSpecial_keep_keys args hs k hk with h1 | h1
        · simp [kwKeys] at h1
        · exact h k h1
    have : validate .code s sp.keep sp.invalid = validate .sig s sp.keep sp.invalid := by
      unfold validate
      rw [vloop_path_agree s sp.keep hk vinit]
    rw [this]

/-! ### the property at full strength is false on the current tree (known findings) -/

/-- Witness #6 of DESIGN §9: `def render(self, context, a=1000, /, **kw)` called without
arguments — Python binds `a=1000, kw={}`, the tag passes `a` by keyword and `kw` receives it. -/
theorem not_C11_full : ¬ C11_full := by
  intro h
  have := h .code (fun _ => false)
    { posonly := [⟨"a", some 1000⟩], poskw := [], varargs := none, kwonly := [], varkw := some "kw" }
    [] (by constructor <;> decide)
  revert this
  decide

/-- Two equal non-identifier keys are merged silently (last wins); Python raises `TypeError`. -/
theorem not_C11_full_dup_special :
    agree (tagCall .code (fun k => k == "data-x")
            { posonly := [], poskw := [], varargs := none, kwonly := [], varkw := some "kw" }
            [.kw "data-x" 1, .kw "data-x" 2])
          (pyCall { posonly := [], poskw := [], varargs := none, kwonly := [], varkw := some "kw" }
            [.kw "data-x" 1, .kw "data-x" 2]) = false := by
  decide

/-- Both witnesses lie outside `H`. -/
example : ¬ H (fun _ => false)
    ({ posonly := [⟨"a", some 1000⟩], poskw := [], varargs := none, kwonly := [], varkw := some "kw" } : Sig String)
    [] := by
  intro h; exact absurd h.1 (by decide)

/-! ### inside `H` the tag behaves exactly as the Python call -/

/-- **The main equivalence.**  For every key type, every well-formed signature without positional-only
parameters (any number of positional-or-keyword and keyword-only parameters, with or without defaults, with or
without `*args` / `**kwargs`), every argument list of any length in which no non-identifier key is given twice,
and both validator paths: the tag — `wrapper_render` splitting off the non-identifier keys, `validate_params`
(positional phase, keyword phase, `update(extra_kwargs)`, the defaults loop) and the final call of `render` with
the validated arguments — either binds exactly what the Python call `render(*args, **kwargs)` binds (named
parameters and `*args` equal, `**kwargs` equal as dictionaries), or both refuse.  Helper lemmas:
`Djc/Proofs/BindEquiv.lean`. -/
theorem tagCall_agrees_with_pyCall_in_H (path : Path) (special : κ → Bool) (s : Sig κ) (args : List (Arg κ))
    (hwf : WF special s) (hH : H special s args) :
    agree (tagCall path special s args) (pyCall s args) = true :=
  Djc.Proofs.BindEquiv.tagCall_agrees_with_pyCall path special s args hwf hH

/-- `C11_partial` (the statement of `Djc/Spec/Bind.lean` for string keys) is a theorem. -/
theorem tagCall_eq_pyCall_partial : C11_partial :=
  fun path special s args hwf hH => tagCall_agrees_with_pyCall_in_H path special s args hwf hH

/-- **A positional argument after a keyword argument is always refused** (no hypothesis on the signature or on
the keys): where the Python call is a `SyntaxError`, the tag raises too. -/
theorem positional_after_keyword_refused (path : Path) (special : κ → Bool) (s : Sig κ) (args : List (Arg κ))
    (h : pyCall s args = .error .syntax) : rejects (tagCall path special s args) = true := by
  apply Djc.Proofs.BindEquiv.tagCall_posAfterKw
  apply Djc.Proofs.BindEquiv.splitArgs_none
  unfold pyCall at h
  cases hs : splitArgs args with
  | none => rfl
  | some pk =>
    obtain ⟨P, K⟩ := pk
    rw [hs] at h
    simp only at h
    exact absurd h (fun hh => by have := pyBind_err_type hh; cases this)

/-! ### non-vacuity -/

example : tagCall .code (fun k => k == "data-x")
    { posonly := [], poskw := [⟨"a", none⟩, ⟨"b", some 1001⟩], varargs := none,
      kwonly := [⟨"c", none⟩], varkw := some "kw" }
    [.pos 1, .kw "c" 2, .kw "data-x" 3]
    = .ok { params := [("a", 1), ("b", 1001), ("c", 2)], varargs := [], varkw := [("data-x", 3)] } := by
  decide

example : tagCall .code (fun k => k == "data-x")
    ({ posonly := [], poskw := [⟨"a", none⟩], varargs := none, kwonly := [], varkw := none } : Sig String)
    [.kw "data-x" 3, .pos 1] = .error .syntax := by
  decide

end Djc.Props.C11
