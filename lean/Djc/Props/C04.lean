/-
  C04 — exactly the JS/CSS of the rendered components is delivered, once, in order.
  Property theorems only (model: `Djc/Model/Collect.lean`).  All statements are for every marker
  sequence (any length, any repetition) and every class table.
-/
import Djc.Model.Collect
import Djc.Proofs.Tree
namespace Djc.Props.C04
open Djc.Collect

/-! ### first occurrences -/

theorem mem_firstOcc {α} [DecidableEq α] (l : List α) (x : α) : x ∈ firstOcc l ↔ x ∈ l := by
  induction l with
  | nil => simp [firstOcc]
  | cons a rest ih =>
    simp only [firstOcc, List.mem_cons, List.mem_filter, decide_eq_true_eq, ih]
    constructor
    · rintro (h | ⟨h, _⟩)
      · exact Or.inl h
      · exact Or.inr h
    · rintro (h | h)
      · exact Or.inl h
      · by_cases hx : x = a
        · exact Or.inl hx
        · exact Or.inr ⟨h, hx⟩

theorem nodup_firstOcc {α} [DecidableEq α] (l : List α) : (firstOcc l).Nodup := by
  induction l with
  | nil => simp [firstOcc]
  | cons a rest ih =>
    simp only [firstOcc, List.nodup_cons, List.mem_filter, decide_eq_true_eq]
    exact ⟨fun h => h.2 rfl, ih.filter _⟩

theorem filter_ne_append_self {α} [DecidableEq α] (l : List α) (a : α) (h : a ∉ l) :
    l.filter (· ≠ a) = l := by
  rw [List.filter_eq_self]
  intro x hx
  simp only [ne_eq, decide_eq_true_eq]
  rintro rfl
  exact h hx

/-- the accumulator loop against the specification, for any state of the loop in which `seen`
and `acc` hold the same elements without repetition -/
theorem collectLoop_spec (ms seen acc : List Nat) (hs : ∀ x, x ∈ seen ↔ x ∈ acc) :
    collectLoop ms seen acc = acc ++ (firstOcc ms).filter (fun x => !acc.contains x) := by
  induction ms generalizing seen acc with
  | nil => simp [collectLoop, firstOcc]
  | cons c rest ih =>
    unfold collectLoop
    by_cases hc : seen.contains c = true
    · have hca : c ∈ acc := (hs c).mp (by simpa using hc)
      simp only [hc, if_true]
      rw [ih seen acc hs]
      congr 1
      simp only [firstOcc, List.filter_cons]
      have : (!acc.contains c) = false := by simp [hca]
      simp only [this]
      rw [List.filter_filter]
      apply List.filter_congr
      intro x _
      by_cases hx : x = c
      · subst hx; simp [hca]
      · simp [hx]
    · have hca : c ∉ acc := fun h => hc (by simpa using (hs c).mpr h)
      rw [if_neg hc]
      rw [ih (c :: seen) (acc ++ [c]) (by intro x; simp [hs x]; exact Or.comm)]
      simp only [firstOcc, List.filter_cons]
      have : (!acc.contains c) = true := by simp [hca]
      simp only [this, if_true, List.append_assoc, List.singleton_append]
      congr 2
      rw [List.filter_filter]
      apply List.filter_congr
      intro x _
      by_cases hx : x = c
      · subst hx; simp
      · simp [hx]

/-- **Classes are collected in order of first appearance.** -/
theorem collect_eq_firstOcc (ms : List Nat) : collect ms = firstOcc ms := by
  unfold collect
  rw [collectLoop_spec ms [] [] (by simp)]
  simp

theorem dedupeLoop_spec (us urls : List Str) :
    dedupeLoop us urls = urls ++ (firstOcc us).filter (fun x => !urls.contains x) := by
  induction us generalizing urls with
  | nil => simp [dedupeLoop, firstOcc]
  | cons u rest ih =>
    unfold dedupeLoop
    by_cases hc : urls.contains u = true
    · have hca : u ∈ urls := by simpa using hc
      simp only [hc, if_true]
      rw [ih urls]
      congr 1
      simp only [firstOcc, List.filter_cons]
      have : (!urls.contains u) = false := by simp [hca]
      simp only [this]
      rw [List.filter_filter]
      apply List.filter_congr
      intro x _
      by_cases hx : x = u
      · subst hx; simp [hca]
      · simp [hx]
    · have hca : u ∉ urls := fun h => hc (by simpa using h)
      rw [if_neg hc]
      rw [ih (urls ++ [u])]
      simp only [firstOcc, List.filter_cons]
      have : (!urls.contains u) = true := by simp [hca]
      simp only [this, if_true, List.append_assoc, List.singleton_append]
      congr 2
      rw [List.filter_filter]
      apply List.filter_congr
      intro x _
      by_cases hx : x = u
      · subst hx; simp
      · simp [hx]

theorem dedupe_eq_firstOcc (us : List Str) : dedupe us = firstOcc us := by
  unfold dedupe
  rw [dedupeLoop_spec us []]
  simp

theorem firstOcc_of_nodup {α} [DecidableEq α] (l : List α) (h : l.Nodup) : firstOcc l = l := by
  induction l with
  | nil => rfl
  | cons a rest ih =>
    simp only [List.nodup_cons] at h
    simp only [firstOcc, ih h.2]
    rw [filter_ne_append_self rest a h.1]

/-- **Processing is stable**: harvesting the classes again from an already deduplicated sequence
changes nothing (a page that is post-processed twice — middleware after `render_dependencies` —
sees the same classes in the same order). -/
theorem collect_idempotent (ms : List Nat) : collect (collect ms) = collect ms := by
  rw [collect_eq_firstOcc, collect_eq_firstOcc, firstOcc_of_nodup _ (nodup_firstOcc ms)]

/-! ### the property clauses -/

/-- **Exactly the rendered classes, once.**  A class's inline JS is delivered iff the class was
rendered (its marker occurs) and has JS; never twice; unrendered classes contribute nothing. -/
theorem inline_js_exactly_once (table : Nat → Cls) (ms : List Nat) :
    (process true table ms).inlineJs.Nodup ∧
    ∀ c, c ∈ (process true table ms).inlineJs ↔ (c ∈ ms ∧ (table c).hasJs = true) := by
  simp only [process, if_true, collect_eq_firstOcc]
  refine ⟨(nodup_firstOcc ms).filter _, ?_⟩
  intro c
  simp [List.mem_filter, mem_firstOcc]

theorem inline_css_exactly_once (table : Nat → Cls) (ms : List Nat) :
    (process true table ms).inlineCss.Nodup ∧
    ∀ c, c ∈ (process true table ms).inlineCss ↔ (c ∈ ms ∧ (table c).hasCss = true) := by
  simp only [process, if_true, collect_eq_firstOcc]
  refine ⟨(nodup_firstOcc ms).filter _, ?_⟩
  intro c
  simp [List.mem_filter, mem_firstOcc]

/-- **Order of first appearance.** -/
theorem inline_js_in_order_of_first_appearance (table : Nat → Cls) (ms : List Nat) :
    (process true table ms).inlineJs = (firstOcc ms).filter (fun c => (table c).hasJs) := by
  simp [process, collect_eq_firstOcc]

/-- **Every Media file of the rendered classes exactly once** (shared files between components
included), and no file of a class that was not rendered. -/
theorem media_js_exactly_once (doc : Bool) (table : Nat → Cls) (ms : List Nat) :
    (process doc table ms).mediaJs.Nodup ∧
    ∀ u, u ∈ (process doc table ms).mediaJs ↔ ∃ c, c ∈ ms ∧ u ∈ (table c).mediaJs := by
  simp only [process, collect_eq_firstOcc, dedupe_eq_firstOcc]
  refine ⟨nodup_firstOcc _, ?_⟩
  intro u
  simp only [mem_firstOcc, List.mem_flatten, List.mem_map]
  constructor
  · rintro ⟨l, ⟨c, hc, rfl⟩, hu⟩
    exact ⟨c, hc, hu⟩
  · rintro ⟨c, hc, hu⟩
    exact ⟨_, ⟨c, hc, rfl⟩, hu⟩

theorem media_css_exactly_once (doc : Bool) (table : Nat → Cls) (ms : List Nat) :
    (process doc table ms).mediaCss.Nodup ∧
    ∀ u, u ∈ (process doc table ms).mediaCss ↔ ∃ c, c ∈ ms ∧ u ∈ (table c).mediaCss := by
  simp only [process, collect_eq_firstOcc, dedupe_eq_firstOcc]
  refine ⟨nodup_firstOcc _, ?_⟩
  intro u
  simp only [mem_firstOcc, List.mem_flatten, List.mem_map]
  constructor
  · rintro ⟨l, ⟨c, hc, rfl⟩, hu⟩
    exact ⟨c, hc, hu⟩
  · rintro ⟨c, hc, hu⟩
    exact ⟨_, ⟨c, hc, rfl⟩, hu⟩

/-- **Fragment mode declares the same set**: what document mode inlines, fragment mode hands to the
client-side loader, class by class and file by file; nothing is inlined. -/
theorem fragment_declares_same_set (table : Nat → Cls) (ms : List Nat) :
    (process false table ms).loadJsClasses = (process true table ms).inlineJs ∧
    (process false table ms).loadCssClasses = (process true table ms).inlineCss ∧
    (process false table ms).mediaJs = (process true table ms).mediaJs ∧
    (process false table ms).mediaCss = (process true table ms).mediaCss ∧
    (process false table ms).inlineJs = [] ∧ (process false table ms).inlineCss = [] := by
  simp [process]

/-- **Markers are recognised**: the payload written for a class whose hash and render id consist of
ASCII letters, digits and `_` is accepted by the harvesting pattern. -/
theorem marker_roundtrip (clsHash id : Str)
    (h1 : ∀ c ∈ clsHash, c.val < 128 ∧ (c.isAlphanum = true ∨ c = '_'))
    (h2 : ∀ c ∈ id, c.val < 128 ∧ (c.isAlphanum = true ∨ c = '_')) :
    harvestable (payloadOf clsHash id) = true := by
  have hw : ∀ (l : Str), (∀ c ∈ l, c.val < 128 ∧ (c.isAlphanum = true ∨ c = '_')) → l.all payloadChar = true := by
    intro l hl
    rw [List.all_eq_true]
    intro c hc
    obtain ⟨a, b⟩ := hl c hc
    unfold payloadChar
    rcases b with b | b <;> simp [a, b]
  unfold harvestable payloadOf
  simp only [List.all_append, List.all_cons, List.all_nil, hw _ h1, hw _ h2, Bool.and_true, Bool.true_and,
    Bool.and_eq_true, Bool.not_eq_true']
  refine ⟨by simp, by decide⟩

example : harvestable (payloadOf "Table_a1b2c3".toList "q00001".toList) = true := by decide

/-- **The ASCII hypothesis cannot be dropped** (known finding, C04): a class whose name has a
non-ASCII letter (a valid Python identifier) writes a marker the byte pattern does not recognise. -/
theorem not_marker_roundtrip_unicode :
    ¬ (∀ clsHash id : Str, (∀ c ∈ clsHash, c.isAlphanum = true ∨ c = '_' ∨ c.val ≥ 128) →
        harvestable (payloadOf clsHash id) = true) := by
  intro h
  have := h "Ünï_a1b2c3".toList "q00001".toList (by decide)
  revert this
  decide

/-! ### placeholder elements do not survive -/

/-- **No placeholder element survives `component_post_render`, at any nesting depth.**  A component tag no component
encloses, over any library of the tree fragment (`Djc.Proofs.Tree.GoodLib`): the tokens the render returns contain no
`<template djc-render-id>` placeholder — every one of them was replaced by its instance's output before the loop
ended. -/
theorem no_placeholder_survives_component_trees (env : Djc.Render.Env) (hlib : Djc.Proofs.Tree.GoodLib env) (fuel : Nat)
    (name : Djc.Tpl.Str) (kwargs : List (Djc.Tpl.Str × Djc.Tpl.Expr)) (only dyn : Bool) (body : List Djc.Tpl.Node) (ctx : Djc.Tpl.Ctx)
    (w w' : Djc.Render.World) (toks : List Djc.Tpl.Tok)
    (hd : Djc.Render.isDynName name = false) (hb : Djc.Proofs.Tree.gbody body = true) (hc : Djc.Proofs.Plain.ctxFree ctx = true)
    (hw : Djc.Proofs.Tree.WInv w)
    (hext : Djc.Render.isExtracting ctx = false)
    (hpar : Djc.Proofs.Tree.parentOf (if only || env.isolated then Djc.Render.isolatedCopy ctx else ctx) = none)
    (h : (Djc.Render.renderCompTag env fuel name kwargs only dyn body ctx).run.run w = (.ok toks, w')) :
    Djc.Proofs.Tree.holeIds toks = [] :=
  (Djc.Proofs.Tree.tree_root_tag env hlib fuel name kwargs only dyn body ctx w w' toks hd hb hc hw hext hpar h).2

example : Djc.Proofs.Tree.exSummary false = true := by decide +kernel

end Djc.Props.C04
