/-
  C02 — tag arguments reach Python with exactly the values they denote.
  Property theorems only.  `resolveVal` / `resolveList` / `resolveDict` / `resolveAttrs` /
  `processAggregate` model the path from the parsed arguments to the receiver; leaf evaluation is a
  parameter `leaf` (stock Django, supplied by the harness as a table) and `eq` is the key comparison.
  All statements hold for every argument tree (any depth), every leaf table, every `eq`.
-/
import Djc.Model.Resolve
import Djc.Proofs.TagParser
namespace Djc.Props.C02
open Djc.Model.TagParser Djc.Model.Resolve Djc.Proofs.TagParser

variable (eq : PV → PV → Bool) (leaf : Str → Option PV)

/-- A list literal denotes the concatenation of what its entries denote: resolving `es1 ++ es2` is
resolving `es1`, then `es2`, and appending (errors propagate left to right). -/
theorem list_literal_concatenates (es1 es2 : List Val) :
    resolveList eq leaf (es1 ++ es2) =
      (match resolveList eq leaf es1 with
       | .error e => .error e
       | .ok xs =>
         match resolveList eq leaf es2 with
         | .error e => .error e
         | .ok ys => .ok (xs ++ ys)) := by
  induction es1 with
  | nil =>
    simp only [List.nil_append]
    rw [resolveList]
    cases resolveList eq leaf es2 <;> simp
  | cons e es ih =>
    simp only [List.cons_append]
    rw [resolveList, resolveList]
    cases resolveVal eq leaf e with
    | error err => rfl
    | ok r =>
      simp only
      generalize listEntry e r = here
      cases here with
      | error err => rfl
      | ok xs =>
        simp only
        rw [ih]
        cases resolveList eq leaf es with
        | error err => rfl
        | ok rest =>
          simp only
          cases resolveList eq leaf es2 with
          | error err => rfl
          | ok ys => simp [List.append_assoc]

/-- `[*[a, b], c]` denotes `[a, b, c]`: a `*`-spread list literal is inlined. -/
theorem list_spread_of_literal_inlines (inner rest : List Val) (sp : Str) :
    resolveList eq leaf (Val.struct .list (some sp) inner :: rest) =
      resolveList eq leaf (inner ++ rest) := by
  have hsingle : resolveList eq leaf [Val.struct .list (some sp) inner] = resolveList eq leaf inner := by
    simp only [resolveList, resolveVal]
    cases resolveList eq leaf inner with
    | error e => rfl
    | ok xs => simp [Except.map, listEntry]
  have := list_literal_concatenates eq leaf [Val.struct .list (some sp) inner] rest
  simp only [List.singleton_append] at this
  rw [this, hsingle, list_literal_concatenates]

/-- A dict literal is the left-to-right update with its pairs: after a key and a value (neither a
spread) the pair is stored with `d[k] = v` semantics and resolution continues. -/
theorem dict_literal_updates_in_order (kparts vparts : List Part) (rest : List Val)
    (acc : List (PV × PV)) (rk rv : PV)
    (hk : firstSpreadOf kparts = false) (hv : firstSpreadOf vparts = false)
    (hlk : leaf (serializeParts true kparts) = some rk) (hlv : leaf (serializeParts true vparts) = some rv) :
    resolveDict eq leaf (.value kparts :: .value vparts :: rest) acc none =
      resolveDict eq leaf rest (dictSet eq rk rv acc) none := by
  rw [resolveDict]
  simp only [resolveVal, hlk, hk, Bool.false_eq_true, if_false]
  rw [resolveDict]
  simp only [resolveVal, hlv, hv, Bool.false_eq_true, if_false]

/-- `**` of a variable merges that mapping at its position; a spread right after a key is refused
(never re-interpreted). -/
theorem dict_spread_merges_or_raises (parts : List Part) (rest : List Val) (acc : List (PV × PV))
    (kvs : List (PV × PV)) (pending : PV)
    (hs : firstSpreadOf parts = true) (hl : leaf (serializeParts true parts) = some (.dict kvs)) :
    resolveDict eq leaf (.value parts :: rest) acc none =
      resolveDict eq leaf rest (dictUpdate eq acc kvs) none ∧
    resolveDict eq leaf (.value parts :: rest) acc (some pending) =
      .error (.tse "spread on the position of a dict value") := by
  constructor
  · rw [resolveDict]
    simp [resolveVal, hl, hs]
  · rw [resolveDict]
    simp [resolveVal, hl, hs]

/-- A top-level `...x` splices: a mapping becomes keyword arguments (in its order), any other
iterable positional arguments; a non-iterable is refused; without a spread the attribute is one
parameter. -/
theorem top_level_spread_splices (a : Attr) (hkey : a.key = none) :
    ((valSpread a.value).isSome = true →
      (∀ kvs, attrParams a (.dict kvs) =
        .ok (kvs.map (fun kv => { key := (match strOfPV kv.1 with | some s => some s | none => some []), value := kv.2 }))) ∧
      (∀ xs, attrParams a (.list xs) = .ok (xs.map (fun x => { key := none, value := x }))) ∧
      (∀ x, attrParams a (.atom x) = .error (.value "cannot spread non-iterable value"))) ∧
    ((valSpread a.value).isSome = false → ∀ r, attrParams a r = .ok [{ key := none, value := r }]) := by
  constructor
  · intro hsp
    refine ⟨?_, ?_, ?_⟩
    · intro kvs; simp only [attrParams, hsp, hkey, if_true]; rfl
    · intro xs; simp [attrParams, hsp, hkey, iterate]
    · intro x; simp [attrParams, hsp, hkey, iterate]
  · intro hsp r
    simp [attrParams, hsp, hkey]

/-- the parameters of a tag are the concatenation of what its attributes contribute, in order -/
theorem params_concatenate (a : Attr) (as : List Attr) :
    resolveAttrs eq leaf (a :: as) =
      (match resolveVal eq leaf a.value with
       | .error e => .error e
       | .ok r =>
         match attrParams a r with
         | .error e => .error e
         | .ok ps =>
           match resolveAttrs eq leaf as with
           | .error e => .error e
           | .ok rest => .ok (ps ++ rest)) := by
  simp only [resolveAttrs]
  cases resolveVal eq leaf a.value with
  | error e => rfl
  | ok r =>
    simp only
    cases attrParams a r with
    | error e => rfl
    | ok ps =>
      simp only
      cases resolveAttrs eq leaf as <;> rfl

/-- Without aggregate keys `process_aggregate_kwargs` changes nothing. -/
theorem aggregate_identity_without_colons (ps : List Param)
    (h : ∀ p, p ∈ ps → isPlainParam p = true) :
    processAggregate ps = .ok ps := by
  have hkey : ∀ p, isPlainParam p = true → ∀ k, p.key = some k → isAggregateKey k = false := by
    intro p hp k hk
    simp [isPlainParam, hk] at hp; exact hp
  have hconf : ∀ (qs : List Param) (regs : List Str),
      (∀ p, p ∈ qs → isPlainParam p = true) → aggConflict qs regs [] = false := by
    intro qs
    induction qs with
    | nil => intro regs _; rfl
    | cons p qs ih =>
      intro regs hh
      simp only [aggConflict]
      cases hk : p.key with
      | none => simp only; exact ih regs (fun q hq => hh q (by simp [hq]))
      | some k =>
        have := hkey p (hh p (by simp)) k hk
        simp only [this, Bool.false_eq_true, if_false, List.contains_nil]
        exact ih (k :: regs) (fun q hq => hh q (by simp [hq]))
  have hplain : ps.filter isPlainParam = ps := List.filter_eq_self.mpr h
  have hnested : ∀ (qs : List Param) (acc : List (Str × List (PV × PV))),
      (∀ p, p ∈ qs → isPlainParam p = true) → qs.foldl aggStep acc = acc := by
    intro qs
    induction qs with
    | nil => intro acc _; rfl
    | cons q qs ih =>
      intro acc hh
      simp only [List.foldl_cons]
      have hstep : aggStep acc q = acc := by
        unfold aggStep
        cases hk : q.key with
        | none => rfl
        | some k =>
          have := hkey q (hh q (by simp)) k hk
          simp [this]
      rw [hstep]
      exact ih acc (fun p hp => hh p (by simp [hp]))
  unfold processAggregate
  simp only [hconf ps [] h, Bool.false_eq_true, if_false, hplain, aggNested, hnested ps [] h]
  simp

/-- Aggregate keywords are collected per prefix, prefixes in order of first appearance, inner keys
with dictionary semantics (a repeated inner key keeps its position, last value wins). -/
theorem aggregate_collects_in_order (acc : List (Str × List (PV × PV))) (outer inner : Str) (v : PV)
    (p : Param) (hk : p.key = some (outer ++ ':' :: inner)) (hv : p.value = v)
    (ho : ':' ∉ outer) (hne : outer ≠ []) :
    aggStep acc p =
      if acc.any (fun e => e.1 == outer) then
        acc.map (fun e => if e.1 == outer then (e.1, dictSet strKeyEq (.str inner) v e.2) else e)
      else acc ++ [(outer, dictSet strKeyEq (.str inner) v [])] := by
  have hsplit : ∀ (o : Str), ':' ∉ o → splitFirstColon (o ++ ':' :: inner) = (o, inner) := by
    intro o
    induction o with
    | nil => intro _; simp [splitFirstColon]
    | cons c cs ih =>
      intro hc
      have h1 : c ≠ ':' := fun e => hc (e ▸ List.mem_cons_self)
      simp [splitFirstColon, h1, ih (fun m => hc (List.mem_cons_of_mem _ m))]
  have hagg : isAggregateKey (outer ++ ':' :: inner) = true := by
    cases outer with
    | nil => exact absurd rfl hne
    | cons c cs =>
      have h1 : c ≠ ':' := fun e => ho (e ▸ List.mem_cons_self)
      simp [isAggregateKey, h1]
  unfold aggStep
  simp only [hk, hagg, if_true, hsplit outer ho, hv]

/-- The same name as a plain keyword and as an aggregate prefix is refused. -/
theorem aggregate_conflict_raises (ps : List Param) (h : aggConflict ps [] [] = true) :
    processAggregate ps = .error (.tse "regular and aggregate key conflict") := by
  simp [processAggregate, h]

/-- **White space is insignificant** wherever the container loop or the filter-chain loop is about
to read a token: moving any white space from the front of the remaining text into the consumed
text does not change what the step does (same outcome, same resulting state). -/
theorem ws_insignificant_before_tokens (st : St) (w : Str) (hw : ∀ c, c ∈ w → isWs c = true)
    (hphase : st.phase ≠ .attr) :
    step { st with rest := w ++ st.rest } = step { st with norm := st.norm ++ w } := by
  have hdrop := dropWhile_append_of_all isWs w st.rest hw
  have htake := takeWhile_append_of_all isWs w st.rest hw
  cases hp : st.phase with
  | attr => exact absurd hp hphase
  | struct key idx stack =>
    simp only [step, hp, hdrop, htake, List.append_assoc]
  | parts key idx stack curr parts =>
    simp only [step, hp, hdrop, htake, List.append_assoc]

/-- The self-closing slash never changes the arguments: a tag written with a trailing `/` resolves
to the same parameters and flags as without it. -/
theorem slash_does_not_change_params (allowed : List Str) (name : Attr) (rest : List Attr)
    (slash : Attr) (hs : serializeSimple slash.value = some ['/']) (hk : slash.key = none)
    (hrest : match rest.getLast? with
      | some l => ¬ (serializeSimple l.value = some ['/'] ∧ l.key.isNone = true)
      | none => True) :
    resolveTag eq leaf allowed (name :: (rest ++ [slash])) = resolveTag eq leaf allowed (name :: rest) := by
  unfold resolveTag
  simp only [List.drop_one, List.tail_cons]
  have h1 : (rest ++ [slash]).getLast? = some slash := by simp
  have h2 : (rest ++ [slash]).dropLast = rest := by simp
  simp only [h1, hs, hk, Option.isNone_none, and_self, if_true, h2]
  cases hl : rest.getLast? with
  | none => rfl
  | some l =>
    rw [hl] at hrest
    simp only [hrest, if_false]

/-! ### non-vacuity -/

example :
    let leaf : Str → Option PV := fun t =>
      if t = "1".toList then some (.atom "1".toList) else if t = "xs".toList then some (.list [.atom "2".toList, .atom "3".toList]) else none
    (match parseTag "p a=[1, *xs,\n [1]]".toList with
     | .ok _ attrs => (match resolveTag (fun _ _ => false) leaf [] attrs with
        | .ok (ps, _) => ps.length
        | .error _ => 99)
     | _ => 98) = 1 := by
  decide +kernel

end Djc.Props.C02
