/-
  C01 — each slot renders the fill addressed to it, else its own default content.
  Property theorems only.  Model: `Djc/Model/Render.lean` (the code), `Djc/Spec/Render.lean` (the
  property's reading).  The whole-pipeline refinement is stated as `C01_full` and is open; the
  theorems below each carry one clause of the property for all inputs.
-/
import Djc.Model.Render
import Djc.Spec.Render
namespace Djc.Props.C01
open Djc.Tpl Djc.Render

/-- **Fill choice, named.** A slot that is not flagged `default`, or whose component received no
`default` fill, consults the fill carrying the slot's own name — whatever the fills are. -/
theorem fill_choice_named (isDefault : Bool) (n : Str) (fills : List (Str × FillFn))
    (h : isDefault = false ∨ (sGet defaultKey fills).isSome = false) :
    chooseFillName isDefault n fills = n := by
  unfold chooseFillName
  rcases h with h | h <;> simp [h]

/-- **Fill choice, default.** The slot flagged `default` consults the implicit `default` fill
whenever one was given. -/
theorem fill_choice_default (n : Str) (fills : List (Str × FillFn))
    (h : (sGet defaultKey fills).isSome = true) :
    chooseFillName true n fills = defaultKey := by
  unfold chooseFillName
  simp [h]

example : chooseFillName true "s1".toList [("default".toList, default)] = "default".toList := by decide
example : chooseFillName false "s1".toList [("default".toList, default)] = "s1".toList := by decide

/-- **is_filled.** `component_vars.is_filled.<name>` is true exactly for the (escaped) names of the
fills that were provided — for any fills and any name other than the attribute `is_filled` itself. -/
theorem is_filled_iff_provided (fills : List (Str × FillFn)) (n : Str) (hn : n ≠ isFilledKey) :
    getField (compVars fills) n = some (.bool ((fills.map (fun kv => escapeSlotName kv.1)).contains n)) := by
  simp [compVars, getField, hn]

/-- the same through the template path `component_vars.is_filled.<name>` -/
theorem is_filled_path (ctx : Ctx) (fills : List (Str × FillFn)) (n : Str) (hn : n ≠ isFilledKey)
    (h : ctxGet ctx compVarsKey = some (compVars fills)) :
    evalExpr ctx (.var [compVarsKey, isFilledKey, n]) =
      .bool ((fills.map (fun kv => escapeSlotName kv.1)).contains n) := by
  simp [evalExpr, evalPath, h, compVars, getField, hn]

/-- The property at full strength, as a statement about the two interpreters: whenever neither
runs out of fuel, the model of the code and the property's reading produce the same tokens up to
the numbering of instances.  OPEN (and false on the unchanged tree in django mode: see
`known_findings.json`, C01). -/
def C01_full : Prop :=
  ∀ (env : Env) (fuel : Nat) (page : List Node) (vars : Layer) (toks : List Tok) (w : World),
    (renderNodes env fuel page (rootCtx vars)).run.run {} = (.ok toks, w) →
    ∃ toks' s, (Djc.SpecRender.sNodes env fuel page (.mk [[], vars] [] none [])).run {} = .ok (toks', s) ∧
      toks.length = toks'.length

end Djc.Props.C01
