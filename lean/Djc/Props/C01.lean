/-
  C01 — each slot renders the fill addressed to it, else its own default content.
  Property theorems only.  Model: `Djc/Model/Render.lean` (the code), `Djc/Spec/Render.lean` (the
  property's reading).  The whole-pipeline refinement is stated as `C01_full` and is open; the
  theorems below each carry one clause of the property for all inputs.
-/
import Djc.Proofs.Render
import Djc.Proofs.Plain
import Djc.Proofs.LeafSpec
import Djc.Proofs.Slotty
import Djc.Proofs.Filled
import Djc.Spec.Render
import Djc.Proofs.Stitch
import Djc.Proofs.TreeFail
namespace Djc.Props.C01
open Djc.Tpl Djc.Render Djc.Proofs.Render

/-- **Fill choice, named.** A slot that is not flagged `default`, or whose component received no
`default` fill, consults the fill carrying the slot's own name — whatever the fills are. -/
theorem fill_choice_named (isDefault : Bool) (n : Str) (fills : List (Str × FillFn))
    (h : isDefault = false ∨ (sGet defaultKey fills).isSome = false) :
    chooseFillName isDefault n fills = n := by
  unfold chooseFillName
  rcases h with h | h <;> simp [h]

/-- **Fill choice, default.** The slot flagged `default` consults the implicit `default` fill
whenever one was given. -/
theorem fill_choice_default (n : Str) (fills : List (Str × FillFn))
    (h : (sGet defaultKey fills).isSome = true) :
    chooseFillName true n fills = defaultKey := by
  unfold chooseFillName
  simp [h]

example : chooseFillName true "s1".toList [("default".toList, default)] = "default".toList := by decide
example : chooseFillName false "s1".toList [("default".toList, default)] = "s1".toList := by decide

/-- **is_filled.** `component_vars.is_filled.<name>` is true exactly for the (escaped) names of the
fills that were provided — for any fills and any name other than the attribute `is_filled` itself. -/
theorem is_filled_iff_provided (fills : List (Str × FillFn)) (n : Str) (hn : n ≠ isFilledKey) :
    getField (compVars fills) n = some (.bool ((fills.map (fun kv => escapeSlotName kv.1)).contains n)) := by
  simp [compVars, getField, hn]

/-- the same through the template path `component_vars.is_filled.<name>` -/
theorem is_filled_path (ctx : Ctx) (fills : List (Str × FillFn)) (n : Str) (hn : n ≠ isFilledKey)
    (h : ctxGet ctx compVarsKey = some (compVars fills)) :
    evalExpr ctx (.var [compVarsKey, isFilledKey, n]) =
      .bool ((fills.map (fun kv => escapeSlotName kv.1)).contains n) := by
  simp [evalExpr, evalPath, h, compVars, getField, hn]

/-! ### which fills a component has (`resolve_fills`) -/

/-- **No fill tag executed.** The body is the implicit `default` fill, unless it is blank (only
white-space text), in which case the component has no fills — whatever the body is. -/
theorem implicit_default_fill (body : List Node) (content : List Tok) :
    decideFills [] body content =
      .ok (if blankBody body then [] else [(defaultKey, { nodes := body, dataVar := none, defaultVar := none, extra := [] })]) := by
  unfold decideFills
  simp only [List.isEmpty_nil, if_true]
  split <;> rfl

/-- **Fill tags may not sit next to other content**, and may not address one slot twice. -/
theorem fills_next_to_content_raise (captured : List Captured) (body : List Node) (content : List Tok)
    (h1 : captured ≠ []) (h2 : blankToks content = false) :
    decideFills captured body content = .error (.tse "fill alongside other content") := by
  unfold decideFills
  have : captured.isEmpty = false := by cases captured <;> simp_all
  simp [this, h2]

theorem duplicate_fills_raise (captured : List Captured) (body : List Node) (content : List Tok)
    (h1 : captured ≠ []) (h2 : blankToks content = true) (h3 : ¬ (captured.map (·.name)).Nodup) :
    decideFills captured body content = .error (.tse "duplicate fill") := by
  unfold decideFills
  have : captured.isEmpty = false := by cases captured <;> simp_all
  simp [this, h2, h3]

/-- **Every fill that executed is the component's fill for the name it carries** — named,
conditional, looped and dynamically named fills alike (the names are what the fill tags evaluated
to), for any number of them. -/
theorem every_executed_fill_is_kept (captured : List Captured) (body : List Node) (content : List Tok)
    (h1 : captured ≠ []) (h2 : blankToks content = true) (h3 : (captured.map (·.name)).Nodup) :
    ∃ fills, decideFills captured body content = .ok fills ∧
      ∀ c ∈ captured, sGet c.name fills = some (fillOfCaptured c) := by
  unfold decideFills
  have : captured.isEmpty = false := by cases captured <;> simp_all
  simp only [this, h2, h3]
  exact ⟨_, by simp, fun c hc => sGet_fold captured [] c hc h3⟩

/-! ### the checks a slot makes -/

/-- **A `required` slot without a fill raises** (unless the component is the dynamic wrapper). -/
theorem required_unfilled_raises : requiredCheck true false none = .error (.tse "required slot not filled") := rfl

theorem required_filled_or_optional_passes (isRequired isDyn : Bool) (fill : Option FillFn)
    (h : isRequired = false ∨ fill.isSome = true ∨ isDyn = true) : requiredCheck isRequired isDyn fill = .ok () := by
  unfold requiredCheck
  rcases h with h | h | h <;> simp [h]
  cases fill <;> simp_all

/-- **Two slots flagged `default` with different names are refused**; so is a slot that is filled both
by name and implicitly. -/
theorem two_default_slots_raise (recorded slotName : Str) (fills : List (Str × FillFn)) (h : slotName ≠ recorded) :
    slotChecks true false (some recorded) slotName fills = .error (.tse "two default slots") := by
  simp [slotChecks, h]

theorem double_fill_raises (recorded : Option Str) (slotName : Str) (fills : List (Str × FillFn))
    (hr : recorded = none ∨ recorded = some slotName) (hn : slotName ≠ defaultKey)
    (h1 : (sGet slotName fills).isSome = true) (h2 : (sGet defaultKey fills).isSome = true) :
    slotChecks true false recorded slotName fills = .error (.tse "slot filled twice") := by
  rcases hr with hr | hr <;> subst hr <;> simp [slotChecks, hn, h1, h2]

/-- otherwise the slot goes on with the fill `chooseFillName` names (see `fill_choice_*`) -/
theorem slot_checks_pass (isDefault isDyn : Bool) (slotName : Str) (fills : List (Str × FillFn))
    (h : isDefault = false ∨ ((sGet slotName fills).isSome = false ∨ (sGet defaultKey fills).isSome = false)) :
    ∃ r, slotChecks isDefault isDyn none slotName fills = .ok (chooseFillName isDefault slotName fills, r) := by
  unfold slotChecks
  rcases h with h | h | h <;> cases isDefault <;> cases isDyn <;> simp_all

/-- **The whole pipeline on the plain fragment** (the part of `C01_full` that is proved, for every fuel, page,
context, world and state): a page built from text, `{{ }}`, `{% if %}`, `{% for %}`, `{% with %}` and elements only,
rendered in a context that holds no slot reference, gives under the model of the code *exactly* the tokens — or
exactly the error — it gives under the reading of the property, and both count the same steps.  Slots, fills and
components are what the remaining (open) part of the refinement is about. -/
theorem C01_full_partial_plain_fragment (env : Env) (fuel : Nat) (page : List Node) (ctx : Ctx)
    (e : Djc.SpecRender.SEnv) (w : World) (s : Djc.SpecRender.SState)
    (hp : Djc.Proofs.Plain.plainL page = true) (hc : Djc.Proofs.Plain.ctxFree ctx = true)
    (he : e.vars = ctx) (hs : s.steps = w.steps) :
    match (renderNodes env fuel page ctx).run.run w with
    | (.ok toks, w') => (Djc.SpecRender.sNodes env fuel page e).run s = .ok (toks, { s with steps := w'.steps })
    | (.error err, _) => (Djc.SpecRender.sNodes env fuel page e).run s = .error err := by
  subst he
  rw [(Djc.Proofs.Plain.model_plain env fuel).1 page e.vars w hp hc,
      (Djc.Proofs.Plain.spec_plain env fuel).1 page e s hp hc, hs]
  rcases Djc.Proofs.Plain.pNodes env.maxSteps fuel page e.vars w.steps with ⟨r, st⟩
  cases r <;> rfl

/-- the hypotheses are satisfiable and the statement is not about empty pages: a page with a loop, a branch, an
element and a lookup, in a context with a list -/
example :
    Djc.Proofs.Plain.plainL [.forn "x".toList (.var ["xs".toList]) [.elem "p".toList [.out (.var ["x".toList])]],
      .ifn (.var ["a".toList]) [.text "T".toList] [.text "F".toList]] = true ∧
    Djc.Proofs.Plain.ctxFree [[("xs".toList, .list [.str "1".toList, .str "2".toList]), ("a".toList, .bool true)]] = true ∧
    (match ((renderNodes { isolated := true, lib := [] } 10 [.forn "x".toList (.var ["xs".toList]) [.elem "p".toList [.out (.var ["x".toList])]],
      .ifn (.var ["a".toList]) [.text "T".toList] [.text "F".toList]]
      [[("xs".toList, .list [.str "1".toList, .str "2".toList]), ("a".toList, .bool true)]]).run.run {}).1 with
      | .ok toks => toks == [.opn "p".toList [], .text "1".toList, .cls "p".toList, .opn "p".toList [], .text "2".toList,
                             .cls "p".toList, .text "T".toList]
      | .error _ => false) = true := by
  refine ⟨by decide, by decide, by decide +kernel⟩

/-- **One component, django mode: the model of the code and the reading print the same** (the first step of
`C01_full` across a component boundary).  A component tag with an empty body, no enclosing component, a plain
template with usable names, data from the call; the template is rendered by the code in a snapshot of the caller's
context extended by the data and the internal layer, by the reading in the caller's variables extended by the data
and `component_vars` — and the deferred pipeline (placeholder, renderer, attribute pass, `component_post_render`)
returns what the reading composes inline: the marker, then the template's tokens with the id on the root elements. -/
theorem C01_full_partial_leaf_component_django (env : Env) (i : Nat) (name : Str) (kwargs : List (Str × Expr))
    (dyn : Bool) (ctx : Ctx) (w : World) (e : Djc.SpecRender.SEnv) (s : Djc.SpecRender.SState) (d : CompDef)
    (toks : List Tok) (st : Nat)
    (hmode : env.isolated = false)
    (hr : env.raiseAt = none) (hd : findDef env name = some d) (hdyn : isDynName name = false)
    (hp : Djc.Proofs.Plain.plainL d.template = true) (ho : Djc.Proofs.Calm.okNamesL d.template = true)
    (hsrc : d.data.all (fun kv => Djc.Proofs.Leaf.pureSrc kv.2) = true)
    (hsteps : ¬ w.steps ≥ env.maxSteps) (hgcd : w.gcds < env.maxInst) (hext : isExtracting ctx = false)
    (hpar : ∀ p, ctxGet ctx compKey ≠ some (.compRef p)) (hprov : w.provideCache = [])
    (hf1 : alGet w.nextId w.ctxCache = none) (hf2 : alGet w.nextId w.rendererCache = none)
    (hf3 : alGet w.nextId w.childAttrs = none) (hf4 : w.allRefIds.contains w.nextId = false)
    (hc : Djc.Proofs.Plain.ctxFree (Djc.Proofs.Leaf.leafCtx ctx w.nextId (evalKwargs ctx kwargs) d) = true)
    (hok : Djc.Proofs.Plain.pNodes env.maxSteps (i + 1) d.template
      (Djc.Proofs.Leaf.leafCtx ctx w.nextId (evalKwargs ctx kwargs) d) (w.steps + 1) = (.ok toks, st))
    (he : e.vars = ctx) (hsid : s.nextId = w.nextId) (hss : s.steps = w.steps) (hidle : ¬ s.nextId > env.maxInst)
    (hc2 : Djc.Proofs.Plain.ctxFree (Djc.Proofs.LeafSpec.specVars false ctx w.nextId (evalKwargs ctx kwargs) d) = true) :
    ((renderNode env (i + 6) (.comp name kwargs false dyn []) ctx).run.run w).1 =
        .ok (.marker name w.nextId :: addRootAttrs [idAttr w.nextId] toks) ∧
      ∃ s', (Djc.SpecRender.sNode env (i + 6) (.comp name kwargs false dyn []) e).run s =
        .ok (.marker name w.nextId :: addRootAttrs [idAttr w.nextId] toks, s') := by
  have hl : (false || env.isolated) = false := by rw [hmode]; rfl
  obtain ⟨h1, s', h2, _⟩ := Djc.Proofs.LeafSpec.leaf_component_model_eq_spec env i name kwargs false dyn ctx ctx
    w e s d toks st (by rw [hl]; rfl) hr hd hdyn hp ho hsrc hsteps hgcd hext hpar hprov hf1 hf2 hf3 hf4 hc hok he hsid hss hidle
    (by rw [hl]; exact hc2) (by intro k _; rw [hl]; rfl)
  exact ⟨h1, s', h2⟩

/-- **"… else its own default content", end to end for one component** (django mode; the isolated counterpart is
`Djc.Props.C03.leaf_component_with_slots_isolated`).  A component tag with an empty body — so no fill is addressed to
any slot — whose template holds `{% slot %}` tags (not flagged `default`; nested in each other, in loops, under `if` /
`with`, inside elements) with default content: through the whole deferred pipeline the model of the code prints what
the reading of the property prints, i.e. every slot shows its own default content, rendered in the component's
context.  `toks` is the reference interpreter's output for the template; all contexts, worlds, keyword arguments. -/
theorem C01_full_partial_unfilled_slots_render_their_default_django (env : Env) (i : Nat) (name : Str)
    (kwargs : List (Str × Expr)) (dyn : Bool) (ctx : Ctx) (w : World) (e : Djc.SpecRender.SEnv)
    (s : Djc.SpecRender.SState) (d : CompDef) (toks : List Tok) (st : Nat)
    (hmode : env.isolated = false)
    (hr : env.raiseAt = none) (hd : findDef env name = some d) (hdyn : isDynName name = false)
    (hp : Djc.Proofs.Slotty.slottyL d.template = true) (ho : Djc.Proofs.Slotty.okSL d.template = true)
    (hsrc : d.data.all (fun kv => Djc.Proofs.Leaf.pureSrc kv.2) = true)
    (hsteps : ¬ w.steps ≥ env.maxSteps) (hgcd : w.gcds < env.maxInst) (hext : isExtracting ctx = false)
    (hpar : ∀ p, ctxGet ctx compKey ≠ some (.compRef p)) (hout : ctxGet (snapshot ctx) compKey = none)
    (hprov : w.provideCache = [])
    (hf1 : alGet w.nextId w.ctxCache = none) (hf2 : alGet w.nextId w.rendererCache = none)
    (hf3 : alGet w.nextId w.childAttrs = none) (hf4 : w.allRefIds.contains w.nextId = false)
    (hc : Djc.Proofs.Plain.ctxFree (Djc.Proofs.Leaf.leafCtx ctx w.nextId (evalKwargs ctx kwargs) d) = true)
    (hfg : ctxGet (Djc.Proofs.Leaf.leafCtx ctx w.nextId (evalKwargs ctx kwargs) d) fillGenKey = none)
    (hok : Djc.Proofs.Slotty.qNodes true env.maxSteps (i + 1) d.template
      (Djc.Proofs.Leaf.leafCtx ctx w.nextId (evalKwargs ctx kwargs) d) (w.steps + 1) = (.ok toks, st))
    (he : e.vars = ctx) (hsid : s.nextId = w.nextId) (hss : s.steps = w.steps) (hidle : ¬ s.nextId > env.maxInst)
    (hc2 : Djc.Proofs.Plain.ctxFree (Djc.Proofs.LeafSpec.specVars false ctx w.nextId (evalKwargs ctx kwargs) d) = true) :
    ((renderNode env (i + 6) (.comp name kwargs false dyn []) ctx).run.run w).1 =
        .ok (.marker name w.nextId :: addRootAttrs [idAttr w.nextId] toks) ∧
      ∃ s', (Djc.SpecRender.sNode env (i + 6) (.comp name kwargs false dyn []) e).run s =
        .ok (.marker name w.nextId :: addRootAttrs [idAttr w.nextId] toks, s') := by
  have hl : (false || env.isolated) = false := by rw [hmode]; rfl
  obtain ⟨h1, s', h2, _⟩ := Djc.Proofs.Slotty.leaf_slotty_model_eq_spec env i name kwargs false dyn ctx ctx
    w e s d toks st (by rw [hl]; rfl) hr hd hdyn hp ho hsrc hsteps hgcd hext hpar hout hprov hf1 hf2 hf3 hf4 hc hfg hok he hsid hss
    hidle (by rw [hl]; exact hc2) (by intro k _; rw [hl]; rfl)
  exact ⟨h1, s', h2⟩

/-- **A `required` slot that no fill addresses raises — the same exception in the code and in the reading, end to end**
(django mode).  More generally: whatever exception (other than running out of fuel) stops the template of such a
component — the `required` check, an unhashable slot name, the work budget — the model of the code, through
`ComponentNode.render`, `_render_impl` and `component_post_render`, and the reading of the property raise the same. -/
theorem C01_full_partial_template_failure_same_exception_django (env : Env) (i : Nat) (name : Str)
    (kwargs : List (Str × Expr)) (dyn : Bool) (ctx : Ctx) (w : World) (e : Djc.SpecRender.SEnv)
    (s : Djc.SpecRender.SState) (d : CompDef) (er : Err) (st : Nat)
    (hmode : env.isolated = false)
    (hr : env.raiseAt = none) (hd : findDef env name = some d) (hdyn : isDynName name = false)
    (hp : Djc.Proofs.Slotty.slottyL d.template = true) (ho : Djc.Proofs.Slotty.okSL d.template = true)
    (hsrc : d.data.all (fun kv => Djc.Proofs.Leaf.pureSrc kv.2) = true)
    (hsteps : ¬ w.steps ≥ env.maxSteps) (hgcd : w.gcds < env.maxInst) (hext : isExtracting ctx = false)
    (hpar : ∀ p, ctxGet ctx compKey ≠ some (.compRef p)) (hout : ctxGet (snapshot ctx) compKey = none)
    (hprov : w.provideCache = []) (hf3 : alGet w.nextId w.childAttrs = none)
    (hc : Djc.Proofs.Plain.ctxFree (Djc.Proofs.Leaf.leafCtx ctx w.nextId (evalKwargs ctx kwargs) d) = true)
    (hfg : ctxGet (Djc.Proofs.Leaf.leafCtx ctx w.nextId (evalKwargs ctx kwargs) d) fillGenKey = none)
    (hok : Djc.Proofs.Slotty.qNodes true env.maxSteps (i + 1) d.template
      (Djc.Proofs.Leaf.leafCtx ctx w.nextId (evalKwargs ctx kwargs) d) (w.steps + 1) = (.error er, st))
    (hnf : er ≠ .outOfFuel)
    (he : e.vars = ctx) (hsid : s.nextId = w.nextId) (hss : s.steps = w.steps) (hidle : ¬ s.nextId > env.maxInst)
    (hc2 : Djc.Proofs.Plain.ctxFree (Djc.Proofs.LeafSpec.specVars false ctx w.nextId (evalKwargs ctx kwargs) d) = true) :
    ((renderNode env (i + 6) (.comp name kwargs false dyn []) ctx).run.run w).1 = .error er ∧
      (Djc.SpecRender.sNode env (i + 6) (.comp name kwargs false dyn []) e).run s = .error er := by
  have hl : (false || env.isolated) = false := by rw [hmode]; rfl
  exact Djc.Proofs.Slotty.leaf_slotty_fail_alike env i name kwargs false dyn ctx ctx w e s d er st (by rw [hl]; rfl) hr hd hdyn hp ho
    hsrc hsteps hgcd hext hpar hout hprov hf3 hc hfg hok hnf he hsid hss hidle (by rw [hl]; exact hc2) (by intro k _; rw [hl]; rfl)

/-- **"Each slot renders the fill addressed to it" — end to end for one named fill** (django mode; the isolated
counterpart, where the fill is lexically scoped, is `Djc.Props.C03.fill_is_lexically_scoped_isolated`).
`{% component name … %}{% fill "nm" %}…{% endfill %}{% endcomponent %}`, no enclosing component: the tag body is read in
fill-extraction mode, the fill travels through `resolve_fills` into the instance's `ComponentContext`, the template is
rendered later by `component_post_render`, and in it the slot called `nm` prints the fill's content — evaluated with
the component's data over the outer variables — while every other slot prints its own default content.  The model of
the code prints exactly what the reading of the property prints.  All contexts, worlds, kwargs, plain fill contents,
templates of the slot fragment. -/
theorem C01_full_partial_named_fill_django (env : Env) (i : Nat) (name : Str) (kwargs : List (Str × Expr)) (dyn : Bool)
    (nm : Str) (fnodes : List Node) (ctx : Ctx) (w : World) (e : Djc.SpecRender.SEnv) (s : Djc.SpecRender.SState)
    (d : CompDef) (toks : List Tok) (st : Nat)
    (hmode : env.isolated = false)
    (hr : env.raiseAt = none) (hd : findDef env name = some d) (hdyn : isDynName name = false)
    (hp : Djc.Proofs.Slotty.slottyL d.template = true) (ho : Djc.Proofs.Slotty.okSL d.template = true)
    (hsrc : d.data.all (fun kv => Djc.Proofs.Leaf.pureSrc kv.2) = true)
    (hfp : Djc.Proofs.Plain.plainL fnodes = true) (hfo : Djc.Proofs.Calm.okNamesL fnodes = true)
    (hsteps : ¬ w.steps + 1 ≥ env.maxSteps) (hgcd : w.gcds < env.maxInst)
    (hext : isExtracting ctx = false)
    (hcap : capturedExtra (ctx ++ [[(fillGenKey, .fillGen)]]) = [])
    (hpar : ∀ p, ctxGet ctx compKey ≠ some (.compRef p))
    (hout : ctxGet (snapshot ctx) compKey = none) (hocfree : Djc.Proofs.Plain.ctxFree (snapshot ctx) = true)
    (hprov : w.provideCache = [])
    (hf1 : alGet w.nextId w.ctxCache = none) (hf2 : alGet w.nextId w.rendererCache = none)
    (hf3 : alGet w.nextId w.childAttrs = none) (hf4 : w.allRefIds.contains w.nextId = false)
    (hc : Djc.Proofs.Plain.ctxFree (Djc.Proofs.Filled.fillCtx ctx w.nextId (evalKwargs ctx kwargs) d nm fnodes) = true)
    (hfg : ctxGet (Djc.Proofs.Filled.fillCtx ctx w.nextId (evalKwargs ctx kwargs) d nm fnodes) fillGenKey = none)
    (hok : Djc.Proofs.Filled.fNodes true env.maxSteps nm fnodes none (i + 1) d.template
      (Djc.Proofs.Filled.fillCtx ctx w.nextId (evalKwargs ctx kwargs) d nm fnodes) (w.steps + 2) = (.ok toks, st))
    (he : e.vars = ctx) (hei : e.inst = none) (hefree : Djc.Proofs.Plain.ctxFree ctx = true)
    (hsid : s.nextId = w.nextId) (hss : s.steps = w.steps + 1) (hidle : ¬ s.nextId > env.maxInst)
    (hc2 : Djc.Proofs.Plain.ctxFree (Djc.Proofs.Filled.specVarsF false ctx w.nextId (evalKwargs ctx kwargs) d nm) = true) :
    ((renderNode env (i + 6) (.comp name kwargs false dyn [.fill (.lit nm) none none fnodes]) ctx).run.run w).1 =
        .ok (.marker name w.nextId :: addRootAttrs [idAttr w.nextId] toks) ∧
      ∃ s', (Djc.SpecRender.sNode env (i + 6) (.comp name kwargs false dyn [.fill (.lit nm) none none fnodes]) e).run s =
        .ok (.marker name w.nextId :: addRootAttrs [idAttr w.nextId] toks, s') := by
  have hl : (false || env.isolated) = false := by rw [hmode]; rfl
  have hok' : Djc.Proofs.Filled.fNodes true env.maxSteps nm fnodes (if env.isolated then some (snapshot ctx) else none) (i + 1) d.template
      (Djc.Proofs.Filled.fillCtx ctx w.nextId (evalKwargs ctx kwargs) d nm fnodes) (w.steps + 2) = (.ok toks, st) := by
    rw [hmode]; exact hok
  exact Djc.Proofs.Filled.filled_model_eq_spec env i name kwargs false dyn nm fnodes ctx ctx w e s d toks st (by rw [hl]; rfl)
    (Or.inl rfl) hr hd hdyn hp ho hsrc hfp hfo hsteps hgcd hext hcap hpar hout hocfree hprov hf1 hf2 hf3 hf4 hc hfg hok'
    he hei hefree hsid hss hidle (by rw [hl]; exact hc2) (by intro k _; rw [hl]; rfl)

/-! ### the hypotheses of the slot theorem are satisfiable -/

section SlotExample
deriving instance DecidableEq for Err
deriving instance DecidableEq for Except

def exDef : CompDef :=
  { name := "c0".toList,
    template := [.elem "div".toList [.slot (.lit "s".toList) false false [] [.text "dflt".toList, .out (.var ["a".toList])]],
                 .out (.var ["x".toList])],
    data := [("a".toList, .kwarg "a".toList)] }
def exEnv : Env := { isolated := false, lib := [exDef] }
def exCtx : Ctx := rootCtx [("x".toList, .str "X".toList)]

/-- `{% component "c0" a="A" %}{% endcomponent %}` in django mode, template
`<div>{% slot "s" %}dflt{{ a }}{% endslot %}</div>{{ x }}`: the unfilled slot shows its default content, rendered
with the component's data; the page's `x` is visible (django mode); the root element carries the id. -/
example :
    ((renderNode exEnv 14 (.comp "c0".toList [("a".toList, .lit "A".toList)] false false []) exCtx).run.run {}).1 =
      .ok [.marker "c0".toList 1, .opn "div".toList [idAttr 1], .text "dflt".toList, .text "A".toList,
           .cls "div".toList, .text "X".toList] := by
  have h0 : (ctxGet exCtx compKey).isNone = true := by decide +kernel
  have hpar : ∀ p, ctxGet exCtx compKey ≠ some (.compRef p) := by
    intro p hp; rw [hp] at h0; cases h0
  have h1 : (ctxGet (snapshot exCtx) compKey).isNone = true := by decide +kernel
  have hout : ctxGet (snapshot exCtx) compKey = none := by
    cases h : ctxGet (snapshot exCtx) compKey with
    | none => rfl
    | some v => rw [h] at h1; cases h1
  have h2 : (ctxGet (Djc.Proofs.Leaf.leafCtx exCtx 1 (evalKwargs exCtx [("a".toList, .lit "A".toList)]) exDef) fillGenKey).isNone = true := by
    decide +kernel
  have hfg : ctxGet (Djc.Proofs.Leaf.leafCtx exCtx 1 (evalKwargs exCtx [("a".toList, .lit "A".toList)]) exDef) fillGenKey = none := by
    cases h : ctxGet (Djc.Proofs.Leaf.leafCtx exCtx 1 (evalKwargs exCtx [("a".toList, .lit "A".toList)]) exDef) fillGenKey with
    | none => rfl
    | some v => rw [h] at h2; cases h2
  have hfd : findDef exEnv "c0".toList = some exDef := by
    simp [findDef, exEnv, exDef]
  have h := (C01_full_partial_unfilled_slots_render_their_default_django exEnv 8 "c0".toList [("a".toList, .lit "A".toList)] false
    exCtx {} (.mk exCtx [] none []) {} exDef
    [.opn "div".toList [], .text "dflt".toList, .text "A".toList, .cls "div".toList, .text "X".toList] 6
    rfl rfl hfd (by decide +kernel) (by decide +kernel) (by decide +kernel) (by decide +kernel) (by decide +kernel)
    (by decide +kernel) (by decide +kernel) hpar hout rfl rfl rfl rfl rfl (by decide +kernel) hfg (by decide +kernel)
    rfl rfl rfl (by decide +kernel) (by decide +kernel)).1
  rw [h]
  decide +kernel
def exDefReq : CompDef :=
  { name := "c1".toList,
    template := [.text "a".toList, .slot (.lit "s".toList) false true [] [.text "dflt".toList]],
    data := [] }
def exEnvReq : Env := { isolated := false, lib := [exDefReq] }

/-- `{% component "c1" %}{% endcomponent %}` with template `a{% slot "s" required %}dflt{% endslot %}`: the model of
the code raises `TemplateSyntaxError` (required slot not filled) through the whole pipeline. -/
example :
    ((renderNode exEnvReq 14 (.comp "c1".toList [] false false []) exCtx).run.run {}).1 =
      .error (.tse "required slot not filled") := by
  have h0 : (ctxGet exCtx compKey).isNone = true := by decide +kernel
  have hpar : ∀ p, ctxGet exCtx compKey ≠ some (.compRef p) := by
    intro p hp; rw [hp] at h0; cases h0
  have h1 : (ctxGet (snapshot exCtx) compKey).isNone = true := by decide +kernel
  have hout : ctxGet (snapshot exCtx) compKey = none := by
    cases h : ctxGet (snapshot exCtx) compKey with
    | none => rfl
    | some v => rw [h] at h1; cases h1
  have h2 : (ctxGet (Djc.Proofs.Leaf.leafCtx exCtx 1 (evalKwargs exCtx []) exDefReq) fillGenKey).isNone = true := by decide +kernel
  have hfg : ctxGet (Djc.Proofs.Leaf.leafCtx exCtx 1 (evalKwargs exCtx []) exDefReq) fillGenKey = none := by
    cases h : ctxGet (Djc.Proofs.Leaf.leafCtx exCtx 1 (evalKwargs exCtx []) exDefReq) fillGenKey with
    | none => rfl
    | some v => rw [h] at h2; cases h2
  have hfd : findDef exEnvReq "c1".toList = some exDefReq := by
    simp [findDef, exEnvReq, exDefReq]
  exact (C01_full_partial_template_failure_same_exception_django exEnvReq 8 "c1".toList [] false
    exCtx {} (.mk exCtx [] none []) {} exDefReq (.tse "required slot not filled") 3
    rfl rfl hfd (by decide +kernel) (by decide +kernel) (by decide +kernel) (by decide +kernel) (by decide +kernel)
    (by decide +kernel) (by decide +kernel) hpar hout rfl rfl (by decide +kernel) hfg (by decide +kernel) (by decide)
    rfl rfl rfl (by decide +kernel) (by decide +kernel)).1
def fDef : CompDef :=
  { name := "c0".toList,
    template := [.elem "div".toList [.slot (.lit "s".toList) false false [] [.text "dflt".toList]],
                 .slot (.lit "t".toList) false false [] [.text "T".toList]],
    data := [("a".toList, .kwarg "a".toList)] }
def fEnvD : Env := { isolated := false, lib := [fDef] }
def fBody : List Node := [.text "[".toList, .out (.var ["x".toList]), .out (.var ["a".toList]), .text "]".toList]

/-- `{% component "c0" a="A" %}{% fill "s" %}[{{ x }}{{ a }}]{% endfill %}{% endcomponent %}` in django mode, template
`<div>{% slot "s" %}dflt{% endslot %}</div>{% slot "t" %}T{% endslot %}`: slot `s` prints the fill — which sees the page's
`x` and the component's `a` — slot `t` its default. -/
example :
    ((renderNode fEnvD 19 (.comp "c0".toList [("a".toList, .lit "A".toList)] false false
        [.fill (.lit "s".toList) none none fBody]) exCtx).run.run {}).1 =
      .ok [.marker "c0".toList 1, .opn "div".toList [idAttr 1], .text "[".toList, .text "X".toList, .text "A".toList,
           .text "]".toList, .cls "div".toList, .text "T".toList] := by
  have h0 : (ctxGet exCtx compKey).isNone = true := by decide +kernel
  have hpar : ∀ p, ctxGet exCtx compKey ≠ some (.compRef p) := by
    intro p hp; rw [hp] at h0; cases h0
  have h1 : (ctxGet (snapshot exCtx) compKey).isNone = true := by decide +kernel
  have hout : ctxGet (snapshot exCtx) compKey = none := by
    cases h : ctxGet (snapshot exCtx) compKey with
    | none => rfl
    | some v => rw [h] at h1; cases h1
  have h2 : (ctxGet (Djc.Proofs.Filled.fillCtx exCtx 1 (evalKwargs exCtx [("a".toList, .lit "A".toList)]) fDef "s".toList fBody) fillGenKey).isNone = true := by
    decide +kernel
  have hfg : ctxGet (Djc.Proofs.Filled.fillCtx exCtx 1 (evalKwargs exCtx [("a".toList, .lit "A".toList)]) fDef "s".toList fBody) fillGenKey = none := by
    cases h : ctxGet (Djc.Proofs.Filled.fillCtx exCtx 1 (evalKwargs exCtx [("a".toList, .lit "A".toList)]) fDef "s".toList fBody) fillGenKey with
    | none => rfl
    | some v => rw [h] at h2; cases h2
  have h3 : (capturedExtra (exCtx ++ [[(fillGenKey, .fillGen)]])).isEmpty = true := by decide +kernel
  have hcap : capturedExtra (exCtx ++ [[(fillGenKey, .fillGen)]]) = [] := List.isEmpty_iff.mp h3
  have hfd : findDef fEnvD "c0".toList = some fDef := by
    simp [findDef, fEnvD, fDef]
  have h := (C01_full_partial_named_fill_django fEnvD 13 "c0".toList [("a".toList, .lit "A".toList)] false "s".toList fBody
    exCtx {} (.mk exCtx [] none []) { steps := 1 } fDef
    [.opn "div".toList [], .text "[".toList, .text "X".toList, .text "A".toList, .text "]".toList, .cls "div".toList, .text "T".toList] 10
    rfl rfl hfd (by decide +kernel) (by decide +kernel) (by decide +kernel) (by decide +kernel) (by decide +kernel)
    (by decide +kernel) (by decide +kernel) (by decide +kernel) (by decide +kernel) hcap hpar hout (by decide +kernel)
    rfl rfl rfl rfl rfl (by decide +kernel) hfg (by decide +kernel)
    rfl rfl (by decide +kernel) rfl rfl (by decide +kernel) (by decide +kernel)).1
  rw [h]
  decide +kernel
end SlotExample

/-- The property at full strength, as a statement about the two interpreters: whenever neither
runs out of fuel, the model of the code and the property's reading produce the same tokens up to
the numbering of instances.  OPEN (and false on the unchanged tree in django mode: see
`known_findings.json`, C01). -/
def C01_full : Prop :=
  ∀ (env : Env) (fuel : Nat) (page : List Node) (vars : Layer) (toks : List Tok) (w : World),
    (renderNodes env fuel page (rootCtx vars)).run.run {} = (.ok toks, w) →
    ∃ toks' s, (Djc.SpecRender.sNodes env fuel page (.mk [[], vars] [] none [])).run {} = .ok (toks', s) ∧
      toks.length = toks'.length

/-! ### the deferred queue composes the page in order, at any nesting depth -/

/-- **The page is the in-order composition of the instances' outputs, at any nesting depth** (the clause of C01 about
composition, for the model of the code, on trees of components): `{% component %}` tags whose bodies are empty, hold
`{% fill "name" %}` tags or are implicit default content, nested through templates and through fill content to any depth, in loops, recursively, their
templates holding `{% slot %}` tags (not flagged `default`).  `ComponentNode.render` returns a placeholder for every
nested instance and queues a renderer; the `while` loop of `component_post_render` — a deque of (text-before, child,
parent, grand-parent) items and a dict of partial outputs — puts each instance's tokens exactly where its tag stood:
the result is `Exp [placeholder of the root]`, the recursive substitution of every placeholder by its instance's own
output (`Djc.Proofs.Stitch.Exp`; `html` there *is* the output of rendering that instance's registered template in its
renderer's context).  Proved for every fuel, library of the fragment, context and world by strong induction over the
loop with a lemma for "the rest of one instance's content" (`Djc.Proofs.Stitch.seg`). -/
theorem C01_full_partial_component_trees_compose_in_order (env : Env) (hlib : Djc.Proofs.Tree.GoodLib env) (fuel : Nat)
    (name : Str) (kwargs : List (Str × Expr)) (only dyn : Bool) (body : List Node) (ctx : Ctx) (w w' : World) (toks : List Tok)
    (hd : isDynName name = false) (hb : Djc.Proofs.Tree.gbody body = true) (hc : Djc.Proofs.Plain.ctxFree ctx = true)
    (hw : Djc.Proofs.Tree.WInv w)
    (hext : isExtracting ctx = false)
    (hpar : Djc.Proofs.Tree.parentOf (if only || env.isolated then isolatedCopy ctx else ctx) = none)
    (h : (renderCompTag env fuel name kwargs only dyn body ctx).run.run w = (.ok toks, w')) :
    Djc.Proofs.Stitch.Exp env [Tok.hole w.nextId []] toks :=
  Djc.Proofs.Stitch.tree_root_output env hlib fuel name kwargs only dyn body ctx w w' toks hd hb hc hw hext hpar h

/-- **… and this holds whatever the process did before**: after *any* history of earlier top-level renders of the
fragment — returning or raising, in any order, with whatever residue the failed ones left in the registries — a render
that returns still returns the in-order composition of its instances' outputs, numbered from the current id counter. -/
theorem C01_full_partial_component_trees_compose_in_order_after_any_history (env : Env) (hlib : Djc.Proofs.Tree.GoodLib env)
    (fuel : Nat) (qs : List Djc.Proofs.TreeFail.Req) (hqs : ∀ q ∈ qs, q.Good env) (w0 : World) (hw0 : Djc.Proofs.Tree.WInv w0)
    (q : Djc.Proofs.TreeFail.Req) (hq : q.Good env) (w' : World) (toks : List Tok)
    (h : (renderCompTag env fuel q.name q.kwargs q.only false q.body q.ctx).run.run (Djc.Proofs.TreeFail.runHist env fuel qs w0) = (.ok toks, w')) :
    Djc.Proofs.Stitch.Exp env [Tok.hole (Djc.Proofs.TreeFail.runHist env fuel qs w0).nextId []] toks ∧
      Djc.Proofs.Tree.holeIds toks = [] := by
  have hw := (Djc.Proofs.TreeFail.history_frame env hlib fuel qs w0 hqs hw0).winv hw0
  obtain ⟨hd, hb, hc, hext, hpar⟩ := hq
  exact ⟨Djc.Proofs.Stitch.tree_root_output env hlib fuel q.name q.kwargs q.only false q.body q.ctx _ w' toks hd hb hc hw hext hpar h,
    (Djc.Proofs.Tree.tree_root_tag env hlib fuel q.name q.kwargs q.only false q.body q.ctx _ w' toks hd hb hc hw hext hpar h).2⟩

/-- instance (kernel-evaluated): the three-level library of `Djc/Proofs/Tree.lean` meets the hypotheses and its page is
the expected in-order token list -/
example : Djc.Proofs.Tree.GoodLib (Djc.Proofs.Tree.exEnv false) ∧ Djc.Proofs.Tree.WInv ({} : World) ∧
    Djc.Proofs.Stitch.exOutputOk = true :=
  ⟨Djc.Proofs.Tree.exEnv_good false, Djc.Proofs.Tree.empty_world_inv, by decide +kernel⟩

/-- **Each rendered slot outputs exactly the fill addressed to it — the fill of that name given to the instance whose
template contains the slot tag — and otherwise its own default content; in every instance of a tree, at any depth.**
In any world a render of the tree fragment can reach (`WInv`: every `ComponentContext` entry was made by a tag whose
body is empty or holds `{% fill "name" %}` tags with content of the fragment), `SlotNode.render` of a slot not flagged
`default`

* raises without touching the world (no enclosing component, its entry gone, an unhashable name, `required` and no
  fill, the data-nesting budget), or
* prints nothing (while a component body is read for fills), or
* consults the entry `cc` of the instance `cid` its context names (`_DJC_COMPONENT_CTX` — the instance whose template is
  being rendered) and **is** the render, in a context without slot references,
  - of its own default content `body` when `cc.fills` has no fill under the slot's name — and then every name a template
    can use except `component_vars` resolves exactly as at the slot tag;
  - of the nodes of `f`, the fill `cc.fills` holds under that name, otherwise — and then the alias the fill asked for
    (`data="d"`) resolves to exactly the keyword arguments of this slot tag, evaluated at the tag. -/
theorem slot_renders_its_fill_else_its_default_in_trees (env : Env) (fuel : Nat) (nameE : Expr) (isRequired : Bool)
    (data : List (Str × Expr)) (body : List Node) (ctx : Ctx) (w : World)
    (hc : Djc.Proofs.Plain.ctxFree ctx = true) (hw : Djc.Proofs.Tree.WInv w) :
    (∃ e, (renderSlot env (fuel + 1) nameE false isRequired data body ctx).run.run w = (.error e, w)) ∨
    (renderSlot env (fuel + 1) nameE false isRequired data body ctx).run.run w = (.ok [], w) ∨
    (∃ cid cc c3, ctxGet ctx compKey = some (.compRef cid) ∧ alGet cid w.ctxCache = some cc ∧
      Djc.Proofs.Plain.ctxFree c3 = true ∧
      ((sGet (slotNameOf (evalExpr ctx nameE)) cc.fills = none ∧
          (∀ k, Djc.Proofs.Calm.internal k = false → k ≠ compVarsKey → ctxGet c3 k = ctxGet ctx k) ∧
          (renderSlot env (fuel + 1) nameE false isRequired data body ctx).run.run w = (renderNodes env fuel body c3).run.run w) ∨
       (∃ f, sGet (slotNameOf (evalExpr ctx nameE)) cc.fills = some f ∧
          (∀ d, f.dataVar = some d → ctxGet c3 d = some (.dict (evalKwargs ctx data))) ∧
          (∀ k, Djc.Proofs.Calm.internal k = false → k ≠ compVarsKey → f.dataVar ≠ some k → lookupL k f.extra = none →
            ctxGet c3 k = ctxGet (if env.isolated then cc.outer.getD [] else ctx) k) ∧
          (renderSlot env (fuel + 1) nameE false isRequired data body ctx).run.run w = (renderNodes env fuel f.nodes c3).run.run w))) :=
  Djc.Proofs.Tree.slot_unfolds env fuel nameE isRequired data body ctx w hc hw

/-- **A slot no fill was given for renders its own default content** (corollary): when the instance the context names
holds no fill under the slot's name — whatever other fills it holds. -/
theorem unfilled_slot_renders_its_default_content_in_trees (env : Env) (fuel : Nat) (nameE : Expr) (isRequired : Bool)
    (data : List (Str × Expr)) (body : List Node) (ctx : Ctx) (w : World)
    (hc : Djc.Proofs.Plain.ctxFree ctx = true) (hw : Djc.Proofs.Tree.WInv w)
    (hnf : ∀ cid cc, ctxGet ctx compKey = some (.compRef cid) → alGet cid w.ctxCache = some cc →
      sGet (slotNameOf (evalExpr ctx nameE)) cc.fills = none) :
    (∃ e, (renderSlot env (fuel + 1) nameE false isRequired data body ctx).run.run w = (.error e, w)) ∨
    (renderSlot env (fuel + 1) nameE false isRequired data body ctx).run.run w = (.ok [], w) ∨
    (∃ c3, (∀ k, Djc.Proofs.Calm.internal k = false → k ≠ compVarsKey → ctxGet c3 k = ctxGet ctx k) ∧
      (renderSlot env (fuel + 1) nameE false isRequired data body ctx).run.run w = (renderNodes env fuel body c3).run.run w) := by
  rcases Djc.Proofs.Tree.slot_unfolds env fuel nameE isRequired data body ctx w hc hw with h | h | ⟨cid, cc, c3, h1, h2, _, hcase⟩
  · exact Or.inl h
  · exact Or.inr (Or.inl h)
  · rcases hcase with ⟨_, hs, hr⟩ | ⟨f, hf, _, _, _⟩
    · exact Or.inr (Or.inr ⟨c3, hs, hr⟩)
    · rw [hnf cid cc h1 h2] at hf; cases hf

/-- **A `{% component %}` body made of `{% fill "name" %}` tags gives the instance exactly these fills** (`resolve_fills`
on the fragment): the fills are those of the body — content of the fragment, the variables between tag and fill
captured without slot references — and reading the body leaves the world as it was but for the step counter. -/
theorem fills_of_a_tag_body_in_trees (env : Env) (fuel : Nat) (body : List Node) (ctx : Ctx) (w w' : World)
    (fills : List (Str × FillFn)) (hb : Djc.Proofs.Tree.gbody body = true) (hc : Djc.Proofs.Plain.ctxFree ctx = true)
    (h : (resolveFills env (fuel + 1) body ctx).run.run w = (.ok fills, w')) :
    Djc.Proofs.Tree.GoodFills fills ∧ ∃ st, w' = { w with steps := st } :=
  Djc.Proofs.Tree.resolveFills_ok env fuel body ctx w w' fills hb hc h

end Djc.Props.C01
