/-
  C03 — variable scoping follows the configured context behaviour.  Property theorems only.
  Model: `Djc/Model/Render.lean`.  Whole-pipeline statement: `C03_full` (open; false on the
  unchanged tree, see `not_isolated_hides_everything`).
-/
import Djc.Proofs.Render
import Djc.Proofs.Plain
import Djc.Spec.Render
namespace Djc.Props.C03
open Djc.Tpl Djc.Render Djc.Proofs.Render

/-! ### the caller's layers are given back -/

/-- `render_func` inserts the captured layer at an index and pops that index after rendering: the
layers are what they were, for every index inside the list. -/
theorem insert_pop_restores {α} (i : Nat) (x : α) (xs : List α) (h : i ≤ xs.length) :
    popAt i (insertAt i x xs) = xs := by
  unfold popAt insertAt
  have hl : (xs.take i).length = i := by simp [List.length_take]; omega
  have h1 : (xs.take i ++ x :: xs.drop i).take i = xs.take i := List.take_left' hl
  have h2 : (xs.take i ++ x :: xs.drop i).drop (i + 1) = xs.drop i := by
    have : xs.take i ++ x :: xs.drop i = (xs.take i ++ [x]) ++ xs.drop i := by simp
    rw [this]
    exact List.drop_left' (by simp [hl])
  rw [h1, h2, List.take_append_drop]

/-- When no component layer is found the code calls `insert(-1, extra)` and later `pop(-1)`, which
removes the *update* layer instead; the enclosing `with context.update(...)` then pops once more.
Net effect: both added layers are gone and the caller's layers are intact. -/
theorem insert_minus_one_restores {α} (e u : α) (base : List α) :
    ((insertAt ((base ++ [u]).length - 1) e (base ++ [u])).dropLast).dropLast = base := by
  have : (base ++ [u]).length - 1 = base.length := by simp
  rw [this]
  unfold insertAt
  rw [List.take_left' rfl, List.drop_left' rfl]
  simp

example : popAt 1 (insertAt 1 9 [1, 2, 3]) = [1, 2, 3] := by decide

/-! ### layering (django mode) -/

/-- **Inner data over captured bindings over outer variables.**  When the layer of variables captured
between the component tag and the fill is inserted right below the inner component's data layer
(what `render_func` does for a component tag on a page), a name resolves, in this order, to: what the
inner component's layers bind, else the captured binding, else the outer variable — for every
context shape and every name. -/
theorem captured_between_outer_and_inner (outer inner : Ctx) (captured : Layer) (x : Str) :
    ctxGet (insertAt outer.length captured (outer ++ inner)) x =
      orOld (ctxGet inner x) (orOld (lookupL x captured) (ctxGet outer x)) := by
  rw [insertAt_eq]
  have h1 : (outer ++ inner).take outer.length = outer := List.take_left' rfl
  have h2 : (outer ++ inner).drop outer.length = inner := List.drop_left' rfl
  rw [h1, h2, ctxGet_append, ctxGet_append_one]
  cases lookupL x captured <;> rfl

/-- **Known finding (C03, django mode): inside another component's template the order is different.**
There the layer search of `render_func` hits the overriding `extra_context` layer on top, and the
captured layer lands just below the top layer — above the inner component's data.  A captured `g`
then wins over the inner component's own `g`. -/
theorem captured_above_inner_data_when_nested :
    let outer : Ctx := [[], [("v".toList, .str "o".toList)]]
    let innerData : Layer := [("g".toList, .str "inner".toList)]
    let top : Layer := [(compKey, .compRef 1)]              -- the extra_context layer with the overriding key
    let captured : Layer := [("g".toList, .str "between".toList)]
    let c2 : Ctx := outer ++ [innerData, [(compKey, .compRef 2)]] ++ [top]
    -- `index_of_last_component_layer - 1` = the position just below the top layer
    (match ctxGet (insertAt (c2.length - 2) captured c2) "g".toList with | some (.str s) => s | _ => []) = "between".toList := by
  decide

/-! ### what an isolated copy can see -/

/-- **Isolation at the component boundary.**  A name that is not one of the library's internal
keys and is not bound by a for-loop layer of the surrounding context is invisible in the context
an isolated (or `only`) component is rendered with — whatever else the surrounding context holds,
at any depth of layers. -/
theorem isolated_copy_hides (ctx : Ctx) (x : Str)
    (hx1 : x ≠ compKey) (hx2 : startsWith injectPrefix x = false) (hx3 : x ≠ permKey) (hx4 : x ≠ rcRootKey)
    (h0 : hasL forloopKey (ctx.headD []) = false)
    (hloop : ∀ l ∈ ctx, hasL forloopKey l = true → lookupL x l = Option.none) :
    ctxGet (isolatedCopy ctx) x = Option.none := by
  unfold isolatedCopy
  rw [ctxGet_rebase _ _ (Ne.symm hx3)]
  rw [ctxGet_fold_setTop]
  · have hl0 : lookupL x (if hasRootRc ctx then [(rcRootKey, Val.none)] else []) = Option.none := by
      split <;> simp [lookupL, Ne.symm hx4]
    have hbase : ctxGet (match forLayerToCopy ctx with
        | some l => [(if hasRootRc ctx then [(rcRootKey, Val.none)] else []), l]
        | Option.none => [(if hasRootRc ctx then [(rcRootKey, Val.none)] else [])]) x = Option.none := by
      cases hf : forLayerToCopy ctx with
      | none => simp [ctxGet, hl0]
      | some l =>
        obtain ⟨hm, hp⟩ := forLayerToCopy_mem ctx l h0 hf
        have := hloop l hm hp
        simp [ctxGet, hl0, this]
    cases hc : ctxGet ctx compKey with
    | none => exact hbase
    | some v =>
      dsimp only
      rw [ctxGet_setTop_ne _ _ _ _ (Ne.symm hx1)]
      exact hbase
  · intro kv hkv heq
    have := injectKeys_prefixed ctx kv hkv
    rw [heq] at this
    rw [this] at hx2
    cases hx2

/-- non-vacuity: an outer variable `a` is hidden, at depth -/
example : ctxGet (isolatedCopy [[], [("a".toList, .str "v".toList)], [("b".toList, .none)]]) "a".toList = Option.none := by
  decide

/-- **The hypothesis about for-loop layers cannot be dropped** (known finding, C03): the innermost
for-loop layer is copied into the isolated context, so the loop variable of a `{% for %}` around an
`only` component is visible inside it although it was never passed. -/
theorem not_isolated_hides_everything :
    ¬ (∀ (ctx : Ctx) (x : Str), x ≠ compKey → startsWith injectPrefix x = false → x ≠ permKey →
        x ≠ rcRootKey → ctxGet (isolatedCopy ctx) x = Option.none) := by
  intro h
  have := h [[], forLayer [[]] "x".toList 0 (.str "leak".toList)] "x".toList (by decide) (by decide) (by decide) (by decide)
  revert this
  decide

/-- **Plain template code reads nothing but its context** (all fuels, pages, contexts, worlds): what a page without
library tags prints does not depend on the registries of the world it is rendered in — two worlds that agree on the
step counter give the same tokens or the same error.  With `isolated_copy_hides` this is the "sees only what it was
given" clause for the code *between* the library tags of a component template: all such code sees is the `Ctx`. -/
theorem plain_output_independent_of_world (env : Env) (fuel : Nat) (page : List Node) (ctx : Ctx) (w w' : World)
    (hp : Djc.Proofs.Plain.plainL page = true) (hc : Djc.Proofs.Plain.ctxFree ctx = true) (hs : w.steps = w'.steps) :
    ((renderNodes env fuel page ctx).run.run w).1 = ((renderNodes env fuel page ctx).run.run w').1 := by
  rw [(Djc.Proofs.Plain.model_plain env fuel).1 page ctx w hp hc,
      (Djc.Proofs.Plain.model_plain env fuel).1 page ctx w' hp hc, hs]
  rfl

/-- The property at full strength for the model of the code: in isolated mode the tokens of a page
holding one component tag with literal arguments do not depend on the page's variables.  OPEN, and
false on the unchanged tree when the tag sits in a for-loop (`not_isolated_hides_everything`). -/
def C03_full : Prop :=
  ∀ (env : Env) (fuel : Nat) (page : List Node) (vars vars' : Layer),
    env.isolated = true →
    (∀ nd ∈ page, match nd with
      | .comp _ kw _ _ body => body = [] ∧ ∀ kv ∈ kw, ∃ s, kv.2 = Expr.lit s
      | _ => False) →
    ((renderNodes env fuel page (rootCtx vars)).run.run {}).1 =
      ((renderNodes env fuel page (rootCtx vars')).run.run {}).1

end Djc.Props.C03
