/-
  C03 — variable scoping follows the configured context behaviour.  Property theorems only.
  Model: `Djc/Model/Render.lean`.  Whole-pipeline statement: `C03_full` (open; false on the
  unchanged tree, see `not_isolated_hides_everything`).
-/
import Djc.Proofs.Render
import Djc.Proofs.Plain
import Djc.Proofs.LeafSpec
import Djc.Proofs.Slotty
import Djc.Proofs.Filled
import Djc.Spec.Render
import Djc.Proofs.Tree
namespace Djc.Props.C03
open Djc.Tpl Djc.Render Djc.Proofs.Render

/-! ### the caller's layers are given back -/

/-- `render_func` inserts the captured layer at an index and pops that index after rendering: the
layers are what they were, for every index inside the list. -/
theorem insert_pop_restores {α} (i : Nat) (x : α) (xs : List α) (h : i ≤ xs.length) :
    popAt i (insertAt i x xs) = xs := by
  unfold popAt insertAt
  have hl : (xs.take i).length = i := by simp [List.length_take]; omega
  have h1 : (xs.take i ++ x :: xs.drop i).take i = xs.take i := List.take_left' hl
  have h2 : (xs.take i ++ x :: xs.drop i).drop (i + 1) = xs.drop i := by
    have : xs.take i ++ x :: xs.drop i = (xs.take i ++ [x]) ++ xs.drop i := by simp
    rw [this]
    exact List.drop_left' (by simp [hl])
  rw [h1, h2, List.take_append_drop]

/-- When no component layer is found the code calls `insert(-1, extra)` and later `pop(-1)`, which
removes the *update* layer instead; the enclosing `with context.update(...)` then pops once more.
Net effect: both added layers are gone and the caller's layers are intact. -/
theorem insert_minus_one_restores {α} (e u : α) (base : List α) :
    ((insertAt ((base ++ [u]).length - 1) e (base ++ [u])).dropLast).dropLast = base := by
  have : (base ++ [u]).length - 1 = base.length := by simp
  rw [this]
  unfold insertAt
  rw [List.take_left' rfl, List.drop_left' rfl]
  simp

example : popAt 1 (insertAt 1 9 [1, 2, 3]) = [1, 2, 3] := by decide

/-! ### layering (django mode) -/

/-- **Inner data over captured bindings over outer variables.**  When the layer of variables captured
between the component tag and the fill is inserted right below the inner component's data layer
(what `render_func` does for a component tag on a page), a name resolves, in this order, to: what the
inner component's layers bind, else the captured binding, else the outer variable — for every
context shape and every name. -/
theorem captured_between_outer_and_inner (outer inner : Ctx) (captured : Layer) (x : Str) :
    ctxGet (insertAt outer.length captured (outer ++ inner)) x =
      orOld (ctxGet inner x) (orOld (lookupL x captured) (ctxGet outer x)) := by
  rw [insertAt_eq]
  have h1 : (outer ++ inner).take outer.length = outer := List.take_left' rfl
  have h2 : (outer ++ inner).drop outer.length = inner := List.drop_left' rfl
  rw [h1, h2, ctxGet_append, ctxGet_append_one]
  cases lookupL x captured <;> rfl

/-- **Known finding (C03, django mode): inside another component's template the order is different.**
There the layer search of `render_func` hits the overriding `extra_context` layer on top, and the
captured layer lands just below the top layer — above the inner component's data.  A captured `g`
then wins over the inner component's own `g`. -/
theorem captured_above_inner_data_when_nested :
    let outer : Ctx := [[], [("v".toList, .str "o".toList)]]
    let innerData : Layer := [("g".toList, .str "inner".toList)]
    let top : Layer := [(compKey, .compRef 1)]              -- the extra_context layer with the overriding key
    let captured : Layer := [("g".toList, .str "between".toList)]
    let c2 : Ctx := outer ++ [innerData, [(compKey, .compRef 2)]] ++ [top]
    -- `index_of_last_component_layer - 1` = the position just below the top layer
    (match ctxGet (insertAt (c2.length - 2) captured c2) "g".toList with | some (.str s) => s | _ => []) = "between".toList := by
  decide

/-! ### what an isolated copy can see -/

/-- **Isolation at the component boundary.**  A name that is not one of the library's internal
keys and is not bound by a for-loop layer of the surrounding context is invisible in the context
an isolated (or `only`) component is rendered with — whatever else the surrounding context holds,
at any depth of layers. -/
theorem isolated_copy_hides (ctx : Ctx) (x : Str)
    (hx1 : x ≠ compKey) (hx2 : startsWith injectPrefix x = false) (hx3 : x ≠ permKey) (hx4 : x ≠ rcRootKey)
    (h0 : hasL forloopKey (ctx.headD []) = false)
    (hloop : ∀ l ∈ ctx, hasL forloopKey l = true → lookupL x l = Option.none) :
    ctxGet (isolatedCopy ctx) x = Option.none := by
  unfold isolatedCopy
  rw [ctxGet_rebase _ _ (Ne.symm hx3)]
  rw [ctxGet_fold_setTop]
  · have hl0 : lookupL x (if hasRootRc ctx then [(rcRootKey, Val.none)] else []) = Option.none := by
      split <;> simp [lookupL, Ne.symm hx4]
    have hbase : ctxGet (match forLayerToCopy ctx with
        | some l => [(if hasRootRc ctx then [(rcRootKey, Val.none)] else []), l]
        | Option.none => [(if hasRootRc ctx then [(rcRootKey, Val.none)] else [])]) x = Option.none := by
      cases hf : forLayerToCopy ctx with
      | none => simp [ctxGet, hl0]
      | some l =>
        obtain ⟨hm, hp⟩ := forLayerToCopy_mem ctx l h0 hf
        have := hloop l hm hp
        simp [ctxGet, hl0, this]
    cases hc : ctxGet ctx compKey with
    | none => exact hbase
    | some v =>
      dsimp only
      rw [ctxGet_setTop_ne _ _ _ _ (Ne.symm hx1)]
      exact hbase
  · intro kv hkv heq
    have := injectKeys_prefixed ctx kv hkv
    rw [heq] at this
    rw [this] at hx2
    cases hx2

/-- non-vacuity: an outer variable `a` is hidden, at depth -/
example : ctxGet (isolatedCopy [[], [("a".toList, .str "v".toList)], [("b".toList, .none)]]) "a".toList = Option.none := by
  decide

/-- **The hypothesis about for-loop layers cannot be dropped** (known finding, C03): the innermost
for-loop layer is copied into the isolated context, so the loop variable of a `{% for %}` around an
`only` component is visible inside it although it was never passed. -/
theorem not_isolated_hides_everything :
    ¬ (∀ (ctx : Ctx) (x : Str), x ≠ compKey → startsWith injectPrefix x = false → x ≠ permKey →
        x ≠ rcRootKey → ctxGet (isolatedCopy ctx) x = Option.none) := by
  intro h
  have := h [[], forLayer [[]] "x".toList 0 (.str "leak".toList)] "x".toList (by decide) (by decide) (by decide) (by decide)
  revert this
  decide

/-- **Plain template code reads nothing but its context** (all fuels, pages, contexts, worlds): what a page without
library tags prints does not depend on the registries of the world it is rendered in — two worlds that agree on the
step counter give the same tokens or the same error.  With `isolated_copy_hides` this is the "sees only what it was
given" clause for the code *between* the library tags of a component template: all such code sees is the `Ctx`. -/
theorem plain_output_independent_of_world (env : Env) (fuel : Nat) (page : List Node) (ctx : Ctx) (w w' : World)
    (hp : Djc.Proofs.Plain.plainL page = true) (hc : Djc.Proofs.Plain.ctxFree ctx = true) (hs : w.steps = w'.steps) :
    ((renderNodes env fuel page ctx).run.run w).1 = ((renderNodes env fuel page ctx).run.run w').1 := by
  rw [(Djc.Proofs.Plain.model_plain env fuel).1 page ctx w hp hc,
      (Djc.Proofs.Plain.model_plain env fuel).1 page ctx w' hp hc, hs]
  rfl

/-- names a template can use are none of the internal keys -/
theorem usable_name_facts (x : Str) (h : Djc.Proofs.Calm.internal x = false) :
    x ≠ compKey ∧ startsWith injectPrefix x = false ∧ x ≠ permKey ∧ x ≠ rcRootKey := by
  refine ⟨?_, ?_, ?_, ?_⟩
  · intro e; subst e; revert h; decide
  · cases x with
    | nil => rfl
    | cons c rest =>
      cases hs : startsWith injectPrefix (c :: rest) with
      | false => rfl
      | true =>
        simp only [startsWith, injectPrefix, List.isPrefixOf, Bool.and_eq_true, beq_iff_eq] at hs
        simp only [Djc.Proofs.Calm.internal, ← hs.1] at h
        revert h; decide
  · intro e; subst e; revert h; decide
  · intro e; subst e; revert h; decide

/-- **Isolated mode, end to end for one component: the template sees only what it was given.**  A component tag
with an empty body, no enclosing component, in isolated mode (or with `only`), on a context without for-loop layers
(the listed finding `forloop-layer-leaks-into-isolated` is about those): the model of the code — isolated copy,
`get_context_data`, snapshot, deferred render, attribute pass — prints exactly what the reading of the property
prints, in which the template's variables are `[[]] ++ [data] ++ [component_vars]` and nothing else.  All contexts,
worlds, keyword arguments, plain templates with usable names. -/
theorem leaf_component_isolated_sees_only_its_data (env : Env) (i : Nat) (name : Str) (kwargs : List (Str × Expr))
    (only dyn : Bool) (ctx : Ctx) (w : World) (e : Djc.SpecRender.SEnv) (s : Djc.SpecRender.SState) (d : CompDef)
    (toks : List Tok) (st : Nat)
    (hiso : (only || env.isolated) = true)
    (h0 : hasL forloopKey (ctx.headD []) = false) (hloop : ∀ l ∈ ctx, hasL forloopKey l = false)
    (hr : env.raiseAt = none) (hd : findDef env name = some d) (hdyn : isDynName name = false)
    (hp : Djc.Proofs.Plain.plainL d.template = true) (ho : Djc.Proofs.Calm.okNamesL d.template = true)
    (hsrc : d.data.all (fun kv => Djc.Proofs.Leaf.pureSrc kv.2) = true)
    (hsteps : ¬ w.steps ≥ env.maxSteps) (hgcd : w.gcds < env.maxInst) (hext : isExtracting ctx = false)
    (hpar : ∀ p, ctxGet (isolatedCopy ctx) compKey ≠ some (.compRef p)) (hprov : w.provideCache = [])
    (hf1 : alGet w.nextId w.ctxCache = none) (hf2 : alGet w.nextId w.rendererCache = none)
    (hf3 : alGet w.nextId w.childAttrs = none) (hf4 : w.allRefIds.contains w.nextId = false)
    (hc : Djc.Proofs.Plain.ctxFree (Djc.Proofs.Leaf.leafCtx (isolatedCopy ctx) w.nextId (evalKwargs ctx kwargs) d) = true)
    (hok : Djc.Proofs.Plain.pNodes env.maxSteps (i + 1) d.template
      (Djc.Proofs.Leaf.leafCtx (isolatedCopy ctx) w.nextId (evalKwargs ctx kwargs) d) (w.steps + 1) = (.ok toks, st))
    (he : e.vars = ctx) (hsid : s.nextId = w.nextId) (hss : s.steps = w.steps) (hidle : ¬ s.nextId > env.maxInst)
    (hc2 : Djc.Proofs.Plain.ctxFree (Djc.Proofs.LeafSpec.specVars true ctx w.nextId (evalKwargs ctx kwargs) d) = true) :
    ((renderNode env (i + 6) (.comp name kwargs only dyn []) ctx).run.run w).1 =
        .ok (.marker name w.nextId :: addRootAttrs [idAttr w.nextId] toks) ∧
      ∃ s', (Djc.SpecRender.sNode env (i + 6) (.comp name kwargs only dyn []) e).run s =
        .ok (.marker name w.nextId :: addRootAttrs [idAttr w.nextId] toks, s') := by
  have hctx' : isolatedCopy ctx = if only || env.isolated then isolatedCopy ctx else ctx := by rw [hiso]; rfl
  have hbase : ∀ k, Djc.Proofs.Calm.internal k = false →
      ctxGet (isolatedCopy ctx) k = ctxGet (if only || env.isolated then [[]] else ctx) k := by
    intro k hk
    obtain ⟨a, b, c, dd⟩ := usable_name_facts k hk
    rw [hiso, isolated_copy_hides ctx k a b c dd h0 (fun l hl hf => by rw [hloop l hl] at hf; cases hf)]
    rfl
  obtain ⟨h1, s', h2, _⟩ := Djc.Proofs.LeafSpec.leaf_component_model_eq_spec env i name kwargs only dyn ctx (isolatedCopy ctx)
    w e s d toks st hctx' hr hd hdyn hp ho hsrc hsteps hgcd hext hpar hprov hf1 hf2 hf3 hf4 hc hok he hsid hss hidle
    (by rw [hiso]; exact hc2) hbase
  exact ⟨h1, s', h2⟩

/-- **2-run non-interference for one component** (isolated mode or `only`; all contexts without for-loop layers, all
worlds): two pages that pass the same keyword values to a component but differ arbitrarily in every other variable
get the same tokens from it — through the whole deferred pipeline of the model of the code. -/
theorem leaf_component_isolated_noninterference (env : Env) (i : Nat) (name : Str) (kwargs : List (Str × Expr))
    (only dyn : Bool) (ctx1 ctx2 : Ctx) (w : World) (d : CompDef) (toks1 toks2 : List Tok) (st1 st2 : Nat)
    (hiso : (only || env.isolated) = true)
    (hkw : evalKwargs ctx1 kwargs = evalKwargs ctx2 kwargs)
    (h01 : hasL forloopKey (ctx1.headD []) = false) (hloop1 : ∀ l ∈ ctx1, hasL forloopKey l = false)
    (h02 : hasL forloopKey (ctx2.headD []) = false) (hloop2 : ∀ l ∈ ctx2, hasL forloopKey l = false)
    (hr : env.raiseAt = none) (hd : findDef env name = some d) (hdyn : isDynName name = false)
    (hp : Djc.Proofs.Plain.plainL d.template = true) (ho : Djc.Proofs.Calm.okNamesL d.template = true)
    (hsrc : d.data.all (fun kv => Djc.Proofs.Leaf.pureSrc kv.2) = true)
    (hsteps : ¬ w.steps ≥ env.maxSteps) (hgcd : w.gcds < env.maxInst)
    (hext1 : isExtracting ctx1 = false) (hext2 : isExtracting ctx2 = false)
    (hpar1 : ∀ p, ctxGet (isolatedCopy ctx1) compKey ≠ some (.compRef p))
    (hpar2 : ∀ p, ctxGet (isolatedCopy ctx2) compKey ≠ some (.compRef p)) (hprov : w.provideCache = [])
    (hf1 : alGet w.nextId w.ctxCache = none) (hf2 : alGet w.nextId w.rendererCache = none)
    (hf3 : alGet w.nextId w.childAttrs = none) (hf4 : w.allRefIds.contains w.nextId = false)
    (hc1 : Djc.Proofs.Plain.ctxFree (Djc.Proofs.Leaf.leafCtx (isolatedCopy ctx1) w.nextId (evalKwargs ctx1 kwargs) d) = true)
    (hc2 : Djc.Proofs.Plain.ctxFree (Djc.Proofs.Leaf.leafCtx (isolatedCopy ctx2) w.nextId (evalKwargs ctx2 kwargs) d) = true)
    (hok1 : Djc.Proofs.Plain.pNodes env.maxSteps (i + 1) d.template
      (Djc.Proofs.Leaf.leafCtx (isolatedCopy ctx1) w.nextId (evalKwargs ctx1 kwargs) d) (w.steps + 1) = (.ok toks1, st1))
    (hok2 : Djc.Proofs.Plain.pNodes env.maxSteps (i + 1) d.template
      (Djc.Proofs.Leaf.leafCtx (isolatedCopy ctx2) w.nextId (evalKwargs ctx2 kwargs) d) (w.steps + 1) = (.ok toks2, st2)) :
    ((renderNode env (i + 6) (.comp name kwargs only dyn []) ctx1).run.run w).1 =
      ((renderNode env (i + 6) (.comp name kwargs only dyn []) ctx2).run.run w).1 := by
  have hctx1 : isolatedCopy ctx1 = if only || env.isolated then isolatedCopy ctx1 else ctx1 := by rw [hiso]; rfl
  have hctx2 : isolatedCopy ctx2 = if only || env.isolated then isolatedCopy ctx2 else ctx2 := by rw [hiso]; rfl
  have hb : ∀ (ctx : Ctx), hasL forloopKey (ctx.headD []) = false → (∀ l ∈ ctx, hasL forloopKey l = false) →
      ∀ k, Djc.Proofs.Calm.internal k = false → ctxGet (isolatedCopy ctx) k = ctxGet ([[]] : Ctx) k := by
    intro ctx h0 hloop k hk
    obtain ⟨a, b, c, dd⟩ := usable_name_facts k hk
    rw [isolated_copy_hides ctx k a b c dd h0 (fun l hl hf => by rw [hloop l hl] at hf; cases hf)]
    rfl
  have hs1 := Djc.Proofs.LeafSpec.leaf_sameVars (isolatedCopy ctx1) [[]] w.nextId (evalKwargs ctx1 kwargs) d (hb ctx1 h01 hloop1)
  have hs2 := Djc.Proofs.LeafSpec.leaf_sameVars (isolatedCopy ctx2) [[]] w.nextId (evalKwargs ctx2 kwargs) d (hb ctx2 h02 hloop2)
  have e1 := (Djc.Proofs.LeafSpec.pNodes_same env.maxSteps (i + 1)).1 d.template _ _ (w.steps + 1) hp ho hs1
  have e2 := (Djc.Proofs.LeafSpec.pNodes_same env.maxSteps (i + 1)).1 d.template _ _ (w.steps + 1) hp ho hs2
  have hcommon : (([[]] : Ctx) ++ [Djc.Proofs.Leaf.dataPure w.nextId (evalKwargs ctx1 kwargs) d.data []] ++
      [[(compVarsKey, Djc.SpecRender.compVarsOf [])]]) =
      (([[]] : Ctx) ++ [Djc.Proofs.Leaf.dataPure w.nextId (evalKwargs ctx2 kwargs) d.data []] ++
      [[(compVarsKey, Djc.SpecRender.compVarsOf [])]]) := by rw [hkw]
  rw [hcommon] at e1
  have : (Except.ok toks1, st1) = ((Except.ok toks2, st2) : Djc.Proofs.Plain.PR) := by rw [← hok1, ← hok2, e1, e2]
  have ht : toks1 = toks2 := by injection this with a _; injection a
  rw [Djc.Proofs.Leaf.leaf_component env i name kwargs only dyn ctx1 (isolatedCopy ctx1) w d toks1 st1 hctx1 hr hd hdyn hp hsrc
        hsteps hgcd hext1 hpar1 hprov hf1 hf2 hf3 hf4 hc1 hok1,
      Djc.Proofs.Leaf.leaf_component env i name kwargs only dyn ctx2 (isolatedCopy ctx2) w d toks2 st2 hctx2 hr hd hdyn hp hsrc
        hsteps hgcd hext2 hpar2 hprov hf1 hf2 hf3 hf4 hc2 hok2, ht]

/-- **Isolated mode, one component whose template has slots (no fills given)**: default content of a slot is rendered
in the component's own context — data and built-ins only — and the model of the code agrees with the reading through the
whole deferred pipeline.  Contexts without for-loop layers; all worlds, keyword arguments, templates of the slot
fragment with usable names. -/
theorem leaf_component_with_slots_isolated (env : Env) (i : Nat) (name : Str) (kwargs : List (Str × Expr))
    (only dyn : Bool) (ctx : Ctx) (w : World) (e : Djc.SpecRender.SEnv) (s : Djc.SpecRender.SState) (d : CompDef)
    (toks : List Tok) (st : Nat)
    (hiso : (only || env.isolated) = true)
    (h0 : hasL forloopKey (ctx.headD []) = false) (hloop : ∀ l ∈ ctx, hasL forloopKey l = false)
    (hr : env.raiseAt = none) (hd : findDef env name = some d) (hdyn : isDynName name = false)
    (hp : Djc.Proofs.Slotty.slottyL d.template = true) (ho : Djc.Proofs.Slotty.okSL d.template = true)
    (hsrc : d.data.all (fun kv => Djc.Proofs.Leaf.pureSrc kv.2) = true)
    (hsteps : ¬ w.steps ≥ env.maxSteps) (hgcd : w.gcds < env.maxInst) (hext : isExtracting ctx = false)
    (hpar : ∀ p, ctxGet (isolatedCopy ctx) compKey ≠ some (.compRef p)) (hout : ctxGet (snapshot ctx) compKey = none)
    (hprov : w.provideCache = [])
    (hf1 : alGet w.nextId w.ctxCache = none) (hf2 : alGet w.nextId w.rendererCache = none)
    (hf3 : alGet w.nextId w.childAttrs = none) (hf4 : w.allRefIds.contains w.nextId = false)
    (hc : Djc.Proofs.Plain.ctxFree (Djc.Proofs.Leaf.leafCtx (isolatedCopy ctx) w.nextId (evalKwargs ctx kwargs) d) = true)
    (hfg : ctxGet (Djc.Proofs.Leaf.leafCtx (isolatedCopy ctx) w.nextId (evalKwargs ctx kwargs) d) fillGenKey = none)
    (hok : Djc.Proofs.Slotty.qNodes true env.maxSteps (i + 1) d.template
      (Djc.Proofs.Leaf.leafCtx (isolatedCopy ctx) w.nextId (evalKwargs ctx kwargs) d) (w.steps + 1) = (.ok toks, st))
    (he : e.vars = ctx) (hsid : s.nextId = w.nextId) (hss : s.steps = w.steps) (hidle : ¬ s.nextId > env.maxInst)
    (hc2 : Djc.Proofs.Plain.ctxFree (Djc.Proofs.LeafSpec.specVars true ctx w.nextId (evalKwargs ctx kwargs) d) = true) :
    ((renderNode env (i + 6) (.comp name kwargs only dyn []) ctx).run.run w).1 =
        .ok (.marker name w.nextId :: addRootAttrs [idAttr w.nextId] toks) ∧
      ∃ s', (Djc.SpecRender.sNode env (i + 6) (.comp name kwargs only dyn []) e).run s =
        .ok (.marker name w.nextId :: addRootAttrs [idAttr w.nextId] toks, s') := by
  have hctx' : isolatedCopy ctx = if only || env.isolated then isolatedCopy ctx else ctx := by rw [hiso]; rfl
  have hbase : ∀ k, Djc.Proofs.Calm.internal k = false →
      ctxGet (isolatedCopy ctx) k = ctxGet (if only || env.isolated then [[]] else ctx) k := by
    intro k hk
    obtain ⟨a, b, c, dd⟩ := usable_name_facts k hk
    rw [hiso, isolated_copy_hides ctx k a b c dd h0 (fun l hl hf => by rw [hloop l hl] at hf; cases hf)]
    rfl
  obtain ⟨h1, s', h2, _⟩ := Djc.Proofs.Slotty.leaf_slotty_model_eq_spec env i name kwargs only dyn ctx (isolatedCopy ctx)
    w e s d toks st hctx' hr hd hdyn hp ho hsrc hsteps hgcd hext hpar hout hprov hf1 hf2 hf3 hf4 hc hfg hok he hsid hss hidle
    (by rw [hiso]; exact hc2) hbase
  exact ⟨h1, s', h2⟩

/-- **Isolated mode: fill content is lexically scoped — end to end for one named fill.**  The fill written in the body
of a component tag evaluates as it would at the position of the tag (the context at the tag, `snapshot`-ed into
`outer_context`): it sees the page's variables and *not* the component's data, while the component's template and the
default content of its other slots see the data and not the page's variables.  Contexts without for-loop layers; the
model of the code, through fill extraction, `resolve_fills` and the deferred render, agrees with the reading. -/
theorem fill_is_lexically_scoped_isolated (env : Env) (i : Nat) (name : Str) (kwargs : List (Str × Expr)) (dyn : Bool)
    (nm : Str) (fnodes : List Node) (ctx : Ctx) (w : World) (e : Djc.SpecRender.SEnv) (s : Djc.SpecRender.SState)
    (d : CompDef) (toks : List Tok) (st : Nat)
    (hmode : env.isolated = true)
    (h0 : hasL forloopKey (ctx.headD []) = false) (hloop : ∀ l ∈ ctx, hasL forloopKey l = false)
    (hr : env.raiseAt = none) (hd : findDef env name = some d) (hdyn : isDynName name = false)
    (hp : Djc.Proofs.Slotty.slottyL d.template = true) (ho : Djc.Proofs.Slotty.okSL d.template = true)
    (hsrc : d.data.all (fun kv => Djc.Proofs.Leaf.pureSrc kv.2) = true)
    (hfp : Djc.Proofs.Plain.plainL fnodes = true) (hfo : Djc.Proofs.Calm.okNamesL fnodes = true)
    (hsteps : ¬ w.steps + 1 ≥ env.maxSteps) (hgcd : w.gcds < env.maxInst)
    (hext : isExtracting ctx = false)
    (hcap : capturedExtra (ctx ++ [[(fillGenKey, .fillGen)]]) = [])
    (hpar : ∀ p, ctxGet (isolatedCopy ctx) compKey ≠ some (.compRef p))
    (hout : ctxGet (snapshot ctx) compKey = none) (hocfree : Djc.Proofs.Plain.ctxFree (snapshot ctx) = true)
    (hprov : w.provideCache = [])
    (hf1 : alGet w.nextId w.ctxCache = none) (hf2 : alGet w.nextId w.rendererCache = none)
    (hf3 : alGet w.nextId w.childAttrs = none) (hf4 : w.allRefIds.contains w.nextId = false)
    (hc : Djc.Proofs.Plain.ctxFree (Djc.Proofs.Filled.fillCtx (isolatedCopy ctx) w.nextId (evalKwargs ctx kwargs) d nm fnodes) = true)
    (hfg : ctxGet (Djc.Proofs.Filled.fillCtx (isolatedCopy ctx) w.nextId (evalKwargs ctx kwargs) d nm fnodes) fillGenKey = none)
    (hok : Djc.Proofs.Filled.fNodes true env.maxSteps nm fnodes (some (snapshot ctx)) (i + 1) d.template
      (Djc.Proofs.Filled.fillCtx (isolatedCopy ctx) w.nextId (evalKwargs ctx kwargs) d nm fnodes) (w.steps + 2) = (.ok toks, st))
    (he : e.vars = ctx) (hei : e.inst = none) (hefree : Djc.Proofs.Plain.ctxFree ctx = true)
    (hsid : s.nextId = w.nextId) (hss : s.steps = w.steps + 1) (hidle : ¬ s.nextId > env.maxInst)
    (hc2 : Djc.Proofs.Plain.ctxFree (Djc.Proofs.Filled.specVarsF true ctx w.nextId (evalKwargs ctx kwargs) d nm) = true) :
    ((renderNode env (i + 6) (.comp name kwargs false dyn [.fill (.lit nm) none none fnodes]) ctx).run.run w).1 =
        .ok (.marker name w.nextId :: addRootAttrs [idAttr w.nextId] toks) ∧
      ∃ s', (Djc.SpecRender.sNode env (i + 6) (.comp name kwargs false dyn [.fill (.lit nm) none none fnodes]) e).run s =
        .ok (.marker name w.nextId :: addRootAttrs [idAttr w.nextId] toks, s') := by
  have hl : (false || env.isolated) = true := by rw [hmode]; rfl
  have hok' : Djc.Proofs.Filled.fNodes true env.maxSteps nm fnodes (if env.isolated then some (snapshot ctx) else none) (i + 1) d.template
      (Djc.Proofs.Filled.fillCtx (isolatedCopy ctx) w.nextId (evalKwargs ctx kwargs) d nm fnodes) (w.steps + 2) = (.ok toks, st) := by
    rw [hmode]; exact hok
  have hbase : ∀ k, Djc.Proofs.Calm.internal k = false →
      ctxGet (isolatedCopy ctx) k = ctxGet (if false || env.isolated then [[]] else ctx) k := by
    intro k hk
    obtain ⟨a, b, c, dd⟩ := usable_name_facts k hk
    rw [hl, isolated_copy_hides ctx k a b c dd h0 (fun l hl' hf => by rw [hloop l hl'] at hf; cases hf)]
    rfl
  exact Djc.Proofs.Filled.filled_model_eq_spec env i name kwargs false dyn nm fnodes ctx (isolatedCopy ctx) w e s d toks st
    (by rw [hl]; rfl) (Or.inl rfl) hr hd hdyn hp ho hsrc hfp hfo hsteps hgcd hext hcap hpar hout hocfree hprov hf1 hf2 hf3 hf4 hc hfg
    hok' he hei hefree hsid hss hidle (by rw [hl]; exact hc2) hbase

/-! ### a kernel-evaluated instance -/

section FillExample
deriving instance DecidableEq for Err
deriving instance DecidableEq for Except

def fDef : CompDef :=
  { name := "c0".toList,
    template := [.elem "div".toList [.slot (.lit "s".toList) false false [] [.text "dflt".toList]],
                 .slot (.lit "t".toList) false false [] [.out (.var ["x".toList]), .out (.var ["a".toList])]],
    data := [("a".toList, .kwarg "a".toList)] }
def fEnvI : Env := { isolated := true, lib := [fDef] }
def fCtx : Ctx := rootCtx [("x".toList, .str "X".toList)]
def fBody : List Node := [.text "[".toList, .out (.var ["x".toList]), .out (.var ["a".toList]), .text "]".toList]

/-- `{% component "c0" a="A" %}{% fill "s" %}[{{ x }}{{ a }}]{% endfill %}{% endcomponent %}` in isolated mode: the fill
sees the page's `x` and not the component's `a` (`[X]`); the default content of slot `t` sees `a` and not `x` (`A`). -/
example :
    ((renderNode fEnvI 19 (.comp "c0".toList [("a".toList, .lit "A".toList)] false false
        [.fill (.lit "s".toList) none none fBody]) fCtx).run.run {}).1 =
      .ok [.marker "c0".toList 1, .opn "div".toList [idAttr 1], .text "[".toList, .text "X".toList, .text [],
           .text "]".toList, .cls "div".toList, .text [], .text "A".toList] := by
  have h0 : (ctxGet (isolatedCopy fCtx) compKey).isNone = true := by decide +kernel
  have hpar : ∀ p, ctxGet (isolatedCopy fCtx) compKey ≠ some (.compRef p) := by
    intro p hp; rw [hp] at h0; cases h0
  have h1 : (ctxGet (snapshot fCtx) compKey).isNone = true := by decide +kernel
  have hout : ctxGet (snapshot fCtx) compKey = none := by
    cases h : ctxGet (snapshot fCtx) compKey with
    | none => rfl
    | some v => rw [h] at h1; cases h1
  have h2 : (ctxGet (Djc.Proofs.Filled.fillCtx (isolatedCopy fCtx) 1 (evalKwargs fCtx [("a".toList, .lit "A".toList)]) fDef "s".toList fBody) fillGenKey).isNone = true := by
    decide +kernel
  have hfg : ctxGet (Djc.Proofs.Filled.fillCtx (isolatedCopy fCtx) 1 (evalKwargs fCtx [("a".toList, .lit "A".toList)]) fDef "s".toList fBody) fillGenKey = none := by
    cases h : ctxGet (Djc.Proofs.Filled.fillCtx (isolatedCopy fCtx) 1 (evalKwargs fCtx [("a".toList, .lit "A".toList)]) fDef "s".toList fBody) fillGenKey with
    | none => rfl
    | some v => rw [h] at h2; cases h2
  have h3 : (capturedExtra (fCtx ++ [[(fillGenKey, .fillGen)]])).isEmpty = true := by decide +kernel
  have hcap : capturedExtra (fCtx ++ [[(fillGenKey, .fillGen)]]) = [] := List.isEmpty_iff.mp h3
  have hfd : findDef fEnvI "c0".toList = some fDef := by
    simp [findDef, fEnvI, fDef]
  have hall : fCtx.all (fun l => !hasL forloopKey l) = true := by decide +kernel
  have h := (fill_is_lexically_scoped_isolated fEnvI 13 "c0".toList [("a".toList, .lit "A".toList)] false "s".toList fBody
    fCtx {} (.mk fCtx [] none []) { steps := 1 } fDef
    [.opn "div".toList [], .text "[".toList, .text "X".toList, .text [], .text "]".toList, .cls "div".toList, .text [], .text "A".toList] 11
    rfl (by decide +kernel)
    (fun l hl => by
      have := List.all_eq_true.mp hall l hl
      simpa using this)
    rfl hfd (by decide +kernel) (by decide +kernel) (by decide +kernel) (by decide +kernel) (by decide +kernel)
    (by decide +kernel) (by decide +kernel) (by decide +kernel) (by decide +kernel) hcap hpar hout (by decide +kernel)
    rfl rfl rfl rfl rfl (by decide +kernel) hfg (by decide +kernel)
    rfl rfl (by decide +kernel) rfl rfl (by decide +kernel) (by decide +kernel)).1
  rw [h]
  decide +kernel
end FillExample

/-- The property at full strength for the model of the code: in isolated mode the tokens of a page
holding one component tag with literal arguments do not depend on the page's variables.  OPEN, and
false on the unchanged tree when the tag sits in a for-loop (`not_isolated_hides_everything`). -/
def C03_full : Prop :=
  ∀ (env : Env) (fuel : Nat) (page : List Node) (vars vars' : Layer),
    env.isolated = true →
    (∀ nd ∈ page, match nd with
      | .comp _ kw _ _ body => body = [] ∧ ∀ kv ∈ kw, ∃ s, kv.2 = Expr.lit s
      | _ => False) →
    ((renderNodes env fuel page (rootCtx vars)).run.run {}).1 =
      ((renderNodes env fuel page (rootCtx vars')).run.run {}).1

/-! ### fill content in trees of components: lexical scope in isolated mode, the slot's context in django mode -/

/-- **What fill content sees, in every instance of a tree, at any depth.**  In a world a render of the tree fragment can
reach (`Djc.Proofs.Tree.WInv`), when `SlotNode.render` renders a fill `f` (the fill of that name held by the instance
the context names — `Djc.Props.C01.slot_renders_its_fill_else_its_default_in_trees`), the context `c3` it renders
`f.nodes` in resolves

* the alias the fill asked for (`data="d"`) to the slot tag's keyword arguments, evaluated at the slot tag;
* every other name a template can use (not internal, not `component_vars`) that the variables captured between the
  component tag and the fill (`f.extra`: enclosing loops) do not bind:
  - **isolated mode**: exactly as `outer_context` does — the snapshot of the Context taken at the `{% component %}` tag.
    Nothing of the component's own data, nothing of the slot's surroundings: the fill is a lexical closure;
  - **django mode**: exactly as the Context at the slot tag does (the component's data over the outer variables). -/
theorem fill_content_scope_in_trees (env : Env) (fuel : Nat) (nameE : Expr) (isRequired : Bool)
    (data : List (Str × Expr)) (body : List Node) (ctx : Ctx) (w : World)
    (hc : Djc.Proofs.Plain.ctxFree ctx = true) (hw : Djc.Proofs.Tree.WInv w)
    (cid : Nat) (cc : CompCtx) (f : FillFn)
    (hcid : ctxGet ctx compKey = some (.compRef cid)) (hcc : alGet cid w.ctxCache = some cc)
    (hf : sGet (slotNameOf (evalExpr ctx nameE)) cc.fills = some f)
    (hok : ∀ e, (renderSlot env (fuel + 1) nameE false isRequired data body ctx).run.run w ≠ (.error e, w))
    (hne : (renderSlot env (fuel + 1) nameE false isRequired data body ctx).run.run w ≠ (.ok [], w)) :
    ∃ c3, (renderSlot env (fuel + 1) nameE false isRequired data body ctx).run.run w = (renderNodes env fuel f.nodes c3).run.run w ∧
      (∀ d, f.dataVar = some d → ctxGet c3 d = some (.dict (evalKwargs ctx data))) ∧
      (∀ k, Djc.Proofs.Calm.internal k = false → k ≠ compVarsKey → f.dataVar ≠ some k → lookupL k f.extra = none →
        ctxGet c3 k = ctxGet (if env.isolated then cc.outer.getD [] else ctx) k) := by
  rcases Djc.Proofs.Tree.slot_unfolds env fuel nameE isRequired data body ctx w hc hw with ⟨e, he⟩ | he | ⟨cid', cc', c3, h1, h2, _, hcase⟩
  · exact absurd he (hok e)
  · exact absurd he hne
  · rw [hcid] at h1
    injection h1 with h1
    injection h1 with h1
    subst h1
    rw [hcc] at h2
    injection h2 with h2
    subst h2
    rcases hcase with ⟨hnone, _, _⟩ | ⟨f', hf', ha, hl, hr⟩
    · rw [hf] at hnone; cases hnone
    · rw [hf] at hf'
      injection hf' with hf'
      subst hf'
      exact ⟨c3, hr, ha, hl⟩

end Djc.Props.C03
