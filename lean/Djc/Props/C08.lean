/-
  C08 — render_dependencies only strips markers and inserts tags where documented.
  Property theorems only (helper lemmas: `Djc/Proofs/Deps.lean`).
  Every theorem holds for every input text `s`, every generated-tag strings `C`, `J`, and for the
  case-sensitive as well as the case-insensitive end-tag recogniser (`ci`; the value used by the
  correspondence is extracted from the flags of `head_or_body_end_tag_re` on every run).
-/
import Djc.Proofs.Deps
import Djc.Generated
namespace Djc.Props.C08
open Djc.Model.Deps Djc.Proofs.Deps

/-- The index arithmetic of `_insert_js_css_to_default_locations` is right: the two sequential
insertions equal the *simultaneous* insertion of `C` immediately before the first `</head>` and of
`J` immediately before the last `</body>` of the same text — whichever of the two comes first.
(This is the statement that was false before the `fix:` commit: for `b < h` the code inserted `J`
at `b + |C|`.) -/
theorem insertDefault_is_simultaneous_insertion (ci : Bool) (s C J : List Char) (h b : Nat)
    (hh : firstHead ci s = some h) (hb : lastBody ci s = some b) :
    insertDefault ci s (some C) (some J) =
      if h < b then s.take h ++ C ++ (s.drop h).take (b - h) ++ J ++ s.drop b
      else s.take b ++ J ++ (s.drop b).take (h - b) ++ C ++ s.drop h := by
  have fh := (firstHead_spec ci s).1 h hh
  have lb := (lastBody_spec ci s).1 b hb
  have hne : h ≠ b := by
    intro e; subst e
    rw [fh.1] at lb; cases lb.1
  simp only [insertDefault, Option.isSome_some, if_true, hh, hb, insertAt]
  by_cases hlt : h < b
  · have hgt : ¬ h > b := by omega
    simp only [hlt, hgt, if_true, if_false]
    rw [take_insert_ge s C h b (by omega) (by omega), drop_insert_ge s C h b (by omega) (by omega)]
  · have hgt : h > b := by omega
    simp only [hlt, hgt, if_true, if_false, Nat.add_zero]
    rw [take_insert_lt s C h b (by omega) (by omega), drop_insert_lt s C h b (by omega) (by omega)]
    simp [List.append_assoc]

/-- With only one of the two to insert (the other kind had a placeholder), it is a plain insertion
at that tag; with no such tag, nothing is inserted ("otherwise nowhere"). -/
theorem insertDefault_single (ci : Bool) (s C J : List Char) :
    insertDefault ci s (some C) none =
      (match firstHead ci s with
       | some h => s.take h ++ C ++ s.drop h
       | none => s) ∧
    insertDefault ci s none (some J) =
      (match lastBody ci s with
       | some b => s.take b ++ J ++ s.drop b
       | none => s) ∧
    (firstHead ci s = none → lastBody ci s = none → insertDefault ci s (some C) (some J) = s) := by
  refine ⟨?_, ?_, ?_⟩
  · simp only [insertDefault, Option.isSome_some, Option.isSome_none, if_true, insertAt]
    cases firstHead ci s <;> simp
  · simp only [insertDefault, Option.isSome_some, Option.isSome_none, if_true, insertAt]
    cases lastBody ci s <;> simp
  · intro h1 h2
    simp [insertDefault, h1, h2]

/-- `firstHead` really is the first `</head\s*>`: a match starts there and none starts earlier. -/
theorem firstHead_is_first (ci : Bool) (s : List Char) (h : Nat) (hh : firstHead ci s = some h) :
    matchEndTag ci (s.drop h) = some .head ∧
    ∀ k, k < h → matchEndTag ci (s.drop k) ≠ some .head :=
  ⟨((firstHead_spec ci s).1 h hh).1, ((firstHead_spec ci s).1 h hh).2.2⟩

/-- `lastBody` really is the last `</body\s*>`; and `none` means there is no such tag at all. -/
theorem lastBody_is_last (ci : Bool) (s : List Char) :
    (∀ b, lastBody ci s = some b →
      matchEndTag ci (s.drop b) = some .body ∧ ∀ k, b < k → matchEndTag ci (s.drop k) ≠ some .body) ∧
    (lastBody ci s = none → ∀ k, matchEndTag ci (s.drop k) ≠ some .body) ∧
    (firstHead ci s = none → ∀ k, matchEndTag ci (s.drop k) ≠ some .head) :=
  ⟨fun b hb => ⟨((lastBody_spec ci s).1 b hb).1, ((lastBody_spec ci s).1 b hb).2.2⟩,
   (lastBody_spec ci s).2, (firstHead_spec ci s).2⟩

/-- Each substitution pass (`regex.sub`) is an edit script: every character of its input is either
kept, in order, or belongs to a match that is replaced as a whole.  Instantiated for the marker
pass (replacement empty) and the placeholder pass (replacement `C` / `J`). -/
theorem subAll_edit_script (C J s : List Char) :
    EditScript markerMatcher s (stripMarkers s) ∧
    EditScript (placeholderMatcher C J) (stripMarkers s)
      (subAll (placeholderMatcher C J) (stripMarkers s)) :=
  ⟨subAll_editScript _ _, subAll_editScript _ _⟩

/-- The marker pass only deletes: its output is a subsequence of the input. -/
theorem stripMarkers_only_deletes (s : List Char) : List.Sublist (stripMarkers s) s := by
  apply subAll_sublist_of_delete
  intro s n r h
  simp only [markerMatcher] at h
  split at h
  · simp at h; exact h.2
  · cases h

/-- Fragment mode: placeholders are deleted and `J` is appended at the end; nothing else. -/
theorem renderDeps_fragment_appends (ci : Bool) (C J s : List Char) :
    renderDeps ci false C J s = subAll (placeholderMatcher [] []) (stripMarkers s) ++ J := by
  simp [renderDeps]

/-- Document mode with a placeholder of each kind: tags go to the placeholders only — no default
location is used. -/
theorem renderDeps_doc_both_placeholders_no_default_insertion (ci : Bool) (C J s : List Char)
    (hc : foundKind .css (stripMarkers s) = true) (hj : foundKind .js (stripMarkers s) = true) :
    renderDeps ci true C J s = subAll (placeholderMatcher C J) (stripMarkers s) := by
  simp [renderDeps, hc, hj]

/-- A text without markers, placeholders and end tags is returned unchanged in document mode and
with `J` appended in fragment mode ("every other byte is preserved", "otherwise nowhere"). -/
theorem renderDeps_identity_without_anchors (ci : Bool) (C J s : List Char)
    (hm : ∀ k, matchMarker (s.drop k) = none)
    (hp : ∀ k, matchPlaceholder (s.drop k) = none)
    (he : ∀ k, matchEndTag ci (s.drop k) = none) :
    renderDeps ci true C J s = s ∧ renderDeps ci false C J s = s ++ J := by
  have h1 : stripMarkers s = s := by
    apply subAll_noop
    intro k; simp [markerMatcher, hm k]
  have h2 : ∀ C' J', subAll (placeholderMatcher C' J') s = s := by
    intro C' J'
    apply subAll_noop
    intro k; simp [placeholderMatcher, hp k]
  have hfh : firstHead ci s = none := by
    cases hf : firstHead ci s with
    | none => rfl
    | some h => have := ((firstHead_spec ci s).1 h hf).1; rw [he h] at this; cases this
  have hlb : lastBody ci s = none := by
    cases hf : lastBody ci s with
    | none => rfl
    | some b => have := ((lastBody_spec ci s).1 b hf).1; rw [he b] at this; cases this
  constructor
  · simp only [renderDeps, h1, foundKind_false _ s hp, h2, if_true]
    simp [insertDefault, hfh, hlb]
  · simp [renderDeps, h1, h2]

/-- The middleware rewrites a response exactly when it is not streaming and its content type
starts with `text/html`; everything else passes through untouched. -/
theorem middleware_passthrough (streaming : Bool) (ct : List Char) :
    middlewareTouches streaming ct = true ↔
      (streaming = false ∧ (dropPrefix? "text/html".toList ct).isSome = true) := by
  simp [middlewareTouches]

/-! ### non-vacuity / regression witness of the repaired defect -/

example : renderDeps false true "[C]".toList "[J]".toList "A</body>B</head>C".toList
    = "A[J]</body>B[C]</head>C".toList := by decide

example : firstHead false "A</body>B</head>C".toList = some 9 ∧
    lastBody false "A</body>B</head>C".toList = some 1 := by decide

example : renderDeps false true "[C]".toList "[J]".toList
    "a<!-- _RENDERED x_1,ab12cd,, --><link name=\"CSS_PLACEHOLDER\">b</body>".toList
    = "a[C]b[J]</body>".toList := by decide

end Djc.Props.C08
