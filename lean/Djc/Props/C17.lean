/-
  C17 — the static-files finder exposes exactly the allowed, non-forbidden files.
  Property theorems only (helper lemmas: `Djc/Proofs/Finder.lean`).
  Quantified over every path (any characters except a newline where stated), every allowed /
  forbidden list, every opaque compiled-regex predicate `rx`; the theorems about the shipped
  defaults mention `Djc.Generated.staticFilesAllowed / staticFilesForbidden`, which are re-extracted
  from app_settings.py on every run.
-/
import Djc.Proofs.Finder
import Djc.Generated
namespace Djc.Props.C17
open Djc.Model.Finder Djc.Proofs.Finder

/-- A path is valid iff it matches some allowed entry and no forbidden one. -/
theorem valid_iff (rx : Nat → List Char → Bool) (allowed forbidden : List Pat) (p : List Char) :
    isPathValid rx allowed forbidden p = true ↔
      (∃ a ∈ allowed, matchesPat rx a p = true) ∧ (∀ f ∈ forbidden, matchesPat rx f p = false) := by
  simp [isPathValid]

/-- A suffix entry means "the name ends with the suffix" — for every suffix, whatever
characters it contains (this needs the `re.escape` of the `fix:` commit; `$` additionally accepts
a trailing newline, hence the hypothesis on `p`). -/
theorem suffix_means_endsWith (rx : Nat → List Char → Bool) (s p : List Char) (hnl : '\n' ∉ p) :
    matchesPat rx (.suffix s) p = true ↔ s <:+ p := by
  simp only [matchesPat]
  exact matchesSuffix_iff s p hnl

/-- A forbidden match always wins. -/
theorem forbidden_wins (rx : Nat → List Char → Bool) (allowed forbidden : List Pat) (p : List Char)
    (f : Pat) (hf : f ∈ forbidden) (hm : matchesPat rx f p = true) :
    isPathValid rx allowed forbidden p = false := by
  cases h : isPathValid rx allowed forbidden p with
  | false => rfl
  | true =>
    have := ((valid_iff rx allowed forbidden p).mp h).2 f hf
    rw [hm] at this; cases this

/-- Patterns that cannot see the directory prefix: suffixes without '/', and regexes whose
verdict does not change when the path is put below a directory. -/
def PrefixBlind (rx : Nat → List Char → Bool) : Pat → Prop
  | .suffix s => '/' ∉ s
  | .regex i => ∀ pre rel, rx i (pre ++ '/' :: rel) = rx i rel

/-- `find` and `list` agree: a file below the root is returned by `find(relative path)` iff it is
yielded by `list`, both iff it is valid (for prefix-blind patterns; `find` tests the absolute path,
`list` the relative one). -/
theorem find_iff_list (rx : Nat → List Char → Bool) (allowed forbidden : List Pat)
    (root : List (List Char)) (files : List (List (List Char))) (f : List (List Char))
    (hblind : ∀ p ∈ allowed ++ forbidden, PrefixBlind rx p)
    (hf : f ∈ files) (hne : f ≠ [])
    (hclean : ∀ c ∈ f, c ≠ [] ∧ c ≠ ['.'] ∧ c ≠ ['.', '.'])
    (hnl : '\n' ∉ joinPath (root ++ f)) :
    (find rx allowed forbidden root files false f = some (root ++ f) ↔
      f ∈ list rx allowed forbidden files) ∧
    (f ∈ list rx allowed forbidden files ↔
      isPathValid rx allowed forbidden (relPath f) = true) := by
  have hjoin : safeJoin root false f = some (root ++ f) := by
    simp [safeJoin, normalize_of_clean f hclean]
  obtain ⟨c, f', rfl⟩ : ∃ c f', f = c :: f' := by
    cases f with
    | nil => exact absurd rfl hne
    | cons c f' => exact ⟨c, f', rfl⟩
  have hrel : joinPath (root ++ c :: f') = joinPath root ++ '/' :: relPath (c :: f') := by
    rw [joinPath_append, joinPath_cons]; simp [relPath, joinPath_cons]
  have hnl2 : '\n' ∉ relPath (c :: f') := by
    intro h; apply hnl; rw [hrel]; simp [h]
  have hpat : ∀ p ∈ allowed ++ forbidden,
      matchesPat rx p (joinPath (root ++ c :: f')) = matchesPat rx p (relPath (c :: f')) := by
    intro p hp
    have hb := hblind p hp
    cases p with
    | regex i => simp only [matchesPat, hrel]; exact hb _ _
    | suffix s =>
      have h1 := matchesSuffix_iff s _ hnl
      have h2 := matchesSuffix_iff s _ hnl2
      simp only [matchesPat]
      rw [hrel] at h1
      have h3 := suffix_below_dir s (joinPath root) (relPath (c :: f')) hb
      rw [hrel]
      cases ha : matchesSuffix s (joinPath root ++ '/' :: relPath (c :: f')) <;>
        cases hb' : matchesSuffix s (relPath (c :: f')) <;> simp_all
  have hvalid : isPathValid rx allowed forbidden (joinPath (root ++ c :: f')) =
      isPathValid rx allowed forbidden (relPath (c :: f')) := by
    simp only [isPathValid]
    rw [any_congr' allowed _ _ (fun a ha => hpat a (by simp [ha])),
        all_congr' forbidden _ (fun f => !matchesPat rx f (relPath (c :: f')))
          (fun a ha => by rw [hpat a (by simp [ha])])]
  have hex : files.any (fun g => root ++ g = root ++ c :: f') = true := by
    simp only [List.any_eq_true, decide_eq_true_eq]
    exact ⟨c :: f', hf, rfl⟩
  constructor
  · simp only [find, hjoin, list, List.mem_filter, hf, true_and, hvalid]
    simp only [hex, true_and]
    by_cases hv : isPathValid rx allowed forbidden (relPath (c :: f')) = true <;> simp [hv]
  · simp [list, hf]

/-- `find` never returns anything outside the component directory, whatever the request path
(`..` segments, absolute paths, prefix tricks): the result is the root followed by further
components, none of which is `..`, `.` or empty. -/
theorem find_stays_inside (rx : Nat → List Char → Bool) (allowed forbidden : List Pat)
    (root : List (List Char)) (files : List (List (List Char))) (abs : Bool)
    (path q : List (List Char))
    (hroot : ∀ c ∈ root, c ≠ [] ∧ c ≠ ['.'] ∧ c ≠ ['.', '.'])
    (h : find rx allowed forbidden root files abs path = some q) :
    (∃ rest, q = root ++ rest) ∧ (∀ c ∈ q, c ≠ [] ∧ c ≠ ['.'] ∧ c ≠ ['.', '.']) ∧
    isPathValid rx allowed forbidden (joinPath q) = true := by
  unfold find at h
  cases hs : safeJoin root abs path with
  | none => simp [hs] at h
  | some q' =>
    simp only [hs] at h
    split at h
    · rename_i hc
      cases h
      have := safeJoin_some hroot hs
      obtain ⟨rest, hr⟩ := this.1
      exact ⟨⟨rest, hr.symm⟩, this.2, hc.2⟩
    · cases h

/-! ### the shipped defaults -/

def asSuffixes (xs : List String) : List Pat := xs.map (fun s => Pat.suffix s.toList)

/-- Extensions of backend code: Python sources / byte code / stubs, and template files. -/
def backendExts : List String :=
  [".py", ".pyc", ".pyo", ".pyi", ".pyw", ".pyd", ".html", ".htm", ".django", ".dj", ".tpl",
   ".jinja", ".jinja2", ".j2"]

/-- Table check over the *extracted* default lists: no allowed suffix is comparable (as a suffix)
with a backend extension. -/
theorem defaults_disjoint_from_backend :
    ∀ a ∈ Djc.Generated.staticFilesAllowed, ∀ e ∈ backendExts,
      (a.toList.isSuffixOf e.toList || e.toList.isSuffixOf a.toList) = false := by
  decide +kernel

/-- With default settings no Python or template file is ever exposed: for every path (of any
length, in any directory) that ends with a backend extension, the finder says "not valid". -/
theorem defaults_hide_backend (rx : Nat → List Char → Bool) (p : List Char) (hnl : '\n' ∉ p)
    (e : String) (he : e ∈ backendExts) (hend : e.toList <:+ p) :
    isPathValid rx (asSuffixes Djc.Generated.staticFilesAllowed)
      (asSuffixes Djc.Generated.staticFilesForbidden) p = false := by
  cases h : isPathValid rx (asSuffixes Djc.Generated.staticFilesAllowed)
      (asSuffixes Djc.Generated.staticFilesForbidden) p with
  | false => rfl
  | true =>
    exfalso
    obtain ⟨a, ha, hm⟩ := ((valid_iff _ _ _ _).mp h).1
    simp only [asSuffixes, List.mem_map] at ha
    obtain ⟨s, hs, rfl⟩ := ha
    have hsuf : s.toList <:+ p := (suffix_means_endsWith rx _ p hnl).mp hm
    have hdis := defaults_disjoint_from_backend s hs e he
    simp only [Bool.or_eq_false_iff] at hdis
    rcases List.suffix_or_suffix_of_suffix hsuf hend with h1 | h1
    · have := List.isSuffixOf_iff_suffix.mpr h1; rw [hdis.1] at this; cases this
    · have := List.isSuffixOf_iff_suffix.mpr h1; rw [hdis.2] at this; cases this

/-- The forbidden defaults still name the Python and template extensions explicitly, so that they
stay hidden when a project widens the allowed list. -/
theorem defaults_forbid_backend_explicitly :
    ∀ e ∈ [".py", ".pyc", ".html", ".django", ".dj", ".tpl"], e ∈ Djc.Generated.staticFilesForbidden := by
  decide

theorem widened_allowed_still_hides_python (rx : Nat → List Char → Bool) (allowed : List Pat)
    (p : List Char) (hnl : '\n' ∉ p) (e : String)
    (he : e ∈ [".py", ".pyc", ".html", ".django", ".dj", ".tpl"]) (hend : e.toList <:+ p) :
    isPathValid rx allowed (asSuffixes Djc.Generated.staticFilesForbidden) p = false := by
  apply forbidden_wins rx allowed _ p (.suffix e.toList)
  · simp only [asSuffixes, List.mem_map]
    exact ⟨e, defaults_forbid_backend_explicitly e he, rfl⟩
  · exact (suffix_means_endsWith rx _ p hnl).mpr hend

/-! ### non-vacuity -/

example : isPathValid (fun _ _ => false) (asSuffixes [".min.js"]) (asSuffixes [".py"]) "a.min.js".toList = true ∧
    isPathValid (fun _ _ => false) (asSuffixes [".min.js"]) (asSuffixes [".py"]) "a.minXjs".toList = false := by
  decide

example : find (fun _ _ => false) (asSuffixes [".js"]) (asSuffixes [".py"])
    ["srv".toList, "components".toList] [["sub".toList, "a.js".toList]] false
    ["sub".toList, "..".toList, "..".toList, "..".toList, "etc".toList, "a.js".toList] = none := by
  decide

end Djc.Props.C17
