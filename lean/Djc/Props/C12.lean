/-
  C12 — parsing any tag terminates with success or TemplateSyntaxError.
  Property theorems only (helper lemmas: `Djc/Proofs/TagParser.lean`).
  `parseTag` is the small-step model of `parse_tag`; every theorem is about every input string.
-/
import Djc.Proofs.TagParser
import Djc.Generated
namespace Djc.Props.C12
open Djc.Model.TagParser Djc.Proofs.TagParser

/-- **Termination.** Every loop iteration that continues strictly decreases the measure
`4·(remaining characters) + rank(loop)`: no branch of the scanner fails to advance. -/
theorem step_decreases_measure (st st' : St) (h : step st = .next st') : mu st' < mu st :=
  step_decreases st st' h

/-- The fuel `4·|text| + 4` is never exhausted: the parser always terminates. -/
theorem parseTag_never_out_of_fuel (text : Str) : parseTag text ≠ .outOfFuel := by
  apply run_fuel
  simp [mu, initSt, rank]

theorem run_mono (fuel k : Nat) : ∀ st, run fuel st ≠ .outOfFuel → run (fuel + k) st = run fuel st := by
  induction fuel with
  | zero => intro st h; simp [run] at h
  | succ fuel ih =>
    intro st h
    rw [Nat.succ_add]
    simp only [run] at h ⊢
    cases hs : step st with
    | done n a => rfl
    | fail e => rfl
    | next st' =>
      simp only [hs] at h ⊢
      exact ih st' h

/-- **Linear number of steps** (hence at most quadratic time with the linear-cost string
operations each step performs): the run is over after at most `4·|text| + 2` iterations — more
fuel changes nothing. -/
theorem parseTag_steps_linear (text : Str) (fuel : Nat) (h : 4 * text.length + 2 ≤ fuel) :
    run fuel (initSt text) = run (4 * text.length + 2) (initSt text) := by
  obtain ⟨k, rfl⟩ : ∃ k, fuel = 4 * text.length + 2 + k := ⟨fuel - (4 * text.length + 2), by omega⟩
  apply run_mono
  apply run_fuel
  simp [mu, initSt, rank]

/-- **Totality.** The outcome is success or a `TemplateSyntaxError` (each `raise` site of the
Python code is a `syntax` error of the model; the model has no other failure). -/
theorem parseTag_total (text : Str) :
    (∃ n a, parseTag text = .ok n a) ∨ (∃ site, parseTag text = .error (.tse site)) := by
  have := parseTag_never_out_of_fuel text
  cases h : parseTag text with
  | ok n a => exact Or.inl ⟨n, a, rfl⟩
  | error e => cases e with | tse site => exact Or.inr ⟨site, rfl⟩
  | outOfFuel => exact absurd h this

/-- The token tables of the model are the ones the source declares (re-extracted on every run). -/
theorem ws_table_matches_source :
    wsChars = Djc.Generated.tagWhitespace ∧
    filterToks = Djc.Generated.tagFilter.map String.toList ∧
    spreadToks = Djc.Generated.tagSpread.map String.toList := by
  decide

/-! ### non-vacuity -/

example : (match parseTag "a=[1, *b] ...c".toList with | .ok _ attrs => attrs.length | _ => 0) = 2 := by
  decide +kernel

example : (match parseTag "a=[1".toList with | .error (.tse s) => s | _ => "") = "unexpected end of text" := by
  decide +kernel

end Djc.Props.C12
