/-
  C10 — stock templating is preserved: unchanged alone, composes with components.
  Property theorems only.  Part 1 rests on the lexer theorems of C09 and on the decision logic of
  the patched `Template.render`; part 2 on `Djc.Blocks.flatten` (the hand-resolution of extends /
  block / block.super / include the property speaks of).
-/
import Djc.Props.C09
import Djc.Model.Blocks
namespace Djc.Props.C10
open Djc.Tpl Djc.Blocks

/-! ### part 1: templates that do not use the library -/

/-- **Same tokens.** A template without a quote character inside a block tag is lexed exactly as
stock Django lexes it — every source text, both `engine.debug` values. -/
theorem lexer_neutral_without_quotes (d : Bool) (text : Djc.Model.Lexer.Str)
    (h : ∀ t, t ∈ Djc.Model.Lexer.stockLex d text → Djc.Model.Lexer.isBroken t = false) :
    Djc.Model.Lexer.parseTemplate d text = .ok (Djc.Model.Lexer.stockLex d text) :=
  Djc.Props.C09.parseTemplate_eq_stock_of_no_quote d text h

/-- **Same render path.** A template object that does not carry the library's marker attribute is
rendered with `isolated_context=True`, which is what the unpatched `Template.render` passes. -/
theorem plain_template_takes_stock_path : isolatedContext none = true := rfl

/-- only templates the library itself marks as nested skip the isolation layer -/
theorem only_marked_templates_differ (a : Option Bool) : isolatedContext a = false ↔ a = some true := by
  cases a with
  | none => simp [isolatedContext]
  | some b => cases b <;> simp [isolatedContext]

/-! ### part 2: what "flattened by hand" means -/

/-- a block nobody overrides renders its own content (with an empty `block.super`) -/
theorem block_without_override (fuel : Nat) (body : List Node) :
    expandChain fuel [body] = substSuper fuel [] body := rfl

/-- **The child's definition wins, and `block.super` is the parent's content** (itself resolved
against the rest of the chain), for chains of any length. -/
theorem override_wins (fuel : Nat) (child : List Node) (rest : List (List Node)) :
    expandChain fuel (child :: rest) = substSuper fuel (expandChain fuel rest) child := rfl

mutual
  def noSuperNodes : Nat → List Node → Bool
    | 0, _ => true
    | _ + 1, [] => true
    | n + 1, nd :: rest => noSuperNode n nd && noSuperNodes n rest
  def noSuperNode : Nat → Node → Bool
    | 0, _ => true
    | n + 1, nd =>
      match nd with
      | .blockSuper => false
      | .ifn _ a b => noSuperNodes n a && noSuperNodes n b
      | .forn _ _ body => noSuperNodes n body
      | .withn _ _ body => noSuperNodes n body
      | .elem _ body => noSuperNodes n body
      | .slot _ _ _ _ body => noSuperNodes n body
      | .fill _ _ _ body => noSuperNodes n body
      | .comp _ _ _ _ body => noSuperNodes n body
      | .provide _ _ body => noSuperNodes n body
      | _ => true
end

theorem subst_without_super (fuel : Nat) :
    (∀ sup nodes, noSuperNodes fuel nodes = true → substSuper fuel sup nodes = nodes) ∧
    (∀ sup nd, noSuperNode fuel nd = true → substNode fuel sup nd = [nd]) := by
  induction fuel with
  | zero => exact ⟨fun _ _ _ => by simp [substSuper], fun _ _ _ => by simp [substNode]⟩
  | succ n ih =>
    obtain ⟨ih1, ih2⟩ := ih
    constructor
    · intro sup nodes h
      cases nodes with
      | nil => simp [substSuper]
      | cons nd rest =>
        simp only [noSuperNodes, Bool.and_eq_true] at h
        simp [substSuper, ih1 sup rest h.2, ih2 sup nd h.1]
    · intro sup nd h
      cases nd <;> simp only [noSuperNode, Bool.and_eq_true] at h <;>
        first
        | (simp [substNode, ih1 sup _ h]; done)
        | (simp [substNode, ih1 sup _ h.1, ih1 sup _ h.2]; done)
        | (simp [substNode]; done)
        | (cases h)

/-- **An override without `block.super` replaces the parent block entirely**: nothing of the
parent chain reaches the output, whatever it contains. -/
theorem override_without_super_replaces (fuel : Nat) (child : List Node) (rest : List (List Node))
    (h : noSuperNodes fuel child = true) : expandChain fuel (child :: rest) = child := by
  rw [override_wins]
  exact (subst_without_super fuel).1 _ _ h

example : expandChain 5 [[.text ['c'], .blockSuper], [.text ['p']]] = [.text ['c'], .text ['p']] := by
  rfl

mutual
  def plainNodes : Nat → List Node → Bool
    | 0, _ => true
    | _ + 1, [] => true
    | n + 1, nd :: rest => plainNode n nd && plainNodes n rest
  def plainNode : Nat → Node → Bool
    | 0, _ => true
    | n + 1, nd =>
      match nd with
      | .block _ _ => false
      | .blockSuper => false
      | .extends _ => false
      | .includen _ => false
      | .ifn _ a b => plainNodes n a && plainNodes n b
      | .forn _ _ body => plainNodes n body
      | .withn _ _ body => plainNodes n body
      | .elem _ body => plainNodes n body
      | .slot _ _ _ _ body => plainNodes n body
      | .fill _ _ _ body => plainNodes n body
      | .comp _ _ _ _ body => plainNodes n body
      | .provide _ _ body => plainNodes n body
      | _ => true
end

theorem flatten_plain (fam : Family) (fuel : Nat) :
    (∀ ov nodes, plainNodes fuel nodes = true → flattenNodes fam fuel ov nodes = nodes) ∧
    (∀ ov nd, plainNode fuel nd = true → flattenNode fam fuel ov nd = [nd]) := by
  induction fuel with
  | zero => exact ⟨fun _ _ _ => by simp [flattenNodes], fun _ _ _ => by simp [flattenNode]⟩
  | succ n ih =>
    obtain ⟨ih1, ih2⟩ := ih
    constructor
    · intro ov nodes h
      cases nodes with
      | nil => simp [flattenNodes]
      | cons nd rest =>
        simp only [plainNodes, Bool.and_eq_true] at h
        simp [flattenNodes, ih1 ov rest h.2, ih2 ov nd h.1]
    · intro ov nd h
      cases nd <;> simp only [plainNode, Bool.and_eq_true] at h <;>
        first
        | (simp [flattenNode, ih1 ov _ h]; done)
        | (simp [flattenNode, ih1 ov _ h.1, ih1 ov _ h.2]; done)
        | (simp [flattenNode]; done)
        | (cases h)

/-- **A template that uses no composition tag is its own flattening** — whatever component, slot,
fill and provide tags it holds, at any depth, and whatever overrides are in force: flattening only
ever touches `extends` / `block` / `block.super` / `include`. -/
theorem flatten_leaves_plain_templates_alone (fam : Family) (fuel : Nat) (ov : Overrides) (nodes : List Node)
    (h : plainNodes fuel nodes = true) : flattenNodes fam fuel ov nodes = nodes :=
  (flatten_plain fam fuel).1 ov nodes h

/-- The property at full strength (part 2) for the interpreters: rendering a family equals
rendering its flattening.  OPEN: the model of the code has no block machinery of its own (the
interpreters refuse composition tags); decided on the real code by the metamorphic stream. -/
def C10_full : Prop :=
  ∀ (fam : Family) (root : Str) (fuel : Nat),
    ∃ plain : List Node, plain = flattenTpl fam fuel root [] ∧ collectBlocks fuel plain = []

end Djc.Props.C10
