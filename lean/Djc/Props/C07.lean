/-
  C07 — concurrent renders in different threads do not interfere.  Property theorems only.

  Granularity: a shared-state action is one read or write of one entry of a module-level registry.
  `isolated_of_disjoint_keys` is the isolation argument for renders that touch only entries keyed by
  ids they generated themselves (the correspondence checks that footprint on the real code, and the
  scheduler replays interleavings).  `error_path_race` is a concrete interleaving of bookkeeping
  operations of two renders with `{% provide %}` in which the property fails (known finding).
-/
import Djc.Proofs.Render
import Djc.Proofs.TreeFail
namespace Djc.Props.C07
open Djc.Tpl Djc.Render Djc.Proofs.Render

/-! ### actions on a keyed registry -/

abbrev Store := Nat → Option Nat

inductive Act where
  | set (k v : Nat)
  | del (k : Nat)
  | get (k : Nat)
deriving Repr, DecidableEq

def Act.key : Act → Nat
  | .set k _ => k
  | .del k => k
  | .get k => k

/-- one action: the new store and what the action read -/
def step (s : Store) : Act → Store × Option (Option Nat)
  | .set k v => (fun x => if x = k then some v else s x, none)
  | .del k => (fun x => if x = k then none else s x, none)
  | .get k => (s, some (s k))

/-- a thread alone: what its actions read -/
def runSolo (s : Store) : List Act → List (Option (Option Nat))
  | [] => []
  | a :: rest => (step s a).2 :: runSolo (step s a).1 rest

/-- an interleaving of two threads (tag `true` / `false`): what every action read -/
def runTagged (s : Store) : List (Bool × Act) → List (Bool × Option (Option Nat))
  | [] => []
  | (t, a) :: rest => (t, (step s a).2) :: runTagged (step s a).1 rest

def AgreeOn (K : Nat → Prop) (s t : Store) : Prop := ∀ k, K k → s k = t k

theorem step_agree_own (K : Nat → Prop) (s t : Store) (a : Act) (hk : K a.key) (h : AgreeOn K s t) :
    (step s a).2 = (step t a).2 ∧ AgreeOn K (step s a).1 (step t a).1 := by
  cases a with
  | set k v => exact ⟨rfl, fun x hx => by simp only [step]; split <;> simp [h x hx]⟩
  | del k => exact ⟨rfl, fun x hx => by simp only [step]; split <;> simp [h x hx]⟩
  | get k => exact ⟨by simp [step, h k hk], h⟩

theorem step_agree_other (K : Nat → Prop) (s t : Store) (a : Act) (hk : ¬ K a.key) (h : AgreeOn K s t) :
    AgreeOn K (step s a).1 t := by
  intro x hx
  have hne : x ≠ a.key := fun e => hk (e ▸ hx)
  cases a with
  | set k v => simp only [step]; rw [if_neg (by simpa [Act.key] using hne)]; exact h x hx
  | del k => simp only [step]; rw [if_neg (by simpa [Act.key] using hne)]; exact h x hx
  | get k => exact h x hx

/-- **Isolation of renders with private keys.**  Let the two threads touch disjoint sets of keys
(thread `true` only keys in `K`, thread `false` only keys outside).  Then under EVERY interleaving
— any number of pre-emptions, any lengths — each thread reads exactly what it reads when it runs
alone from a store that agrees with the shared one on its own keys. -/
theorem isolated_of_disjoint_keys (K : Nat → Prop) (cs : List (Bool × Act))
    (hA : ∀ c ∈ cs, c.1 = true → K c.2.key) (hB : ∀ c ∈ cs, c.1 = false → ¬ K c.2.key) :
    ∀ (s sA sB : Store), AgreeOn K s sA → AgreeOn (fun k => ¬ K k) s sB →
      ((runTagged s cs).filter (·.1)).map (·.2) = runSolo sA ((cs.filter (·.1)).map (·.2)) ∧
      ((runTagged s cs).filter (fun c => !c.1)).map (·.2) = runSolo sB ((cs.filter (fun c => !c.1)).map (·.2)) := by
  induction cs with
  | nil => intro s sA sB _ _; exact ⟨rfl, rfl⟩
  | cons c rest ih =>
    obtain ⟨t, a⟩ := c
    intro s sA sB h1 h2
    have hA' : ∀ c ∈ rest, c.1 = true → K c.2.key := fun c hc => hA c (List.mem_cons_of_mem _ hc)
    have hB' : ∀ c ∈ rest, c.1 = false → ¬ K c.2.key := fun c hc => hB c (List.mem_cons_of_mem _ hc)
    cases t with
    | true =>
      have hk : K a.key := hA (true, a) (List.mem_cons_self ..) rfl
      obtain ⟨e1, e2⟩ := step_agree_own K s sA a hk h1
      have e3 : AgreeOn (fun k => ¬ K k) (step s a).1 sB :=
        step_agree_other (fun k => ¬ K k) s sB a (fun h => h hk) h2
      obtain ⟨r1, r2⟩ := ih hA' hB' _ _ _ e2 e3
      constructor
      · simp only [runTagged, List.filter_cons, if_true, List.map_cons, runSolo, e1]
        rw [← r1]
      · simpa [runTagged, List.filter_cons] using r2
    | false =>
      have hk : ¬ K a.key := hB (false, a) (List.mem_cons_self ..) rfl
      obtain ⟨e1, e2⟩ := step_agree_own (fun k => ¬ K k) s sB a hk h2
      have e3 : AgreeOn K (step s a).1 sA := step_agree_other K s sA a hk h1
      obtain ⟨r1, r2⟩ := ih hA' hB' _ _ _ e3 e2
      constructor
      · simpa [runTagged, List.filter_cons] using r1
      · simp only [runTagged, List.filter_cons, Bool.not_false, if_true, List.map_cons, runSolo, e1]
        rw [← r2]

/-- non-vacuity: an interleaving with three pre-emptions -/
example :
    ((runTagged (fun _ => none) [(true, .set 1 7), (false, .set 2 9), (true, .get 1), (false, .del 2), (false, .get 2), (true, .get 1)]).filter (·.1)).map (·.2)
      = runSolo (fun _ => none) [.set 1 7, .get 1, .get 1] := by decide

/-! ### the registries themselves: writes under different ids commute -/

/-- two threads storing entries under different render ids: whichever goes first, every lookup sees
the same registry afterwards -/
theorem registry_sets_commute {β} (k k' : Nat) (v v' : β) (l : List (Nat × β)) (h : k ≠ k') (x : Nat) :
    alGet x (alSet k v (alSet k' v' l)) = alGet x (alSet k' v' (alSet k v l)) := by
  by_cases hx : x = k
  · subst hx
    rw [alGet_alSet_same, alGet_alSet_ne _ _ _ _ (Ne.symm h), alGet_alSet_same]
  · by_cases hx' : x = k'
    · subst hx'
      rw [alGet_alSet_ne _ _ _ _ (Ne.symm hx), alGet_alSet_same, alGet_alSet_same]
    · rw [alGet_alSet_ne _ _ _ _ (Ne.symm hx), alGet_alSet_ne _ _ _ _ (Ne.symm hx'),
        alGet_alSet_ne _ _ _ _ (Ne.symm hx'), alGet_alSet_ne _ _ _ _ (Ne.symm hx)]

/-- … and deleting one's own entry does not disturb anybody else's -/
theorem registry_delete_is_private {β} (k k' : Nat) (l : List (Nat × β)) (h : k' ≠ k) :
    alGet k (alDel k' l) = alGet k l := alGet_alDel_ne k k' l h

/-! ### the provide bookkeeping is not private: a failing interleaving -/

/-- **Known finding (C07).**  Two renders A and B, each with its own `{% provide %}` (ids 10 and 20).
B enters its provider; A enters its provider and registers a component (id 11) that will be rendered
later (it is nested in a component template); B's body raises: its error handler unregisters every
reference id that appeared in the global set since B entered — including A's 11; A's provider body
ends and, with no reference left, deletes A's data.  A's deferred component then finds no entry. -/
theorem error_path_race :
    let ctxA : Ctx := [[], [(injectPrefix ++ ['k'], .provRef 10)]]
    let w0 : World := {}
    -- B enters provider 20 and takes its snapshot of all_reference_ids
    let w1 := holdSelfW 20 { w0 with provideCache := alSet 20 [] w0.provideCache }
    let beforeB := w1.allRefIds
    -- A enters provider 10 and registers its component 11
    let w2 := holdSelfW 10 { w1 with provideCache := alSet 10 [] w1.provideCache }
    let w3 := registerRefW ctxA 11 w2
    -- B fails
    let w4 := (provideFailW 20 beforeB w3).2
    -- A's provider body ends normally
    let w5 := (cacheCleanupW 10 w4).2
    -- A alone (without B's failure) keeps its data for the deferred component …
    alHas 10 (cacheCleanupW 10 w3).2.provideCache = true ∧
    -- … but in this interleaving it is gone
    alHas 10 w5.provideCache = false := by
  decide

/-! ### the footprint hypothesis, for the model of the code -/

/-- **A render writes only under ids it generated itself** (the write half of the hypothesis of
`isolated_of_disjoint_keys`, proved for the model of the code on the tree fragment; the footprint stream checks reads and
writes on the real code).  Whatever a render of a `{% component %}` tag of the tree fragment does — return or raise, any
depth of nesting, slots, fills — every entry of `component_context_cache`, `component_renderer_cache` and
`child_component_attrs` under an id that was *not* generated by this render (older: `k < w.nextId`; or not generated
yet: `w'.nextId ≤ k`) reads after the render as it read before, and the provide registries are untouched.  The key set
`K` of a provider-free render is therefore the interval of ids it generated. -/
theorem render_writes_only_under_its_own_ids (env : Env) (hlib : Djc.Proofs.Tree.GoodLib env) (fuel : Nat)
    (q : Djc.Proofs.TreeFail.Req) (hq : q.Good env) (w : World) (hw : Djc.Proofs.Tree.WInv w) :
    let w' := ((renderCompTag env fuel q.name q.kwargs q.only false q.body q.ctx).run.run w).2
    w.nextId ≤ w'.nextId ∧
    (∀ k, (k < w.nextId ∨ w'.nextId ≤ k) →
      alGet k w'.ctxCache = alGet k w.ctxCache ∧ alGet k w'.rendererCache = alGet k w.rendererCache ∧
      alGet k w'.childAttrs = alGet k w.childAttrs) ∧
    w'.provideCache = w.provideCache ∧ w'.provideRefs = w.provideRefs ∧ w'.allRefIds = w.allRefIds := by
  have hf := Djc.Proofs.TreeFail.frame_of_run env hlib fuel q hq w hw
  refine ⟨hf.next, ?_, hf.prov.1, hf.prov.2.1, hf.prov.2.2⟩
  intro k hk
  rcases hk with hk | hk
  · exact ⟨hf.cc k hk, hf.rc k hk, hf.ca k hk⟩
  · have hk0 : w.nextId ≤ k := Nat.le_trans hf.next hk
    exact ⟨by rw [hf.hcc k hk, hw.cc k hk0], by rw [hf.hrc k hk, hw.rc k hk0], by rw [hf.hca k hk, hw.ca k hk0]⟩

/-- non-vacuity: the three-level example page is a request of the fragment, the empty world is well-formed -/
example : (⟨"page".toList, [], false, [], Djc.Proofs.Tree.exCtx⟩ : Djc.Proofs.TreeFail.Req).Good (Djc.Proofs.Tree.exEnv false) ∧
    Djc.Proofs.Tree.WInv {} :=
  ⟨⟨by decide, by decide, by decide, by decide, by decide⟩, Djc.Proofs.Tree.empty_world_inv⟩

end Djc.Props.C07
