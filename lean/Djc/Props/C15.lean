/-
  C15 — Registries behave as dictionaries and keep the tag library consistent.
  Property theorems only (helper lemmas: `Djc/Proofs/Registry.lean`).

  Every theorem quantifies over all operation sequences `ops` (any length), all name / tag /
  class types with decidable equality, every tag formatter `fmt`, every initial library `lib0`
  and every list of protected tags (extracted: `Djc.Generated.protectedTags`).
-/
import Djc.Proofs.Registry
import Djc.Generated
namespace Djc.Props.C15
open Djc.AList Djc.Model.Registry Djc.Spec.Registry Djc.Proofs.Registry

variable {ν τ κ : Type} [DecidableEq ν] [DecidableEq τ] [DecidableEq κ]

/-- Contents (`all()`, in insertion order) and every returned value / raised error equal those of
a plain dictionary driven by the same calls; same-class re-registration is a no-op (it is one in
`dstep`). -/
theorem reg_refines_dict (lib0 : List (τ × Owner)) (prot : List τ) (fmt : ν → τ)
    (ops : List (Op ν κ)) :
    outs (init lib0 prot fmt : Reg ν τ κ) ops =
      douts (fun t => decide (t ∈ prot)) fmt [] ops ∧
    all (run (init lib0 prot fmt : Reg ν τ κ) ops) =
      drun (fun t => decide (t ∈ prot)) fmt [] ops := by
  suffices H : ∀ (r : Reg ν τ κ), Inv lib0 r → r.prot = prot → r.fmt = fmt →
      outs r ops = douts (fun t => decide (t ∈ prot)) fmt (all r) ops ∧
      all (run r ops) = drun (fun t => decide (t ∈ prot)) fmt (all r) ops by
    simpa [all, init] using H (init lib0 prot fmt) (inv_init lib0 prot fmt) rfl rfl
  induction ops with
  | nil => intro r _ _ _; simp [outs, douts, run, drun]
  | cons op ops ih =>
    intro r hi hp hf
    have hs := step_refines hi op
    rw [hp, hf] at hs
    have hst := step_static r op hi
    have := ih (step r op).1 (inv_step hi op) (hst.1.trans hp) (hst.2.trans hf)
    simp only [outs, douts, run, drun]
    rw [hs.1, this.1, this.2, hs.2]
    exact ⟨rfl, rfl⟩

/-- The internal `KeyError` (`self._tags[tag].remove(name)` on a missing entry) never happens:
every outcome is one of the documented ones. -/
theorem no_internal_error (lib0 : List (τ × Owner)) (prot : List τ) (fmt : ν → τ)
    (ops : List (Op ν κ)) :
    Out.keyError ∉ outs (init lib0 prot fmt : Reg ν τ κ) ops := by
  rw [(reg_refines_dict lib0 prot fmt ops).1]
  generalize ([] : List (ν × κ)) = d
  induction ops generalizing d with
  | nil => simp [douts]
  | cons op ops ih =>
    simp only [douts, List.mem_cons, not_or]
    refine ⟨?_, ih _⟩
    cases op with
    | register n c =>
      simp only [dstep]
      cases alookup n d with
      | none => simp only; split <;> simp
      | some c' => simp only; split <;> (try split) <;> simp
    | unregister n => simp only [dstep]; cases alookup n d <;> simp
    | get n => simp only [dstep]; cases alookup n d <;> simp
    | all => simp [dstep]
    | clear => simp [dstep]

/-- `_tags` is the inverse image of `_registry` in every reachable state: a tag is listed
exactly with the names of the registered components that use it, and never with an empty set. -/
theorem tags_consistent (lib0 : List (τ × Owner)) (prot : List τ) (fmt : ν → τ)
    (ops : List (Op ν κ)) (t : τ) :
    let r := run (init lib0 prot fmt : Reg ν τ κ) ops
    (alookup t r.tags = none → ∀ n, n ∈ akeys r.entries → r.fmt n ≠ t) ∧
    (∀ ns, alookup t r.tags = some ns →
        ns ≠ [] ∧ ∀ n, n ∈ ns ↔ (n ∈ akeys r.entries ∧ r.fmt n = t)) := by
  have hi := inv_run ops (inv_init lib0 prot fmt (κ := κ))
  exact ⟨hi.tagsNone t, hi.tagsSome t⟩

/-- A tag that was not in the library beforehand exists in the library exactly while at least
one registered component uses it. -/
theorem lib_tag_iff_used (lib0 : List (τ × Owner)) (prot : List τ) (fmt : ν → τ)
    (ops : List (Op ν κ)) (t : τ) (hnew : t ∉ akeys lib0) :
    t ∈ akeys (run (init lib0 prot fmt : Reg ν τ κ) ops).lib ↔
      Used (run (init lib0 prot fmt : Reg ν τ κ) ops) t :=
  (inv_run ops (inv_init lib0 prot fmt (κ := κ))).libC t hnew

/-- Protected tags are never overwritten or removed: the library maps each of them to the same
function as before, whatever is registered, unregistered or cleared. -/
theorem protected_untouched (lib0 : List (τ × Owner)) (prot : List τ) (fmt : ν → τ)
    (ops : List (Op ν κ)) (t : τ) (hp : t ∈ prot) :
    alookup t (run (init lib0 prot fmt : Reg ν τ κ) ops).lib = alookup t lib0 := by
  have hprot : ∀ (r : Reg ν τ κ), Inv lib0 r → (run r ops).prot = r.prot := by
    induction ops with
    | nil => intro r _; rfl
    | cons op ops ih =>
      intro r hr
      simp only [run]
      rw [ih (step r op).1 (inv_step hr op), (step_static r op hr).1]
  have h2 := hprot _ (inv_init lib0 prot fmt)
  apply (inv_run ops (inv_init lib0 prot fmt (κ := κ))).libP t
  rw [h2]; exact hp

/-- Instance for the shipped configuration: with the protected list the code declares today
(re-extracted on every run), none of the built-in tags can be displaced — in particular `slot`
and `fill`, under any formatter. -/
theorem shipped_protected_untouched (lib0 : List (String × Owner)) (fmt : String → String)
    (ops : List (Op String Nat)) (t : String) (hp : t ∈ Djc.Generated.protectedTags) :
    alookup t (run (init lib0 Djc.Generated.protectedTags fmt : Reg String String Nat) ops).lib
      = alookup t lib0 :=
  protected_untouched lib0 _ fmt ops t hp

/-- The built-in tags the documentation promises to protect are in the extracted list. -/
theorem shipped_list_covers_builtins :
    ∀ t ∈ ["slot", "fill", "provide", "html_attrs", "component_css_dependencies",
           "component_js_dependencies"], t ∈ Djc.Generated.protectedTags := by
  decide

/-- Registries with private libraries do not interact: a step on registry `i` leaves every other
registry of the world untouched. -/
theorem world_step_local {ι : Type} [DecidableEq ι] (w : ι → Reg ν τ κ) (i j : ι) (op : Op ν κ)
    (h : j ≠ i) :
    (fun k => if k = i then (step (w i) op).1 else w k) j = w j := by
  simp [h]

/-! ### non-vacuity -/

example :
    let fmt : String → String := id
    let ops : List (Op String Nat) :=
      [.register "a" 1, .register "b" 2, .register "slot" 3, .unregister "a", .register "b" 9, .all]
    outs (init [("slot", Owner.builtin 0)] ["slot"] fmt : Reg String String Nat) ops =
      [.ok, .ok, .tagProtected, .ok, .alreadyRegistered, .all [("b", 2)]] ∧
    akeys (run (init [("slot", Owner.builtin 0)] ["slot"] fmt : Reg String String Nat) ops).lib
      = ["slot", "b"] := by
  decide

end Djc.Props.C15
