/-
  C19 — every script URL a render emits is served with that component's code.
  Property theorems only (helper lemmas: `Djc/Proofs/Serve.lean`).
  Histories are arbitrary lists of define / render / clear operations (any length).
-/
import Djc.Proofs.Serve
namespace Djc.Props.C19
open Djc.AList Djc.Model.Serve Djc.Proofs.Serve

/-- The URL built by `reverse()` resolves back to exactly the (hash, input hash, kind) it was
built from — for plain components (non-empty, without `.`, `/`, `:`), which is what class hashes
of identifier-named classes, 6-digit input hashes and the kinds `js` / `css` are. -/
theorem url_roundtrip (h k : Str) (hh : Plain h) (hk : Plain k) :
    resolve (mkUrl h none k) = some (h, none, k) ∧
    ∀ i, Plain i → resolve (mkUrl h (some i) k) = some (h, some i, k) :=
  resolve_mkUrl h k hh hk

/-- Cache keys of different (class, kind, input) triples are different strings. -/
theorem genKey_injective (h1 h2 k1 k2 : Str) (i1 i2 : Option Str)
    (hh1 : ':' ∉ h1) (hh2 : ':' ∉ h2) (hk1 : KindOK k1) (hk2 : KindOK k2)
    (hi1 : InpOK i1) (hi2 : InpOK i2) (e : genKey h1 k1 i1 = genKey h2 k2 i2) :
    h1 = h2 ∧ k1 = k2 ∧ i1 = i2 :=
  genKey_inj h1 h2 k1 k2 i1 i2 hh1 hh2 hk1 hk2 hi1 hi2 e

/-- The invariant "every cache entry belongs to a registered class and holds that class's script"
survives defining a class under a fresh hash, rendering, and clearing the cache. -/
theorem consistent_preserved (s : State) (hi : Inv s) :
    (∀ h c, Plain h → h ∉ akeys s.classes → Inv (step s (.define h c))) ∧
    (∀ h ji ci, InpOK ji → InpOK ci → Inv (step s (.render h ji ci))) ∧
    Inv (step s .clearCache) := by
  refine ⟨?_, ?_, inv_clear hi⟩
  · intro h c hp hf; exact inv_define hi h c hp hf
  · intro h ji ci hji hci
    simp only [step, render]
    cases hc : alookup h s.classes with
    | none => exact hi
    | some c =>
      simp only
      have h1 := inv_cacheScript hi h c jsK hc (Or.inl rfl)
      have c1 : alookup h (cacheScript s h c jsK).classes = some c := by
        rw [cacheScript_classes]; exact hc
      have h2 := inv_cacheVars h1 h c jsK ji c1 (Or.inl rfl) hji
      have c2 : alookup h (cacheVars (cacheScript s h c jsK) h c jsK ji).classes = some c := by
        rw [cacheVars_classes]; exact c1
      have h3 := inv_cacheScript h2 h c cssK c2 (Or.inr rfl)
      have c3 : alookup h (cacheScript (cacheVars (cacheScript s h c jsK) h c jsK ji) h c cssK).classes
          = some c := by rw [cacheScript_classes]; exact c2
      exact inv_cacheVars h3 h c cssK ci c3 (Or.inr rfl) hci

/-- A history in which every `define` uses a fresh, plain hash and every input hash is well
formed (the complement is the known finding "class re-defined under the same import path"). -/
def FreshHistory : State → List Op → Prop
  | _, [] => True
  | s, .define h c :: ops => Plain h ∧ h ∉ akeys s.classes ∧ FreshHistory (step s (.define h c)) ops
  | s, .render h ji ci :: ops => InpOK ji ∧ InpOK ci ∧ FreshHistory (step s (.render h ji ci)) ops
  | s, .clearCache :: ops => FreshHistory (step s .clearCache) ops

theorem inv_run (ops : List Op) :
    ∀ s : State, Proofs.Serve.Inv s → FreshHistory s ops → Proofs.Serve.Inv (run s ops) := by
  induction ops with
  | nil => intro s hi _; exact hi
  | cons op ops ih =>
    intro s hi hf
    have hp := consistent_preserved s hi
    cases op with
    | define h c => exact ih _ (hp.1 h c hf.1 hf.2.1) hf.2.2
    | render h ji ci => exact ih _ (hp.2.1 h ji ci hf.1 hf.2.1) hf.2.2
    | clearCache => exact ih _ hp.2.2 hf

/-- In a consistent state, a render makes every URL it announces answer `200` with exactly that
class's stripped JS / CSS (an empty body for the variables files) and the matching content type. -/
theorem render_then_served (s : State) (hi : Inv s) (h : Str) (c : Cls) (ji ci : Option Str)
    (hc : alookup h s.classes = some c) (hji : InpOK ji) (hci : InpOK ci) :
    let s' := (render s h ji ci).1
    (nonemptyStr c.js = true →
      (∃ src, c.js = some src ∧ serve s' (mkUrl h none jsK) true = .ok (strip src) "text/javascript".toList) ∧
      (∀ i, ji = some i → '.' ∉ i → '/' ∉ i →
        serve s' (mkUrl h (some i) jsK) true = .ok [] "text/javascript".toList)) ∧
    (nonemptyStr c.css = true →
      (∃ src, c.css = some src ∧ serve s' (mkUrl h none cssK) true = .ok (strip src) "text/css".toList) ∧
      (∀ i, ci = some i → '.' ∉ i → '/' ∉ i →
        serve s' (mkUrl h (some i) cssK) true = .ok [] "text/css".toList)) := by
  intro s'
  have hplain : Plain h := hi.1 h (mem_akeys_of_alookup hc)
  have hinv' : Inv s' := by
    have := (consistent_preserved s hi).2.1 h ji ci hji hci
    simpa [step] using this
  have hcls' : alookup h s'.classes = some c := by
    show alookup h (render s h ji ci).1.classes = some c
    simp only [render, hc, cacheVars_classes, cacheScript_classes]
  have jsPlain : Plain jsK := by refine ⟨by decide, by decide, by decide, by decide⟩
  have cssPlain : Plain cssK := by refine ⟨by decide, by decide, by decide, by decide⟩
  -- generic: if the key is present in s', the request is answered with bodyOf
  have answer : ∀ (kind : Str) (inp : Option Str) (ct : Str), KindOK kind → InpOK inp →
      alookup kind contentTypes = some ct →
      resolve (mkUrl h inp kind) = some (h, inp, kind) →
      (alookup (genKey h kind inp) s'.cache).isSome = true →
      ∃ body, bodyOf c kind inp = some body ∧ serve s' (mkUrl h inp kind) true = .ok body ct := by
    intro kind inp ct hk hin hct hres hsome
    obtain ⟨body, hb⟩ := Option.isSome_iff_exists.mp hsome
    obtain ⟨h0, c0, kind0, inp0, a1, a2, a3, a4, a5⟩ := hinv'.2 _ body hb
    have hp0 : Plain h0 := hinv'.1 h0 (mem_akeys_of_alookup a1)
    have := genKey_inj h h0 kind kind0 inp inp0 hplain.2.2.2 hp0.2.2.2 hk a2 hin a3 a4
    obtain ⟨rfl, rfl, rfl⟩ := this
    rw [hcls'] at a1; cases a1
    refine ⟨body, a5, ?_⟩
    have hhas : ahas kind contentTypes = true := by simp [ahas, hct]
    simp [serve, hres, hhas, hcls', hb, hct]
  have ctjs : alookup jsK contentTypes = some "text/javascript".toList := by decide
  have ctcss : alookup cssK contentTypes = some "text/css".toList := by decide
  have rt_js := resolve_mkUrl h jsK hplain jsPlain
  have rt_css := resolve_mkUrl h cssK hplain cssPlain
  constructor
  · intro hne
    have hscript : script c jsK = c.js := by simp [script]
    have hne' : nonemptyStr (script c jsK) = true := by rw [hscript]; exact hne
    -- the main script entry is present after the first caching step and survives the other three
    have p1 := cacheScript_present s h c jsK hne'
    have keep1 : (alookup (genKey h jsK none) s'.cache).isSome = true := by
      obtain ⟨b, hb⟩ := Option.isSome_iff_exists.mp p1
      have := cacheVars_keeps h c cssK ci (cacheScript_keeps h c cssK (cacheVars_keeps h c jsK ji hb))
      show (alookup (genKey h jsK none) (render s h ji ci).1.cache).isSome = true
      simp only [render, hc, this, Option.isSome_some]
    constructor
    · obtain ⟨body, hb1, hb2⟩ := answer jsK none _ (Or.inl rfl) trivial ctjs rt_js.1 keep1
      cases hjs : c.js with
      | none => rw [hjs] at hne; simp [nonemptyStr] at hne
      | some src =>
        refine ⟨src, rfl, ?_⟩
        simp only [bodyOf, hscript, hjs, Option.map_some] at hb1
        cases hb1; exact hb2
    · intro i hi_eq hd hs
      subst hi_eq
      have hiP : Plain i := ⟨hji.1, hd, hs, hji.2⟩
      have p2 := cacheVars_present (cacheScript s h c jsK) h c jsK i hne'
      have keep2 : (alookup (genKey h jsK (some i)) s'.cache).isSome = true := by
        obtain ⟨b, hb⟩ := Option.isSome_iff_exists.mp p2
        have := cacheVars_keeps h c cssK ci (cacheScript_keeps h c cssK hb)
        show (alookup (genKey h jsK (some i)) (render s h (some i) ci).1.cache).isSome = true
        simp only [render, hc, this, Option.isSome_some]
      obtain ⟨body, hb1, hb2⟩ := answer jsK (some i) _ (Or.inl rfl) hji ctjs (rt_js.2 i hiP) keep2
      simp only [bodyOf] at hb1
      cases hb1; exact hb2
  · intro hne
    have hscript : script c cssK = c.css := by
      have : cssK ≠ jsK := by decide
      simp [script, this]
    have hne' : nonemptyStr (script c cssK) = true := by rw [hscript]; exact hne
    have p1 := cacheScript_present (cacheVars (cacheScript s h c jsK) h c jsK ji) h c cssK hne'
    have keep1 : (alookup (genKey h cssK none) s'.cache).isSome = true := by
      obtain ⟨b, hb⟩ := Option.isSome_iff_exists.mp p1
      have := cacheVars_keeps h c cssK ci hb
      show (alookup (genKey h cssK none) (render s h ji ci).1.cache).isSome = true
      simp only [render, hc, this, Option.isSome_some]
    constructor
    · obtain ⟨body, hb1, hb2⟩ := answer cssK none _ (Or.inr rfl) trivial ctcss rt_css.1 keep1
      cases hcss : c.css with
      | none => rw [hcss] at hne; simp [nonemptyStr] at hne
      | some src =>
        refine ⟨src, rfl, ?_⟩
        simp only [bodyOf, hscript, hcss, Option.map_some] at hb1
        cases hb1; exact hb2
    · intro i hi_eq hd hs
      subst hi_eq
      have hiP : Plain i := ⟨hci.1, hd, hs, hci.2⟩
      have p2 := cacheVars_present (cacheScript (cacheVars (cacheScript s h c jsK) h c jsK ji) h c cssK)
        h c cssK i hne'
      have keep2 : (alookup (genKey h cssK (some i)) s'.cache).isSome = true := by
        obtain ⟨b, hb⟩ := Option.isSome_iff_exists.mp p2
        show (alookup (genKey h cssK (some i)) (render s h ji (some i)).1.cache).isSome = true
        simp only [render, hc, hb, Option.isSome_some]
      obtain ⟨body, hb1, hb2⟩ := answer cssK (some i) _ (Or.inr rfl) hci ctcss (rt_css.2 i hiP) keep2
      simp only [bodyOf] at hb1
      cases hb1; exact hb2

/-- **Whatever renders and cache clears preceded it**: after any fresh history, the state is
consistent, hence (`render_then_served`) the next render's URLs are all served correctly. -/
theorem emitted_url_served (ops : List Op) (hf : FreshHistory { classes := [], cache := [] } ops) :
    Inv (run { classes := [], cache := [] } ops) :=
  inv_run ops _ inv_init hf

/-! ### a page: several components rendered before the browser fetches anything -/

/-- guarded insertion (`if not cache.has_key(key): cache.set(key, …)`) never changes what a key already held -/
theorem guarded_set_keeps (cache : List (Str × Str)) (k k' : Str) (v v' : Str) (h : alookup k cache = some v) :
    alookup k (if !(ahas k' cache) then aset k' v' cache else cache) = some v := by
  by_cases hk : k = k'
  · subst hk
    have : ahas k cache = true := by simp [ahas, h]
    simp [this, h]
  · split
    · rw [alookup_aset_ne v' cache hk]; exact h
    · exact h

theorem cacheScript_keeps (s : State) (h : Str) (c : Cls) (kind k v : Str) (hk : alookup k s.cache = some v) :
    alookup k (cacheScript s h c kind).cache = some v ∧ (cacheScript s h c kind).classes = s.classes := by
  unfold cacheScript
  cases script c kind with
  | none => exact ⟨hk, rfl⟩
  | some src =>
    simp only
    by_cases hne : nonemptyStr (some src) = true
    · by_cases hh : ahas (genKey h kind none) s.cache = true
      · simp [hne, hh, hk]
      · have hh' : ahas (genKey h kind none) s.cache = false := by simpa using hh
        simp only [hne, hh', Bool.not_false, Bool.and_self, ↓reduceIte]
        refine ⟨?_, trivial⟩
        have := guarded_set_keeps s.cache k (genKey h kind none) v (strip src) hk
        simpa [hh'] using this
    · have hne' : nonemptyStr (some src) = false := by simpa using hne
      simp [hne', hk]

theorem cacheVars_keeps (s : State) (h : Str) (c : Cls) (kind : Str) (input : Option Str) (k v : Str)
    (hk : alookup k s.cache = some v) :
    alookup k (cacheVars s h c kind input).cache = some v ∧ (cacheVars s h c kind input).classes = s.classes := by
  unfold cacheVars
  cases input with
  | none => exact ⟨hk, rfl⟩
  | some i =>
    simp only
    by_cases hne : nonemptyStr (script c kind) = true
    · by_cases hh : ahas (genKey h kind (some i)) s.cache = true
      · simp [hne, hh, hk]
      · have hh' : ahas (genKey h kind (some i)) s.cache = false := by simpa using hh
        simp only [hne, hh', Bool.not_false, Bool.and_self, ↓reduceIte]
        refine ⟨?_, trivial⟩
        have := guarded_set_keeps s.cache k (genKey h kind (some i)) v [] hk
        simpa [hh'] using this
    · have hne' : nonemptyStr (script c kind) = false := by simpa using hne
      simp [hne', hk]

/-- a render never changes an entry the cache already holds, nor the class table -/
theorem render_keeps (s : State) (h : Str) (ji ci : Option Str) (k v : Str) (hk : alookup k s.cache = some v) :
    alookup k (render s h ji ci).1.cache = some v ∧ (render s h ji ci).1.classes = s.classes := by
  unfold render
  cases alookup h s.classes with
  | none => exact ⟨hk, rfl⟩
  | some c =>
    simp only
    obtain ⟨a1, b1⟩ := cacheScript_keeps s h c jsK k v hk
    obtain ⟨a2, b2⟩ := cacheVars_keeps _ h c jsK ji k v a1
    obtain ⟨a3, b3⟩ := cacheScript_keeps _ h c cssK k v a2
    obtain ⟨a4, b4⟩ := cacheVars_keeps _ h c cssK ci k v a3
    exact ⟨a4, by rw [b4, b3, b2, b1]⟩

/-- **A URL that is served stays served through every later render** (the model's cache only grows between clears —
true of the code since `/repo` 22db8d7; before it the built-in cache culled a third of its entries at 300, and this
statement failed on the code: `findings/C19-media-cache-cull.json`, stream `many-entries`). -/
theorem served_stays_served (s : State) (path : Str) (body ct : Str) (h : Str) (ji ci : Option Str)
    (hs : serve s path true = .ok body ct) : serve (render s h ji ci).1 path true = .ok body ct := by
  unfold serve at hs ⊢
  cases hr : resolve path with
  | none => simp [hr] at hs
  | some r =>
    obtain ⟨h0, input, kind⟩ := r
    simp only [hr] at hs ⊢
    by_cases hct : ahas kind contentTypes = true
    · simp only [hct, Bool.not_true, Bool.false_eq_true, ↓reduceIte] at hs ⊢
      cases hc : alookup h0 s.classes with
      | none => simp [hc] at hs
      | some c0 =>
        simp only [hc] at hs
        cases hk : alookup (genKey h0 kind input) s.cache with
        | none => simp [hk] at hs
        | some b0 =>
          obtain ⟨a, b⟩ := render_keeps s h ji ci _ _ hk
          simp only [hk] at hs
          rw [b, hc]
          simp only [a]
          exact hs
    · have : ahas kind contentTypes = false := by simpa using hct
      simp [this] at hs

/-- **Every URL emitted while a page is rendered is served when the page is done**: the first component's URLs answer
as they did right after its own render, however many further components the same page (or later pages) render. -/
theorem page_urls_served (s : State) (path body ct : Str) (hs : serve s path true = .ok body ct) :
    ∀ (rest : List (Str × Option Str × Option Str)),
      serve (rest.foldl (fun st r => (render st r.1 r.2.1 r.2.2).1) s) path true = .ok body ct
  | [] => hs
  | r :: rest => page_urls_served _ path body ct (served_stays_served s path body ct r.1 r.2.1 r.2.2 hs) rest

/-- instance (kernel-evaluated): component `A_1` rendered, then `B_2` on the same page — `A_1`'s script URL answers -/
example :
    let s0 : State := { classes := [("A_1".toList, { js := some "a();".toList, css := none }),
                                    ("B_2".toList, { js := some "b();".toList, css := some ".b{}".toList })], cache := [] }
    let s1 := (render s0 "A_1".toList none none).1
    serve s1 (mkUrl "A_1".toList none jsK) true = .ok "a();".toList "text/javascript".toList ∧
    serve (render s1 "B_2".toList none (some "abc".toList)).1 (mkUrl "A_1".toList none jsK) true =
      .ok "a();".toList "text/javascript".toList := by decide +kernel

/-- The endpoint never fails with a server error, for any state, path and method. -/
theorem endpoint_total (s : State) (path : Str) (isGet : Bool) : serve s path isGet ≠ .serverError := by
  unfold serve
  cases resolve path with
  | none => simp
  | some r =>
    obtain ⟨h, input, kind⟩ := r
    simp only
    split
    · simp
    · split
      · simp
      · rename_i hk
        cases alookup h s.classes with
        | none => simp
        | some c =>
          simp only
          cases alookup (genKey h kind input) s.cache with
          | none => simp
          | some body =>
            simp only
            cases hct : alookup kind contentTypes with
            | some ct => simp
            | none => simp [ahas, hct] at hk

/-- Unknown hashes and unknown kinds give 404, non-GET methods 405. -/
theorem unknown_gives_404 (s : State) (path h kind : Str) (input : Option Str)
    (hres : resolve path = some (h, input, kind)) :
    serve s path false = .notAllowed ∧
    (alookup h s.classes = none → serve s path true = .notFound) ∧
    (ahas kind contentTypes = false → serve s path true = .notFound) := by
  refine ⟨by simp [serve, hres], ?_, ?_⟩
  · intro hc
    by_cases hk : ahas kind contentTypes = true <;> simp [serve, hres, hk, hc]
  · intro hk; simp [serve, hres, hk]

/-! ### non-vacuity; the known finding as a computed fact -/

example : FreshHistory { classes := [], cache := [] }
    [.define "A_1".toList { js := some " x ".toList, css := none }, .render "A_1".toList none none,
     .clearCache, .render "A_1".toList (some "42b7b4".toList) none] := by
  refine ⟨⟨by decide, by decide, by decide, by decide⟩, by decide, trivial, trivial,
    ⟨by decide, by decide⟩, trivial, trivial⟩

/-- re-defining a class under the same hash serves the *earlier* class's code -/
example :
    let ops := [Op.define "S_1".toList { js := some "ONE".toList, css := none }, .render "S_1".toList none none,
                .define "S_1".toList { js := some "TWO".toList, css := none }, .render "S_1".toList none none]
    serve (run { classes := [], cache := [] } ops) (mkUrl "S_1".toList none jsK) true
      = .ok "ONE".toList "text/javascript".toList := by
  decide

end Djc.Props.C19
