/-
  C06 — a finished or failed render leaves nothing behind.  Property theorems only.
  Bookkeeping level: the provide registries (`perfutil/provide.py`), all worlds, all ids.
  The whole-pipeline statement `C06_full` is open and false on the unchanged tree
  (`known_findings.json`: registry entries and a render_context layer survive a failing render).
-/
import Djc.Proofs.Render
import Djc.Proofs.Plain
import Djc.Proofs.Calm
import Djc.Proofs.Leaf
import Djc.Proofs.Tree
import Djc.Proofs.TreeFail
namespace Djc.Props.C06
open Djc.Tpl Djc.Render Djc.Proofs.Render

/-- **Unregistering an id that never registered changes nothing** (every component calls it when it
finishes, whether or not it was rendered under a provider). -/
theorem unregister_unknown_is_noop (rid : Nat) (w : World) (h : w.allRefIds.contains rid = false) :
    unregisterRefW rid w = (none, w) := by
  unfold unregisterRefW
  rw [if_pos (by rw [h]; rfl)]

/-- **A provider without components leaves nothing behind**: entering `{% provide %}` with a fresh
id and leaving it again (success path) restores both registries exactly, in any world. -/
theorem empty_provider_leaves_nothing (pid : Nat) (payload : Layer) (w : World)
    (h1 : alGet pid w.provideCache = none) (h2 : alGet pid w.provideRefs = none) :
    cacheCleanupW pid (holdSelfW pid { w with provideCache := alSet pid payload w.provideCache }) = (none, w) := by
  unfold cacheCleanupW holdSelfW
  simp only [h2, Option.getD_none, List.contains_nil, List.nil_append, alGet_alSet_same]
  simp only [Bool.false_eq_true, if_false, alGet_alSet_same]
  have hf : ([pid].filter (· ≠ pid)) = [] := by simp
  simp only [hf, List.isEmpty_nil, if_true]
  unfold popProvideCacheW
  simp only [alHas, alGet_alSet_same, Option.isSome_some, if_true]
  have e1 : alDel pid (alSet pid ([] : List Nat) (alSet pid [pid] w.provideRefs)) = w.provideRefs := by
    have : alSet pid ([] : List Nat) (alSet pid [pid] w.provideRefs) = alSet pid [] w.provideRefs := by
      generalize w.provideRefs = l at h2
      induction l with
      | nil => simp [alSet]
      | cons a rest ih =>
        obtain ⟨ak, av⟩ := a
        by_cases hk : ak = pid
        · simp [alGet, hk] at h2
        · simp only [alGet, hk, if_false] at h2
          simp [alSet, hk, ih h2]
    rw [this, alDel_alSet_fresh _ _ _ h2]
  have e2 : alDel pid (alSet pid payload w.provideCache) = w.provideCache := alDel_alSet_fresh _ _ _ h1
  simp [e1, e2]

example :
    let r := cacheCleanupW 7 (holdSelfW 7 { ({} : World) with provideCache := alSet 7 [] [] })
    r.1 = none ∧ r.2.provideCache.length = 0 ∧ r.2.provideRefs.length = 0 := by
  decide

/-! ### faults -/

/-- **Fault injection means what it says**: the `i`-th user callback of a render raises the chosen
class and no other callback does; either way the callback is recorded, so the positions of later
callbacks do not shift (shown for the hooks; `get_context_data` additionally counts instances). -/
theorem fault_at_index_only (env : Env) (w : World) (id i c : Nat) (h : env.raiseAt = some (i, c)) :
    (tick env (.before id)).run.run w =
      (if w.events.length = i then .error (.user c) else .ok (), { w with events := w.events ++ [.before id] }) := by
  unfold tick
  simp only [h]
  by_cases hi : w.events.length = i <;>
    simp [hi, bind, ExceptT.bind, ExceptT.mk, ExceptT.bindCont, ExceptT.run, StateT.bind, StateT.run, get, getThe,
      MonadStateOf.get, StateT.get, liftM, monadLift, MonadLift.monadLift, ExceptT.lift, StateT.map, set, StateT.set,
      pure, ExceptT.pure, StateT.pure, throw, throwThe, MonadExceptOf.throw, Functor.map, StateT.lift] <;> rfl

theorem no_fault_without_request (env : Env) (w : World) (id : Nat) (h : env.raiseAt = none) :
    (tick env (.after id)).run.run w = (.ok (), { w with events := w.events ++ [.after id] }) := by
  unfold tick
  simp only [h]
  simp [bind, ExceptT.bind, ExceptT.mk, ExceptT.bindCont, ExceptT.run, StateT.bind, StateT.run, get, getThe,
    MonadStateOf.get, StateT.get, liftM, monadLift, MonadLift.monadLift, ExceptT.lift, StateT.map, set, StateT.set,
    pure, ExceptT.pure, StateT.pure, Functor.map, StateT.lift] <;> rfl

/-- **A bookkeeping step that raises keeps the world it reached**: the registries after a failure are
the ones at the raise point (this is what makes "what is left behind" observable in the model). -/
theorem bookkeeping_error_keeps_world (f : WStep) (w : World) :
    (liftW f).run.run w = ((match (f w).1 with | some e => .error e | none => .ok ()), (f w).2) := by
  unfold liftW
  cases hf : (f w).1 <;>
    simp [hf, bind, ExceptT.bind, ExceptT.mk, ExceptT.bindCont, ExceptT.run, StateT.bind, StateT.run, get, getThe,
      MonadStateOf.get, StateT.get, liftM, monadLift, MonadLift.monadLift, ExceptT.lift, StateT.map, set, StateT.set,
      pure, ExceptT.pure, StateT.pure, throw, throwThe, MonadExceptOf.throw, Functor.map, StateT.lift] <;> rfl

/-- **The part of `C06_full` that is proved: templates without library tags touch no registry.**  Whatever a page
built from text, `{{ }}`, `{% if %}`, `{% for %}`, `{% with %}` and elements does — finish, run out of fuel, or stop
at the work budget — in any world, every registry of the world (component contexts, renderers, child attributes,
provide cache and references, the render-context depth, the recorded events) is afterwards what it was; only the
step counter moved.  So whatever a render leaves behind is left by a component, slot, fill or provide node. -/
theorem C06_full_partial_plain_nodes_touch_no_registry (env : Env) (fuel : Nat) (page : List Node) (ctx : Ctx) (w : World)
    (hp : Djc.Proofs.Plain.plainL page = true) (hc : Djc.Proofs.Plain.ctxFree ctx = true) :
    ∃ st, ((renderNodes env fuel page ctx).run.run w).2 = { w with steps := st } := by
  rw [(Djc.Proofs.Plain.model_plain env fuel).1 page ctx w hp hc]
  exact ⟨_, rfl⟩

/-- **Providers leave nothing behind, at any nesting, on every path** (the part of `C06_full` with `{% provide %}`
that is proved).  A page built from `{% provide %}` blocks around text, `{{ }}`, `{% if %}`, `{% for %}`, `{% with %}`
and elements — providers nested to any depth, inside loops, any number of them — rendered in any world whose unused
ids have no registry entry: whether the render finishes, runs out of fuel in the middle of a provider body or stops
at the work budget (the `except` branch of `managed_provide_cache` runs for every open provider), the world
afterwards is the world before except for the two counters.  `provide_cache`, `provide_references`,
`all_reference_ids` and everything else are exactly as before. -/
theorem C06_full_partial_providers_leave_nothing (env : Env) (fuel : Nat) (page : List Node) (ctx : Ctx) (w : World)
    (hp : Djc.Proofs.Calm.calmL page = true) (ho : Djc.Proofs.Calm.okNamesL page = true)
    (hc : Djc.Proofs.Plain.ctxFree ctx = true) (hf : Djc.Proofs.Calm.Fresh w) :
    ∃ st k, ((renderNodes env fuel page ctx).run.run w).2 = { w with steps := st, nextId := w.nextId + k } := by
  obtain ⟨k, h⟩ := (Djc.Proofs.Calm.model_calm env fuel).1 page ctx ctx w hp ho hc (Djc.Proofs.Calm.sameVars_refl ctx) hf
  rw [h]
  exact ⟨_, k, rfl⟩

/-- the hypotheses are satisfiable: the empty world is fresh; a provider nested in a provider in a loop is in the
fragment -/
example : Djc.Proofs.Calm.Fresh {} := fun _ _ => ⟨rfl, rfl⟩
example : Djc.Proofs.Calm.calmL [.forn "x".toList (.var ["xs".toList])
    [.provide "k".toList [] [.provide "k".toList [] [.out (.var ["x".toList])]]]] = true := by decide

/-- **A finished component render leaves nothing behind — across the whole deferred pipeline.**  A component tag with
an empty body where no component encloses it, template in the plain fragment, data from the call: `ComponentNode.render`,
`_render_impl` (id, `component_context_cache` entry, `get_context_data`, snapshot, `component_renderer_cache` entry),
`component_post_render` (the renderer runs, attributes and placeholders are processed, `on_component_rendered`
deletes the context entry and unregisters the provide reference).  For every world without live providers whose next id
is unused: afterwards `component_context_cache`, `component_renderer_cache`, `child_component_attrs`, the provide
registries, the captured fills and the caller's render-context depth are exactly what they were.  (The failing paths are
the listed finding `error-leaves-registry-entries`.) -/
theorem C06_full_partial_leaf_component_leaves_nothing (env : Env) (i : Nat) (name : Str) (kwargs : List (Str × Expr))
    (only dyn : Bool) (ctx ctx' : Ctx) (w : World) (d : CompDef) (toks : List Tok) (st : Nat)
    (hctx' : ctx' = if only || env.isolated then isolatedCopy ctx else ctx)
    (hr : env.raiseAt = none) (hd : findDef env name = some d) (hdyn : isDynName name = false)
    (hp : Djc.Proofs.Plain.plainL d.template = true) (hsrc : d.data.all (fun kv => Djc.Proofs.Leaf.pureSrc kv.2) = true)
    (hsteps : ¬ w.steps ≥ env.maxSteps) (hgcd : w.gcds < env.maxInst) (hext : isExtracting ctx = false)
    (hpar : ∀ p, ctxGet ctx' compKey ≠ some (.compRef p)) (hprov : w.provideCache = [])
    (hf1 : alGet w.nextId w.ctxCache = none) (hf2 : alGet w.nextId w.rendererCache = none)
    (hf3 : alGet w.nextId w.childAttrs = none) (hf4 : w.allRefIds.contains w.nextId = false)
    (hc : Djc.Proofs.Plain.ctxFree (Djc.Proofs.Leaf.leafCtx ctx' w.nextId (evalKwargs ctx kwargs) d) = true)
    (hok : Djc.Proofs.Plain.pNodes env.maxSteps (i + 1) d.template
      (Djc.Proofs.Leaf.leafCtx ctx' w.nextId (evalKwargs ctx kwargs) d) (w.steps + 1) = (.ok toks, st)) :
    let w' := ((renderNode env (i + 6) (.comp name kwargs only dyn []) ctx).run.run w).2
    w'.ctxCache = w.ctxCache ∧ w'.rendererCache = w.rendererCache ∧ w'.childAttrs = w.childAttrs ∧
      w'.provideCache = w.provideCache ∧ w'.provideRefs = w.provideRefs ∧ w'.allRefIds = w.allRefIds ∧
      w'.cap = w.cap ∧ w'.rcLeak = w.rcLeak := by
  rw [Djc.Proofs.Leaf.leaf_component env i name kwargs only dyn ctx ctx' w d toks st hctx' hr hd hdyn hp hsrc hsteps hgcd hext
    hpar hprov hf1 hf2 hf3 hf4 hc hok]
  exact ⟨rfl, rfl, rfl, rfl, rfl, rfl, rfl, rfl⟩

/-- **Trees of components leave nothing behind — any depth, any width.**  `{% component name … %}{% endcomponent %}` where
no component encloses the tag, over *any* library whose templates are built from text, `{{ }}`, if / for / with, elements,
slots (not flagged `default`) and component tags whose bodies are empty, hold `{% fill "name" %}` tags or are implicit default content (`GoodLib`: components nest through their templates, repeat in loops, may recurse)
with data from the call.  `ComponentNode.render` → `_render_impl` → the `while` loop of `component_post_render` over
however many queued renderers the tree unfolds: when the render returns, `component_context_cache`,
`component_renderer_cache` and `child_component_attrs` hold exactly the entries they held before (no entry of this
render, every earlier entry untouched), and the provide registries and the fill-capture list are unchanged.  For every
fuel, context without slot references and world in which ids not yet generated are unused (`WInv`); with or without
fault injection (a run in which a callback raised does not return).  Proved with an invariant over the whole queue
(`Djc.Proofs.Tree.LInv`), by mutual induction over the seven functions of the pipeline. -/
theorem C06_full_partial_component_trees_leave_nothing (env : Env) (hlib : Djc.Proofs.Tree.GoodLib env) (fuel : Nat)
    (name : Str) (kwargs : List (Str × Expr)) (only dyn : Bool) (body : List Node) (ctx : Ctx) (w w' : World) (toks : List Tok)
    (hd : isDynName name = false) (hb : Djc.Proofs.Tree.gbody body = true) (hc : Djc.Proofs.Plain.ctxFree ctx = true)
    (hw : Djc.Proofs.Tree.WInv w)
    (hext : isExtracting ctx = false)
    (hpar : Djc.Proofs.Tree.parentOf (if only || env.isolated then isolatedCopy ctx else ctx) = none)
    (h : (renderCompTag env fuel name kwargs only dyn body ctx).run.run w = (.ok toks, w')) :
    (∀ k, alGet k w'.ctxCache = alGet k w.ctxCache) ∧ (∀ k, alGet k w'.rendererCache = alGet k w.rendererCache) ∧
      (∀ k, alGet k w'.childAttrs = alGet k w.childAttrs) ∧ w'.provideCache = w.provideCache ∧
      w'.provideRefs = w.provideRefs ∧ w'.allRefIds = w.allRefIds ∧ w'.cap = w.cap := by
  obtain ⟨hb, _⟩ := Djc.Proofs.Tree.tree_root_tag env hlib fuel name kwargs only dyn body ctx w w' toks hd hb hc hw hext hpar h
  exact ⟨fun k => hb.cc k (by simp), fun k => hb.rc k (by simp), hb.ca, hb.prov.1, hb.prov.2.1, hb.prov.2.2.1, hb.prov.2.2.2⟩

/-- the hypotheses are met, and the run returns: a three-level library (page > list > leaf in a loop, and a leaf beside
it), both `context_behavior` settings, the empty world; the run (five instances) is evaluated by the kernel and leaves
every registry empty -/
example : ∀ isolated, Djc.Proofs.Tree.GoodLib (Djc.Proofs.Tree.exEnv isolated) := Djc.Proofs.Tree.exEnv_good
example : Djc.Proofs.Tree.WInv ({} : World) ∧ Djc.Proofs.Plain.ctxFree Djc.Proofs.Tree.exCtx = true ∧
    isExtracting Djc.Proofs.Tree.exCtx = false ∧ Djc.Proofs.Tree.parentOf Djc.Proofs.Tree.exCtx = none ∧
    Djc.Proofs.Tree.parentOf (isolatedCopy Djc.Proofs.Tree.exCtx) = none ∧
    Djc.Proofs.Tree.exSummary false = true ∧ Djc.Proofs.Tree.exSummary true = true :=
  ⟨Djc.Proofs.Tree.empty_world_inv, by decide +kernel, by decide +kernel, by decide +kernel, by decide +kernel,
    by decide +kernel, by decide +kernel⟩

/-- **A failing render of a tree of components disturbs nothing that was there before** (`Djc/Proofs/TreeFail.lean`).
Same fragment and hypotheses as above; the render *raises* — a callback with fault injection anywhere in the tree
(`get_context_data`, `on_render_before`, `on_render_after` of any instance, at any depth, at any index), `NotRegistered`,
the instance or work budget, fuel.  Then every entry the three registries held before (ids generated earlier) is
untouched, the provide registries and the fill-capture list are untouched, the id counter did not go back, and nothing is
registered under an id not generated yet: the residue of the failure — the listed finding
`error-leaves-registry-entries` — lies entirely under ids of the failed render. -/
theorem C06_full_partial_failed_tree_render_disturbs_nothing_older (env : Env) (hlib : Djc.Proofs.Tree.GoodLib env) (fuel : Nat)
    (name : Str) (kwargs : List (Str × Expr)) (only dyn : Bool) (body : List Node) (ctx : Ctx) (w w' : World) (e : Err)
    (hd : isDynName name = false) (hb : Djc.Proofs.Tree.gbody body = true) (hc : Djc.Proofs.Plain.ctxFree ctx = true)
    (hw : Djc.Proofs.Tree.WInv w)
    (h : (renderCompTag env fuel name kwargs only dyn body ctx).run.run w = (.error e, w')) :
    w.nextId ≤ w'.nextId ∧
      (∀ k, k < w.nextId → alGet k w'.ctxCache = alGet k w.ctxCache ∧ alGet k w'.rendererCache = alGet k w.rendererCache ∧
        alGet k w'.childAttrs = alGet k w.childAttrs) ∧
      (∀ k, w'.nextId ≤ k → alGet k w'.ctxCache = none ∧ alGet k w'.rendererCache = none ∧ alGet k w'.childAttrs = none) ∧
      w'.provideCache = w.provideCache ∧ w'.provideRefs = w.provideRefs ∧ w'.allRefIds = w.allRefIds := by
  have hf := Djc.Proofs.TreeFail.tree_failure_frame env hlib fuel name kwargs only dyn body ctx w w' e hd hb hc hw h
  exact ⟨hf.next, fun k hk => ⟨hf.cc k hk, hf.rc k hk, hf.ca k hk⟩, fun k hk => ⟨hf.hcc k hk, hf.hrc k hk, hf.hca k hk⟩,
    hf.prov.1, hf.prov.2.1, hf.prov.2.2⟩

/-- **Every later render behaves as if the failed one had never happened — as far as the registries go.**  After a render
of the fragment failed (world `w1`), a later render of any tree of the fragment that returns, leaves the registries
exactly as the failure left them (nothing added, nothing of the residue touched) and returns tokens without
placeholders: the residue neither grows nor leaks into the later page.  (That its *output* is that of a fresh process up
to the numbering of ids is decided per program by the correspondence, stream `faults`.) -/
theorem C06_full_partial_render_after_failed_render (env : Env) (hlib : Djc.Proofs.Tree.GoodLib env) (fuel fuel2 : Nat)
    (name name2 : Str) (kwargs kwargs2 : List (Str × Expr)) (only dyn only2 dyn2 : Bool) (body body2 : List Node) (ctx ctx2 : Ctx)
    (w w1 w2 : World) (e : Err) (toks : List Tok)
    (hd : isDynName name = false) (hb : Djc.Proofs.Tree.gbody body = true) (hc : Djc.Proofs.Plain.ctxFree ctx = true)
    (hw : Djc.Proofs.Tree.WInv w)
    (h : (renderCompTag env fuel name kwargs only dyn body ctx).run.run w = (.error e, w1))
    (hd2 : isDynName name2 = false) (hb2 : Djc.Proofs.Tree.gbody body2 = true) (hc2 : Djc.Proofs.Plain.ctxFree ctx2 = true)
    (hext2 : isExtracting ctx2 = false)
    (hpar2 : Djc.Proofs.Tree.parentOf (if only2 || env.isolated then isolatedCopy ctx2 else ctx2) = none)
    (h2 : (renderCompTag env fuel2 name2 kwargs2 only2 dyn2 body2 ctx2).run.run w1 = (.ok toks, w2)) :
    (∀ k, alGet k w2.ctxCache = alGet k w1.ctxCache) ∧ (∀ k, alGet k w2.rendererCache = alGet k w1.rendererCache) ∧
      (∀ k, alGet k w2.childAttrs = alGet k w1.childAttrs) ∧ Djc.Proofs.Tree.holeIds toks = [] := by
  have hf := Djc.Proofs.TreeFail.tree_failure_frame env hlib fuel name kwargs only dyn body ctx w w1 e hd hb hc hw h
  have hw1 := hf.winv hw
  obtain ⟨hb, hno⟩ := Djc.Proofs.Tree.tree_root_tag env hlib fuel2 name2 kwargs2 only2 dyn2 body2 ctx2 w1 w2 toks hd2 hb2 hc2 hw1 hext2 hpar2 h2
  exact ⟨fun k => hb.cc k (by simp), fun k => hb.rc k (by simp), hb.ca, hno⟩

/-- instance (kernel-evaluated): the three-level page with a fault in the fourth callback raises the injected error and
leaves entries — all under ids of that render, none in the provide registries -/
example : Djc.Proofs.TreeFail.exFailSummary = true := by decide +kernel

/-- **All sequences mixing successful and failing renders** (the second quantifier of C06, for the model of the code on
the tree fragment): after *any* history of top-level renders — each a `{% component %}` tag of the fragment with a
Context of its own, returning or raising in any order, for any reason — every registry entry that existed before the
history is untouched, the provide registries are untouched, the id counter did not go back, nothing is registered under
an id not generated yet; in particular the world is again one the theorems above apply to. -/
theorem C06_full_partial_any_history_disturbs_nothing_older (env : Env) (hlib : Djc.Proofs.Tree.GoodLib env) (fuel : Nat)
    (qs : List Djc.Proofs.TreeFail.Req) (w : World) (hq : ∀ q ∈ qs, q.Good env) (hw : Djc.Proofs.Tree.WInv w) :
    let w' := Djc.Proofs.TreeFail.runHist env fuel qs w
    Djc.Proofs.Tree.WInv w' ∧ w.nextId ≤ w'.nextId ∧
      (∀ k, k < w.nextId → alGet k w'.ctxCache = alGet k w.ctxCache ∧ alGet k w'.rendererCache = alGet k w.rendererCache ∧
        alGet k w'.childAttrs = alGet k w.childAttrs) ∧
      w'.provideCache = w.provideCache ∧ w'.provideRefs = w.provideRefs ∧ w'.allRefIds = w.allRefIds := by
  have hf := Djc.Proofs.TreeFail.history_frame env hlib fuel qs w hq hw
  exact ⟨hf.winv hw, hf.next, fun k hk => ⟨hf.cc k hk, hf.rc k hk, hf.ca k hk⟩, hf.prov.1, hf.prov.2.1, hf.prov.2.2⟩

/-- **Repeating renders any number of times does not grow the registries**: a history in which every render returned —
any number of renders, any trees — leaves `component_context_cache`, `component_renderer_cache` and
`child_component_attrs` lookup for lookup as they were. -/
theorem C06_full_partial_returning_histories_leave_nothing (env : Env) (hlib : Djc.Proofs.Tree.GoodLib env) (fuel : Nat)
    (qs : List Djc.Proofs.TreeFail.Req) (w : World) (hq : ∀ q ∈ qs, q.Good env) (hw : Djc.Proofs.Tree.WInv w)
    (hall : Djc.Proofs.TreeFail.allReturn env fuel qs w) :
    (∀ k, alGet k (Djc.Proofs.TreeFail.runHist env fuel qs w).ctxCache = alGet k w.ctxCache) ∧
    (∀ k, alGet k (Djc.Proofs.TreeFail.runHist env fuel qs w).rendererCache = alGet k w.rendererCache) ∧
    (∀ k, alGet k (Djc.Proofs.TreeFail.runHist env fuel qs w).childAttrs = alGet k w.childAttrs) :=
  Djc.Proofs.TreeFail.history_all_returned env hlib fuel qs w hq hw hall

/-- The property at full strength for the model of the code: whatever callback raises, every
registry of the world is as before the render.  OPEN; false on the unchanged tree. -/
def C06_full : Prop :=
  ∀ (env : Env) (fuel : Nat) (page : List Node) (vars : Layer),
    let w := ((renderNodes env fuel page (rootCtx vars)).run.run {}).2
    w.ctxCache = [] ∧ w.rendererCache = [] ∧ w.childAttrs = [] ∧ w.provideCache = [] ∧ w.provideRefs = [] ∧
      w.allRefIds = [] ∧ w.rcLeak = 0

/-! ### the property at full strength is false on the current tree (known finding) -/

def failingDef : CompDef :=
  { name := "c1".toList, template := [.text "a".toList, .slot (.lit "s".toList) false true [] [.text "dflt".toList]], data := [] }
def failingEnv : Env := { isolated := false, lib := [failingDef] }

/-- **A failing render leaves a `component_context_cache` entry behind** (listed finding
`error-leaves-registry-entries`): `{% component "c1" %}{% endcomponent %}` whose template holds a `required` slot
raises `TemplateSyntaxError` — and the entry made for the instance is still there.  Kernel-evaluated. -/
theorem not_C06_full : ¬ C06_full := by
  intro h
  have h1 := (h failingEnv 20 [.comp "c1".toList [] false false []] []).1
  have h2 : (((renderNodes failingEnv 20 [.comp "c1".toList [] false false []] (rootCtx [])).run.run {}).2.ctxCache).isEmpty = false := by
    decide +kernel
  rw [h1] at h2
  cases h2

end Djc.Props.C06
