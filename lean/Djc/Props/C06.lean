/-
  C06 — a finished or failed render leaves nothing behind.  Property theorems only.
-/
import Djc.Proofs.Render
namespace Djc.Props.C06
open Djc.Tpl Djc.Render Djc.Proofs.Render

end Djc.Props.C06
