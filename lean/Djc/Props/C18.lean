/-
  C18 — Template caching is transparent and behaves as a bounded LRU.
  Property theorems only; helper lemmas live in `Djc/Proofs/Lru.lean`.

  All theorems quantify over *every* history `h : List (Op κ ν)` (no length bound), every
  key / value type with decidable key equality, and every capacity.
-/
import Djc.Proofs.Lru
namespace Djc.Props.C18
open Djc.Model.Lru Djc.Spec.Lru Djc.Proofs.Lru

variable {κ ν : Type} [DecidableEq κ]

/-- The cache never holds more than the configured number of entries. -/
theorem lru_size_le_cap (n : Nat) (h : List (Op κ ν)) :
    (run (empty (some n) : Lru κ ν) h).items.length ≤ n :=
  (inv_run (some n) h).bounded n (by rw [run_cap]; rfl)

/-- Size 0 disables the cache: it stays empty and every `get` misses. -/
theorem lru_cap0_noop (h : List (Op κ ν)) (k : κ) :
    (run (empty (some 0) : Lru κ ν) h).items = [] ∧
    (cget (run (empty (some 0) : Lru κ ν) h) k).2 = none := by
  have h0 : (run (empty (some 0) : Lru κ ν) h).items = [] :=
    List.length_eq_zero_iff.mp (Nat.le_zero.mp (lru_size_le_cap 0 h))
  exact ⟨h0, by simp [cget, h0, lookup]⟩

/-- No key is held twice (the list and the dictionary of the implementation describe one set). -/
theorem lru_keys_nodup (cap : Option Nat) (h : List (Op κ ν)) :
    (keys (run (empty cap : Lru κ ν) h).items).Nodup :=
  (inv_run cap h).nodup

/-- A hit returns the value a plain dictionary would return (the latest `set`, no `clear`
since): the cache never serves a stale or foreign value. -/
theorem lru_get_returns_last_set (cap : Option Nat) (h : List (Op κ ν)) (k : κ) (v : ν)
    (hit : (cget (run (empty cap : Lru κ ν) h) k).2 = some v) : dictGet h k = some v := by
  apply (inv_run cap h).values k v
  unfold cget at hit
  cases hl : lookup k (run (empty cap : Lru κ ν) h).items with
  | none => simp [hl] at hit
  | some w => simp [hl] at hit; rw [hit]

/-- Unbounded cache (`maxsize=None`) is exactly a dictionary. -/
theorem lru_unbounded_refines_dict (h : List (Op κ ν)) (k : κ) :
    lookup k (run (empty none : Lru κ ν) h).items = dictGet h k := by
  suffices H : ∀ (pre : List (Op κ ν)) (c : Lru κ ν), c.cap = none →
      (∀ a, lookup a c.items = dictGet pre a) →
      ∀ a, lookup a (run c h).items = dictGet (pre ++ h) a by
    simpa using H [] (empty none) rfl (by intro a; simp [empty, lookup, dictGet, dictRev]) k
  induction h with
  | nil => intro pre c _ hf a; simpa [run] using hf a
  | cons op h ih =>
    intro pre c hc hf a
    rw [run_cons]
    have hstep : ∀ a, lookup a (step c op).1.items = dictGet (pre ++ [op]) a := by
      intro a
      cases op with
      | has k' => simp [step, dictGet_snoc_has, hf]
      | clear => simp [step, cclear, lookup, dictGet_snoc_clear]
      | get k' =>
        simp only [step, cget, dictGet_snoc_get]
        cases hl : lookup k' c.items with
        | none => simpa using hf a
        | some w =>
          by_cases e : k' = a
          · subst e; simp [lookup, ← hf, hl]
          · have : a ≠ k' := fun e' => e e'.symm
            simp [lookup, e, lookup_erase_ne _ this, hf]
      | set k' w =>
        have hd : isDisabled c = false := by simp [isDisabled, hc]
        have hfull : isFull c = false := by simp [isFull, hc]
        simp only [step, cset, hd, hfull, dictGet_snoc_set]
        by_cases e : k' = a
        · subst e
          cases hl : lookup k' c.items <;> simp [lookup]
        · have : a ≠ k' := fun e' => e e'.symm
          cases hl : lookup k' c.items <;> simp [lookup, e, lookup_erase_ne _ this, hf]
    have := ih (pre ++ [op]) (step c op).1 (by rw [step_cap]; exact hc) hstep a
    simpa [List.append_assoc] using this

/-- The cached keys are ordered by recency of use: each key was used (`set`, or `get` that
hit) strictly later than every key behind it. -/
theorem lru_sorted_by_recency (cap : Option Nat) (h : List (Op κ ν)) :
    (keys (run (empty cap : Lru κ ν) h).items).Pairwise (MoreRecent h) :=
  (inv_run cap h).sorted

/-- Eviction removes the least recently used entry, and only that one: inserting a fresh key
into a full cache drops exactly the key whose last use is older than that of every other
cached key; all other keys stay, in order, behind the new one. -/
theorem lru_evicts_least_recent (n : Nat) (hn : 0 < n) (h : List (Op κ ν)) (k : κ) (v : ν)
    (hfresh : k ∉ keys (run (empty (some n) : Lru κ ν) h).items)
    (hfull : (run (empty (some n) : Lru κ ν) h).items.length = n) :
    ∃ front lru,
      keys (run (empty (some n) : Lru κ ν) h).items = front ++ [lru] ∧
      keys (run (empty (some n) : Lru κ ν) (h ++ [Op.set k v])).items = k :: front ∧
      ∀ a ∈ front, MoreRecent h a lru := by
  have hcap : (run (empty (some n) : Lru κ ν) h).cap = some n := by rw [run_cap]; rfl
  have hs : (keys (run (empty (some n) : Lru κ ν) h).items).Pairwise (MoreRecent h) :=
    (inv_run (some n) h).sorted
  rw [run_snoc]
  generalize run (empty (some n) : Lru κ ν) h = c at *
  have hne : keys c.items ≠ [] := by
    intro e
    have : c.items.length = 0 := by
      have := congrArg List.length e
      simpa [keys] using this
    omega
  refine ⟨(keys c.items).dropLast, (keys c.items).getLast hne, ?_, ?_, ?_⟩
  · exact (List.dropLast_concat_getLast hne).symm
  · have hl : lookup k c.items = none := (lookup_none_iff k c.items).mpr hfresh
    have hd : isDisabled c = false := by
      simp [isDisabled, hcap]; omega
    have hf : isFull c = true := by
      simp [isFull, hcap]; omega
    show keys (cset c k v).items = _
    simp [cset, hd, hl, hf, keys, List.map_dropLast]
  · intro a ha
    rw [← List.dropLast_concat_getLast hne] at hs
    exact (List.pairwise_append.mp hs).2.2 a ha _ (by simp)

/-- Nothing else is ever dropped: a cached key survives every operation except `clear` and
the eviction described above. -/
theorem lru_no_spurious_eviction (c : Lru κ ν) (op : Op κ ν) (a : κ)
    (ha : a ∈ keys c.items) :
    a ∈ keys (step c op).1.items ∨ op = Op.clear ∨
    (∃ k v hne, op = Op.set k v ∧ k ∉ keys c.items ∧ isFull c = true ∧
      a = (keys c.items).getLast hne) := by
  cases op with
  | has k => left; simpa [step] using ha
  | clear => right; left; rfl
  | get k =>
    left
    simp only [step, cget]
    cases hl : lookup k c.items with
    | none => simpa using ha
    | some w =>
      by_cases e : a = k
      · simp [keys, e]
      · have : a ∈ keys (erase k c.items) := mem_keys_erase.mpr ⟨ha, e⟩
        simp only [keys, List.map_cons, List.mem_cons]
        right; exact this
  | set k v =>
    simp only [step, cset]
    by_cases hd : isDisabled c = true
    · left; simpa [hd] using ha
    · simp only [hd]
      cases hl : lookup k c.items with
      | some w =>
        left
        simp only [Option.isSome_some, if_true, Bool.false_eq_true, if_false]
        by_cases e : a = k
        · simp [keys, e]
        · have : a ∈ keys (erase k c.items) := mem_keys_erase.mpr ⟨ha, e⟩
          simp only [keys, List.map_cons, List.mem_cons]
          right; exact this
      | none =>
        have hk : k ∉ keys c.items := (lookup_none_iff k c.items).mp hl
        simp only [Option.isSome_none, Bool.false_eq_true, if_false]
        by_cases hf : isFull c = true
        · simp only [hf, if_true]
          have hne : keys c.items ≠ [] := fun e => by simp [e] at ha
          by_cases hlast : a = (keys c.items).getLast hne
          · right; right; exact ⟨k, v, hne, rfl, hk, by simpa using hf, hlast⟩
          · left
            have hsplit := List.dropLast_concat_getLast hne
            have : a ∈ (keys c.items).dropLast := by
              rw [← hsplit] at ha
              rcases List.mem_append.mp ha with h1 | h1
              · exact h1
              · simp at h1; exact absurd h1 hlast
            simp only [keys, List.map_cons, List.mem_cons, List.map_dropLast]
            right; simpa [keys] using this
        · left
          simp only [hf, Bool.false_eq_true, if_false, keys, List.map_cons, List.mem_cons]
          right; simpa [keys] using ha

/-- The cache does cache: with any non-zero (or unbounded) capacity, after any history, a key
that was just `set` is found by the next `get` / `has` with exactly that value, and sits at
the most-recently-used end.  (`lru_get_returns_last_set` alone is met by a cache that never
stores anything; this is the converse direction for the immediate read.) -/
theorem lru_set_then_get_hits (cap : Option Nat) (hcap : cap ≠ some 0) (h : List (Op κ ν))
    (k : κ) (v : ν) :
    (cget (run (empty cap : Lru κ ν) (h ++ [Op.set k v])) k).2 = some v ∧
    chas (run (empty cap : Lru κ ν) (h ++ [Op.set k v])) k = true ∧
    (keys (run (empty cap : Lru κ ν) (h ++ [Op.set k v])).items).head? = some k := by
  rw [run_snoc]
  have hc : (run (empty cap : Lru κ ν) h).cap = cap := by rw [run_cap]; rfl
  generalize run (empty cap : Lru κ ν) h = c at *
  have hd : isDisabled c = false := by
    unfold isDisabled; rw [hc]
    cases cap with
    | none => rfl
    | some n =>
      have : n ≠ 0 := fun e => hcap (by rw [e])
      simp [this]
  have hitems : ∃ rest, (cset c k v).items = (k, v) :: rest := by
    unfold cset; rw [hd]
    simp only [Bool.false_eq_true, if_false]
    split
    · exact ⟨_, rfl⟩
    · split <;> exact ⟨_, rfl⟩
  obtain ⟨rest, hr⟩ := hitems
  show (cget (cset c k v) k).2 = some v ∧ chas (cset c k v) k = true ∧
    (keys (cset c k v).items).head? = some k
  refine ⟨?_, ?_, ?_⟩
  · simp [cget, hr, lookup]
  · simp [chas, hr, lookup]
  · simp [keys, hr]

/-- A recently used key is still cached: in a cache of size `n`, a key that was `set` and then
followed by fewer than `n` further operations (none of them `clear`) is still present, whatever
the history before the `set` and whatever those operations are (they can evict at most one entry
each, always the least recently used).  Together with `lru_get_returns_last_set` the `get`
returns the latest value stored for it. -/
theorem lru_recent_key_survives (n : Nat) (h h' : List (Op κ ν)) (k : κ) (v : ν)
    (hno : ∀ op ∈ h', op ≠ Op.clear) (hlen : h'.length < n) :
    chas (run (empty (some n) : Lru κ ν) (h ++ Op.set k v :: h')) k = true ∧
    ∃ w, (cget (run (empty (some n) : Lru κ ν) (h ++ Op.set k v :: h')) k).2 = some w ∧
      dictGet (h ++ Op.set k v :: h') k = some w := by
  have hsplit : run (empty (some n) : Lru κ ν) (h ++ Op.set k v :: h') =
      run (cset (run (empty (some n) : Lru κ ν) h) k v) h' := by
    simp [run, List.foldl_append, step]
  have hc : (run (empty (some n) : Lru κ ν) h).cap = some n := by rw [run_cap]; rfl
  have hpres : k ∈ keys (run (empty (some n) : Lru κ ν) (h ++ Op.set k v :: h')).items := by
    rw [hsplit]
    generalize run (empty (some n) : Lru κ ν) h = c at *
    have hd : isDisabled c = false := by
      unfold isDisabled; rw [hc]; simp; omega
    have hitems : ∃ rest, (cset c k v).items = (k, v) :: rest := by
      unfold cset; rw [hd]
      simp only [Bool.false_eq_true, if_false]
      split
      · exact ⟨_, rfl⟩
      · split <;> exact ⟨_, rfl⟩
    obtain ⟨rest, hr⟩ := hitems
    have h0 : Near k 0 (cset c k v) := by
      refine ⟨by simp [keys, hr], ?_⟩
      simp [keys, hr, posOf]
    have hcc : (cset c k v).cap = some n := by
      have := step_cap c (Op.set k v); simpa [step, hc] using this
    exact (near_run n k h' (cset c k v) 0 hcc h0 (by omega) hno).1
  cases hl : lookup k (run (empty (some n) : Lru κ ν) (h ++ Op.set k v :: h')).items with
  | none => exact absurd hpres ((lookup_none_iff k _).mp hl)
  | some w =>
    refine ⟨by simp [chas, hl], w, ?_, ?_⟩
    · simp [cget, hl]
    · exact lru_get_returns_last_set (some n) _ k w (by simp [cget, hl])

/-- Non-vacuity / sharpness: size 2, `set a`, one more operation: `a` still cached; two more
fresh keys: `a` evicted (so the bound `h'.length < n` cannot be relaxed). -/
example :
    chas (run (empty (some 2) : Lru Nat Nat) [Op.set 1 10, Op.set 2 20]) 1 = true ∧
    chas (run (empty (some 2) : Lru Nat Nat) [Op.set 1 10, Op.set 2 20, Op.set 3 30]) 1 = false := by
  decide

/-- `has` is a pure observation and `clear` forgets everything: after `clear` every key
misses, whatever the history before it. -/
theorem lru_has_is_pure_and_clear_empties (cap : Option Nat) (h : List (Op κ ν)) (k : κ) :
    run (empty cap : Lru κ ν) (h ++ [Op.has k]) = run (empty cap : Lru κ ν) h ∧
    (run (empty cap : Lru κ ν) (h ++ [Op.clear])).items = [] ∧
    (cget (run (empty cap : Lru κ ν) (h ++ [Op.clear])) k).2 = none := by
  refine ⟨?_, ?_, ?_⟩
  · rw [run_snoc]; rfl
  · rw [run_snoc]; rfl
  · rw [run_snoc]; simp [step, cclear, cget, lookup]

/-- Non-vacuity: a size-1 cache after `set a; set b` holds `b` (hit) and has evicted `a`. -/
example :
    (cget (run (empty (some 1) : Lru Nat Nat) [Op.set 1 10, Op.set 2 20]) 2).2 = some 20 ∧
    (cget (run (empty (some 1) : Lru Nat Nat) [Op.set 1 10, Op.set 2 20]) 1).2 = none := by
  decide

/-! ### `cached_template` -/

/-- The template cache is driven only through `get` / `set`, so every LRU theorem above applies
to it (bound, recency order, eviction). -/
theorem cachedTemplate_is_lru_history (s : TState κ) (ks : List κ) :
    (tRun s ks).1.cache = run s.cache (tOps s ks) := by
  induction ks generalizing s with
  | nil => simp [tRun, tOps, run]
  | cons k ks ih =>
    simp only [tRun, tOps]
    rw [ih]
    unfold cachedTemplate
    cases hl : lookup k s.cache.items with
    | none => simp [cget, hl, run, step]
    | some t => simp [cget, hl, run, step]

/-- Transparency: whatever the history and the cache size, the template returned for source
`k` is a template compiled from `k` (so rendering it equals compiling afresh). -/
theorem cached_transparent (cap : Option Nat) (ks : List κ) :
    ((tRun ({ cache := empty cap, next := 0 } : TState κ) ks).2.map Tmpl.key) = ks := by
  suffices H : ∀ (s : TState κ), (∃ h, s.cache = run (empty cap) h) → TInv s →
      ((tRun s ks).2.map Tmpl.key) = ks by
    exact H _ ⟨[], rfl⟩ (by intro k t hl; simp [empty, lookup] at hl)
  induction ks with
  | nil => intro s _ _; simp [tRun]
  | cons k ks ih =>
    intro s ⟨h, hs⟩ hi
    have hn : (keys s.cache.items).Nodup := by rw [hs]; exact lru_keys_nodup cap h
    simp only [tRun, List.map_cons]
    have hreach : ∃ h', (cachedTemplate s k).1.cache = run (empty cap) h' := by
      have := cachedTemplate_is_lru_history s [k]
      simp only [tRun] at this
      refine ⟨h ++ tOps s [k], ?_⟩
      rw [this, hs]
      simp [run, List.foldl_append]
    rw [ih _ hreach (tinv_step s k hn hi)]
    congr 1
    unfold cachedTemplate
    cases hl : lookup k s.cache.items with
    | some t => simp [cget, hl]; exact (hi k t hl).1
    | none => simp [cget, hl]

/-- Identity: while a key is cached, `cached_template` returns the identical object, and keeps it
cached. -/
theorem cached_identity_stable (s : TState κ) (k : κ) (t : Tmpl κ)
    (hl : lookup k s.cache.items = some t) :
    (cachedTemplate s k).2 = t ∧ lookup k (cachedTemplate s k).1.cache.items = some t := by
  unfold cachedTemplate
  simp [cget, hl, lookup]

/-- Identity over histories: with a template cache of size `n`, a source compiled (or found) by
`cached_template` and requested again after fewer than `n` other `cached_template` calls — for any
sources, hits or misses, from any starting state — yields the *identical* object: the first clause
of "the identical Template object for a repeated key for as long as it is cached", with the
guarantee of how long that is. -/
theorem cached_identity_while_recent (n : Nat) (s : TState κ) (hc : s.cache.cap = some n)
    (k : κ) (ks : List κ) (hlen : ks.length < n) :
    (cachedTemplate (tRun (cachedTemplate s k).1 ks).1 k).2 = (cachedTemplate s k).2 := by
  have h0 : TNear k (cachedTemplate s k).2 0 (cachedTemplate s k).1.cache ∧
      (cachedTemplate s k).1.cache.cap = some n := by
    unfold cachedTemplate
    cases hl : lookup k s.cache.items with
    | some t' =>
      simp only [cget, hl]
      exact ⟨⟨by simp [lookup], by simp [keys, posOf]⟩, hc⟩
    | none =>
      simp only [cget, hl]
      have hd : isDisabled s.cache = false := by
        unfold isDisabled; rw [hc]; simp; omega
      have hcap : (cset s.cache k { ident := s.next, key := k }).cap = some n := by
        have := step_cap s.cache (Op.set k { ident := s.next, key := k })
        simpa [step, hc] using this
      have hitems : ∃ rest, (cset s.cache k ({ ident := s.next, key := k } : Tmpl κ)).items =
          (k, { ident := s.next, key := k }) :: rest := by
        unfold cset; rw [hd]
        simp only [Bool.false_eq_true, if_false]
        split
        · exact ⟨_, rfl⟩
        · split <;> exact ⟨_, rfl⟩
      obtain ⟨rest, hr⟩ := hitems
      exact ⟨⟨by simp [hr, lookup], by simp [hr, keys, posOf]⟩, hcap⟩
  have h1 := tnear_run n k (cachedTemplate s k).2 ks (cachedTemplate s k).1 0 h0.2 h0.1 (by omega)
  exact (cached_identity_stable _ k _ h1.1.1).1

/-- Non-vacuity / sharpness: size 2 — one other source in between keeps the object, two evict it
(a new object with a new identity is compiled). -/
example :
    (tRun ({ cache := empty (some 2), next := 0 } : TState Nat) [5, 6, 5]).2.map Tmpl.ident = [0, 1, 0] ∧
    (tRun ({ cache := empty (some 2), next := 0 } : TState Nat) [5, 6, 7, 5]).2.map Tmpl.ident
      = [0, 1, 2, 3] := by
  decide

/-- A miss compiles a fresh object, distinct from every cached one. -/
theorem cached_miss_is_fresh (s : TState κ) (k : κ) (hi : TInv s)
    (hl : lookup k s.cache.items = none) :
    (cachedTemplate s k).2.ident = s.next ∧
    ∀ a t, lookup a s.cache.items = some t → t.ident ≠ (cachedTemplate s k).2.ident := by
  unfold cachedTemplate
  simp only [cget, hl, true_and]
  intro a t hat
  exact Nat.ne_of_lt (hi a t hat).2

/-! ### non-vacuity: the hypotheses above are met by concrete, non-trivial histories -/

example :
    let h : List (Op Nat Nat) := [.set 1 10, .set 2 20, .get 1]
    keys (run (empty (some 2) : Lru Nat Nat) h).items = [1, 2] ∧
    3 ∉ keys (run (empty (some 2) : Lru Nat Nat) h).items ∧
    (run (empty (some 2) : Lru Nat Nat) h).items.length = 2 ∧
    keys (run (empty (some 2) : Lru Nat Nat) (h ++ [.set 3 30])).items = [3, 1] := by
  decide

example : (cget (run (empty (some 2) : Lru Nat Nat) [.set 1 10, .set 2 20, .set 1 11]) 1).2
    = some 11 := by decide

example : (tRun ({ cache := empty (some 1), next := 0 } : TState Nat) [5, 6, 5]).2
    = [⟨0, 5⟩, ⟨1, 6⟩, ⟨2, 5⟩] := by decide

end Djc.Props.C18
