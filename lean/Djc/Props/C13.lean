/-
  C13 — html_attrs and Python-passed slot content emit exactly the data given, escaped.
  Property theorems only (helper lemmas: `Djc/Proofs/Attrs.lean`).
  Values are arbitrary strings of arbitrary characters; attribute lists have any length.
-/
import Djc.Proofs.Attrs
namespace Djc.Props.C13
open Djc.AList Djc.Model.Attrs Djc.Proofs.Attrs
open Djc.Spec.Html hiding Str lowerAscii

/-- Decoding the escaped form gives back the original text, for every string. -/
theorem decode_escape (s : Str) : decodeRefs (escape s) = s := Djc.Proofs.Attrs.decode_escape s

/-- Escaped text contains no raw `"`, `<`, `>` or `'`. -/
theorem escape_has_no_raw_specials (s : Str) :
    '"' ∉ escape s ∧ '<' ∉ escape s ∧ '>' ∉ escape s ∧ '\'' ∉ escape s :=
  ⟨escape_no_raw s _ (Or.inl rfl), escape_no_raw s _ (Or.inr (Or.inl rfl)),
   escape_no_raw s _ (Or.inr (Or.inr (Or.inl rfl))), escape_no_raw s _ (Or.inr (Or.inr (Or.inr rfl)))⟩

def NotSafe : Val → Prop
  | .safe _ => False
  | _ => True

/-- what an HTML parser must report for an attribute dictionary -/
def expected (m : List (Str × Val)) : List (Str × Option Str) :=
  m.filterMap (fun e =>
    match e.2 with
    | .none => none
    | .ff => none
    | .tt => some (e.1, none)
    | v => some (e.1, some (strOf v)))

def item (e : Str × Val) : Option (Str × Option Str) :=
  match e.2 with
  | .none => none
  | .ff => none
  | .tt => some (e.1, none)
  | v => some (e.1, some (condEscape v))

/-- **Round trip.** Whatever characters the (non-safe) values contain, and for every name in the
attribute-name alphabet (`NameOK`), tokenizing the emitted text as HTML yields exactly the given
names and values, each once, in order: `None` / `False` dropped, `True` bare. -/
theorem attrs_roundtrip (m : List (Str × Val))
    (hm : ∀ e ∈ m, NameOK e.1 ∧ NotSafe e.2) :
    parseAttrs (attrsToString m) = expected m := by
  have hrender : ∀ e ∈ m, renderOne e.1 e.2 = (item e).map rend := by
    intro e he
    have hk := escape_name (hm e he).1.2
    obtain ⟨k, v⟩ := e
    cases v <;> simp [renderOne, item, rend, hk, List.append_assoc] at hk ⊢
  have h1 : m.filterMap (fun e => renderOne e.1 e.2) = (m.filterMap item).map rend := by
    rw [List.map_filterMap]
    apply filterMap_congr'
    intro e he
    rw [hrender e he]
  have hok : ∀ it ∈ m.filterMap item, ItemOK it := by
    intro it hit
    simp only [List.mem_filterMap] at hit
    obtain ⟨e, he, hie⟩ := hit
    have hn := (hm e he).1
    have hs := (hm e he).2
    obtain ⟨k, v⟩ := e
    cases v with
    | none => simp [item] at hie
    | ff => simp [item] at hie
    | tt =>
      simp [item] at hie; subst hie
      exact ⟨hn, by intro ev h; cases h⟩
    | safe s => exact absurd hs (by simp [NotSafe])
    | str s =>
      simp [item] at hie; subst hie
      refine ⟨hn, ?_⟩
      intro ev h; simp at h; subst h
      exact escape_no_raw _ _ (Or.inl rfl)
    | num n =>
      simp [item] at hie; subst hie
      refine ⟨hn, ?_⟩
      intro ev h; simp at h; subst h
      exact escape_no_raw _ _ (Or.inl rfl)
  unfold attrsToString
  rw [h1, parse_items _ hok, List.map_filterMap]
  unfold expected
  apply filterMap_congr'
  intro e he
  have hs := (hm e he).2
  obtain ⟨k, v⟩ := e
  cases v <;> simp [item, emitted, condEscape, strOf, Djc.Proofs.Attrs.decode_escape, NotSafe] at hs ⊢

/-- Nothing can break out of an attribute: the emitted text of `n` printed attributes tokenizes to
exactly `n` attributes with exactly the given names. -/
theorem value_cannot_break_out (m : List (Str × Val))
    (hm : ∀ e ∈ m, NameOK e.1 ∧ NotSafe e.2) :
    (parseAttrs (attrsToString m)).map Prod.fst = (expected m).map Prod.fst ∧
    (parseAttrs (attrsToString m)).length = (expected m).length := by
  rw [attrs_roundtrip m hm]; exact ⟨rfl, rfl⟩

/-- `defaults`, overridden by `attrs`. -/
theorem merge_order_defaults_then_attrs (base a : List (Str × Val)) (ha : (akeys a).Nodup) (k : Str) :
    alookup k (updateAll base a) =
      match alookup k a with
      | some v => some v
      | none => alookup k base := by
  induction a generalizing base with
  | nil => simp [updateAll, alookup]
  | cons p rest ih =>
    obtain ⟨k', v'⟩ := p
    have hn : k' ∉ akeys rest ∧ (akeys rest).Nodup := List.nodup_cons.mp ha
    simp only [updateAll]
    rw [ih (aset k' v' base) hn.2]
    by_cases e : k' = k
    · subst e
      have : alookup k' rest = none := (not_mem_akeys_iff k' rest).mp hn.1
      simp [alookup, this, alookup_aset_self]
    · have hk : k ≠ k' := fun h => e h.symm
      simp only [alookup, e, if_false, alookup_aset_ne _ _ hk]

/-- Extra keywords are appended to the same-named attribute with exactly one space, and are new
attributes otherwise; other attributes are untouched.  (`kw` = the keywords as `render` receives
them: distinct keys.) -/
theorem append_order (kw : List (Str × Val)) (hkw : (akeys kw).Nodup) :
    ∀ (acc m : List (Str × Val)), appendAttributes acc kw = .ok m →
      ∀ k, alookup k m =
        match alookup k acc, alookup k kw with
        | some old, some w => (match appendVal old w with
                               | .ok nv => some nv
                               | .error _ => none)
        | some old, none => some old
        | none, some w => some w
        | none, none => none := by
  induction kw with
  | nil =>
    intro acc m h k
    simp [appendAttributes] at h; subst h
    cases alookup k acc <;> simp [alookup]
  | cons p rest ih =>
    intro acc m h k
    obtain ⟨k', w'⟩ := p
    have hn : k' ∉ akeys rest ∧ (akeys rest).Nodup := List.nodup_cons.mp hkw
    have hrest : alookup k' rest = none := (not_mem_akeys_iff k' rest).mp hn.1
    simp only [appendAttributes] at h
    cases hacc : alookup k' acc with
    | none =>
      simp only [hacc] at h
      have := ih hn.2 _ m h k
      rw [this, alookup_append]
      by_cases e : k' = k
      · subst e; simp [hacc, alookup, hrest]
      · cases alookup k acc <;> simp [alookup, e]
    | some old =>
      simp only [hacc] at h
      cases hap : appendVal old w' with
      | error er => simp [hap] at h
      | ok nv =>
        simp only [hap] at h
        have := ih hn.2 _ m h k
        rw [this]
        by_cases e : k' = k
        · subst e; simp [alookup_aset_self, hacc, alookup, hrest, hap]
        · have hk : k ≠ k' := fun h => e h.symm
          simp only [alookup_aset_ne _ _ hk, alookup, e, if_false]

/-- `None` / `False` values are omitted, `True` renders the bare name, everything else
`name="value"`. -/
theorem none_false_dropped_true_bare (k : Str) (s : Str) (n : Nat) :
    renderOne k .none = none ∧ renderOne k .ff = none ∧ renderOne k .tt = some (escape k) ∧
    renderOne k (.str s) = some (escape k ++ '=' :: '"' :: escape s ++ ['"']) ∧
    renderOne k (.num n) = some (escape k ++ '=' :: '"' :: escape (natStr n) ++ ['"']) := by
  simp [renderOne, condEscape, strOf]

/-- What a slot prints for content handed to `Component.render(slots=…)`: plain text (a `str`, or
the `str` returned by a function or by a user-made un-escaped `Slot`) is escaped iff the flag is on;
safe text and already-escaped slots are printed as they are. -/
theorem slot_output_spec (flag : Bool) (c : Content) :
    output (normalize flag c) =
      match c with
      | .plain s => if flag then escape s else s
      | .safeS s => s
      | .fn y => if flag ∧ y.safe = false then escape y.text else y.text
      | .slot v =>
        if v.escaped = false ∧ flag ∧ v.yield.safe = false then escape v.yield.text
        else v.yield.text := by
  cases c with
  | plain s => simp [normalize, output]
  | safeS s => simp [normalize, output]
  | fn y => cases flag <;> cases hy : y.safe <;> simp [normalize, output, wrapY, condEscapeY, hy]
  | slot v =>
    obtain ⟨e, n, y⟩ := v
    cases e <;> cases n <;> cases flag <;> cases hy : y.safe <;>
      simp [normalize, output, wrapY, condEscapeY, hy]

/-- **Exactly once.** However many further `render(slots=…)` calls a normalised slot is passed
through, and whatever their escape flags, what it prints does not change: no second escaping. -/
theorem slot_escaped_exactly_once (flag : Bool) (c : Content) (fs : List Bool) :
    output (repass fs (normalize flag c)) = output (normalize flag c) := by
  have hinv : (normalize flag c).yield.safe = true ∨ (normalize flag c).escaped = true := by
    cases c with
    | plain s => simp [normalize]
    | safeS s => simp [normalize]
    | fn y => simp [normalize]
    | slot v =>
      simp only [normalize]
      by_cases h1 : v.escaped = true ∧ v.named = true
      · rw [if_pos h1]; exact Or.inr h1.1
      · rw [if_neg h1]
        by_cases h2 : v.escaped = true
        · rw [if_neg (fun h => h h2)]; exact Or.inr rfl
        · rw [if_pos h2]; exact Or.inr rfl
  generalize normalize flag c = v at hinv
  induction fs generalizing v with
  | nil => rfl
  | cons f fs ih =>
    have := normalize_slot_stable f v hinv
    simp only [repass]
    rw [ih _ this.2]
    simp [output, this.1]

/-- The guard refuses component JS / CSS exactly when it contains its own end tag (`</script`,
`</style`) in some letter case; otherwise the content is wrapped unchanged. -/
theorem end_tag_guard (content : Str) :
    ((wrapScript true content = none ↔
        ∃ pre mid post, content = pre ++ mid ++ post ∧
          mid.map Djc.Model.Attrs.lowerAscii = jsNeedle) ∧
     (∀ out, wrapScript true content = some out → out = jsOpen ++ content ++ jsClose)) ∧
    ((wrapScript false content = none ↔
        ∃ pre mid post, content = pre ++ mid ++ post ∧
          mid.map Djc.Model.Attrs.lowerAscii = cssNeedle) ∧
     (∀ out, wrapScript false content = some out → out = cssOpen ++ content ++ cssClose)) := by
  constructor
  · have := wrapWith_spec jsNeedle jsOpen jsClose content (by decide)
    simpa [wrapScript] using this
  · have := wrapWith_spec cssNeedle cssOpen cssClose content (by decide)
    simpa [wrapScript] using this

/-! ### non-vacuity, and the known findings as computed facts -/

example : NameOK "data-x".toList ∧ NameOK "@click".toList ∧ NameOK "ünï".toList := by
  refine ⟨⟨by decide, by decide⟩, ⟨by decide, by decide⟩, ⟨by decide, by decide⟩⟩

example : parseAttrs (attrsToString [("class".toList, .str "a\"><script>".toList), ("x".toList, .tt),
    ("y".toList, .none), ("n".toList, .num 5)])
    = [("class".toList, some "a\"><script>".toList), ("x".toList, none), ("n".toList, some "5".toList)] := by
  decide

/-- outside `NameOK` the round trip fails (known finding `attribute-name-not-escapable`) -/
example : parseAttrs (attrsToString [("a b".toList, .str "v".toList)])
    = [("a".toList, none), ("b".toList, some "v".toList)] := by decide

/-- appending to a non-string raises (known finding `append-to-non-str`) -/
example : htmlAttrs [] [("n".toList, .num 1)] [("n".toList, .str "2".toList)] = .error .typeError := by
  decide

example : wrapScript true "var a='</SCRipt>';".toList = none := by decide

end Djc.Props.C13
