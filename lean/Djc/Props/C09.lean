/-
  C09 — the template lexer partitions the source exactly, with right positions and lines.
  Property theorems only (helper lemmas: `Djc/Proofs/Lexer.lean`).
  Every theorem is about every source text (`List Char`, any length) and both values of the
  DOTALL flag of `tag_re` (the value in force is extracted from the settings on every run).
-/
import Djc.Proofs.Lexer
namespace Djc.Props.C09
open Djc.Model.Lexer Djc.Proofs.Lexer

/-- Django's lexer partitions the source: token spans are non-empty, contiguous, start at 0 and
end at the length of the text; and every token's line number is one plus the number of newlines
before its start. -/
theorem stockLex_partition (d : Bool) (text : Str) :
    Contig (stockLex d text) 0 text.length ∧ LineOK text (stockLex d text) := by
  have := stockGo_spec d text (text.length + 1) 0 1 none (by simp) (by omega) (by simp [countNl])
  simpa [stockLex] using this

theorem parseGo_spec (d : Bool) (text : Str) :
    ∀ (fuel istart : Nat) (toks : List Tok),
      text.length - istart < fuel → istart ≤ text.length →
      parseGo d fuel text istart = .ok toks →
      Contig toks istart text.length ∧ LineOK text toks := by
  intro fuel
  induction fuel with
  | zero => intro istart toks h; omega
  | succ fuel ih =>
    intro istart toks hfuel hle h
    simp only [parseGo] at h
    by_cases hend : text.length ≤ istart
    · simp only [hend, if_true] at h
      cases h
      exact ⟨by simp only [Contig]; omega, by intro t ht; cases ht⟩
    · simp only [hend, if_false] at h
      have hspec := stockGo_spec d text ((text.drop istart).length + 1) istart
        (1 + countNl (text.take istart)) none (by omega) hle rfl
      generalize hst : stockGo d ((text.drop istart).length + 1) (text.drop istart) istart
        (1 + countNl (text.take istart)) none = st at h hspec
      have hsplit : st.takeWhile (fun t => !isBroken t) ++ st.dropWhile (fun t => !isBroken t) = st :=
        List.takeWhile_append_dropWhile
      cases hdw : st.dropWhile (fun t => !isBroken t) with
      | nil =>
        simp only [hdw] at h
        cases h
        rw [hdw, List.append_nil] at hsplit
        rw [hsplit]; exact hspec
      | cons b rest =>
        simp only [hdw] at h
        rw [hdw] at hsplit
        have hcont : Contig (st.takeWhile (fun t => !isBroken t) ++ b :: rest) istart text.length := by
          rw [hsplit]; exact hspec.1
        obtain ⟨m, hgood, hb⟩ := contig_split hcont
        have hbmem : b ∈ st := by rw [← hsplit]; simp
        have hbb := contig_mem_bounds hspec.1 b hbmem
        have hbstart : b.start = m := hb.1
        cases hdet : detailed (text.drop b.start) b.lineno b.start with
        | error e => simp [hdet] at h
        | ok fixed =>
          simp only [hdet] at h
          obtain ⟨_, hfs, hfl, mid, tail, hmid, _, hstop⟩ := detailed_spec _ _ _ _ hdet
          have hlen : (text.drop b.start).length = text.length - b.start := by simp
          have hbound : mid.length + 4 ≤ text.length - b.start := by
            have : ((text.drop b.start).drop 2).length = mid.length + 2 + tail.length := by
              rw [hmid]; simp; omega
            simp at this; omega
          cases hrec : parseGo d fuel text fixed.stop with
          | error e => simp [hrec] at h
          | ok more =>
            simp only [hrec] at h
            cases h
            have ihr := ih fixed.stop more (by omega) (by omega) hrec
            constructor
            · apply contig_append hgood
              refine ⟨by rw [hfs, hbstart], by omega, ihr.1⟩
            · intro t ht
              simp only [List.mem_append, List.mem_cons] at ht
              rcases ht with ht | ht | ht
              · apply hspec.2 t
                rw [← hsplit]; exact List.mem_append_left _ ht
              · subst ht
                rw [hfl, hfs]; exact hspec.2 b hbmem
              · exact ihr.2 t ht

/-- **Partition.** Whenever `parse_template` returns tokens, their spans are non-empty,
contiguous, start at 0 and end at the end of the source. -/
theorem parseTemplate_partition (d : Bool) (text : Str) (toks : List Tok)
    (h : parseTemplate d text = .ok toks) : Contig toks 0 text.length :=
  (parseGo_spec d text (text.length + 1) 0 toks (by omega) (by omega) h).1

/-- **Line numbers.** Each token's line number is one plus the number of newlines before its
start — across any number of restarts after tags with quoted arguments (this is the statement that
was false before the `fix:` commit 7a2fdf0). -/
theorem parseTemplate_lineno (d : Bool) (text : Str) (toks : List Tok)
    (h : parseTemplate d text = .ok toks) (t : Tok) (ht : t ∈ toks) :
    t.lineno = 1 + countNl (text.take t.start) :=
  (parseGo_spec d text (text.length + 1) 0 toks (by omega) (by omega) h).2 t ht

/-- **Identical to Django's lexer** whenever no block tag contains a quote character. -/
theorem parseTemplate_eq_stock_of_no_quote (d : Bool) (text : Str)
    (h : ∀ t, t ∈ stockLex d text → isBroken t = false) :
    parseTemplate d text = .ok (stockLex d text) := by
  unfold parseTemplate
  simp only [parseGo]
  by_cases he : text.length ≤ 0
  · have : text = [] := List.length_eq_zero_iff.mp (by omega)
    subst this
    simp [stockLex, stockGo]
  · simp only [he, if_false, List.drop_zero, List.take_zero, countNl, List.count_nil, Nat.add_zero]
    have hall : ∀ t, t ∈ stockGo d (text.length + 1) text 0 1 none → (!isBroken t) = true := by
      intro t ht; simp [h t (by simpa [stockLex] using ht)]
    have h1 : (stockGo d (text.length + 1) text 0 1 none).dropWhile (fun t => !isBroken t) = [] :=
      dropWhile_nil_of_all _ _ hall
    have h2 : (stockGo d (text.length + 1) text 0 1 none).takeWhile (fun t => !isBroken t)
        = stockGo d (text.length + 1) text 0 1 none := takeWhile_self_of_all _ _ hall
    simp only [h1, h2, stockLex]

/-- Otherwise the two streams agree up to the first block tag that contains a quote: all of
Django's tokens before it are kept unchanged, and the next token starts where that tag starts. -/
theorem parseTemplate_prefix_agrees_with_stock (d : Bool) (text : Str) (toks : List Tok)
    (h : parseTemplate d text = .ok toks) :
    ∃ rest, toks = (stockLex d text).takeWhile (fun t => !isBroken t) ++ rest ∧
      (∀ b tl, (stockLex d text).dropWhile (fun t => !isBroken t) = b :: tl →
        ∃ fixed more, rest = fixed :: more ∧ fixed.start = b.start ∧ fixed.typ = .block ∧
          fixed.lineno = b.lineno) := by
  unfold parseTemplate at h
  simp only [parseGo] at h
  by_cases he : text.length ≤ 0
  · have : text = [] := List.length_eq_zero_iff.mp (by omega)
    subst this
    simp at h; subst h
    exact ⟨[], by simp [stockLex, stockGo], by intro b tl hb; simp [stockLex, stockGo] at hb⟩
  · simp only [he, if_false, List.drop_zero, List.take_zero, countNl, List.count_nil,
      Nat.add_zero] at h
    have hst : stockGo d (text.length + 1) text 0 1 none = stockLex d text := rfl
    rw [hst] at h
    cases hdw : (stockLex d text).dropWhile (fun t => !isBroken t) with
    | nil =>
      simp only [hdw] at h
      cases h
      exact ⟨[], by simp, by intro b tl hb; cases hb⟩
    | cons b rest =>
      simp only [hdw] at h
      cases hdet : detailed (text.drop b.start) b.lineno b.start with
      | error e => simp [hdet] at h
      | ok fixed =>
        simp only [hdet] at h
        cases hrec : parseGo d text.length text fixed.stop with
        | error e => simp [hrec] at h
        | ok more =>
          simp only [hrec] at h
          cases h
          obtain ⟨hty, hfs, hfl, _⟩ := detailed_spec _ _ _ _ hdet
          refine ⟨fixed :: more, rfl, ?_⟩
          intro b' tl hb'
          cases hb'
          exact ⟨fixed, more, rfl, hfs, hty, hfl⟩

/-- The token built by the quote-aware scanner spans exactly from `{%` to a closing `%}` and its
contents are what lies between the delimiters, stripped. -/
theorem detailed_contents_between_delimiters (text : Str) (lineno start : Nat) (t : Tok)
    (h : detailed text lineno start = .ok t) :
    ∃ mid tail, text.drop 2 = mid ++ '%' :: '}' :: tail ∧ t.contents = strip mid ∧
      t.stop = t.start + (mid.length + 4) ∧ t.typ = .block := by
  obtain ⟨hty, hfs, _, mid, tail, h1, h2, h3⟩ := detailed_spec text lineno start t h
  exact ⟨mid, tail, h1, h2, by rw [hfs]; exact h3, hty⟩

/-! ### non-vacuity; regression witnesses of the repaired defects -/

example : parseTemplate true "a\n{% x \"1\" %}\nb\n{% y \"2\" %}\nc{{ v }}".toList = .ok
    [⟨.text, "a\n".toList, 0, 2, 1⟩, ⟨.block, "x \"1\"".toList, 2, 13, 2⟩, ⟨.text, "\nb\n".toList, 13, 16, 2⟩,
     ⟨.block, "y \"2\"".toList, 16, 27, 4⟩, ⟨.text, "\nc".toList, 27, 29, 4⟩, ⟨.var, "v".toList, 29, 36, 5⟩] := by
  decide +kernel

example : (parseTemplate true "{% x \"a\" % y %} t {% z \"b\" %}".toList).toOption.map List.length = some 3 := by
  decide +kernel

example : parseTemplate true "{% x \"%}\" %}".toList = .ok [⟨.block, "x \"%}\"".toList, 0, 12, 1⟩] ∧
    (stockLex true "{% x \"%}\" %}".toList).length = 2 := by
  decide +kernel

end Djc.Props.C09
