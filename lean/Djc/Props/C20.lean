/-
  C20 — autodiscovery selects exactly the public modules, with the right import paths.
  Property theorems only (helper lemmas: `Djc/Proofs/Discover.lean`).
  Trees, directory names and file names are arbitrary lists of arbitrary parts (no size bound).
-/
import Djc.Proofs.Discover
namespace Djc.Props.C20
open Djc.Model.Discover Djc.Proofs.Discover

/-- A file is selected iff it is in the tree, its name ends with the suffix, no part is hidden,
no directory part starts with `_`, and the name does not start with `_` unless it is
`__init__.py`. -/
theorem select_iff (suffix : Part) (tree : List RelPath) (f : RelPath) :
    f ∈ searchDir suffix tree ↔
      f ∈ tree ∧ ∃ name, f.getLast? = some name ∧ suffix <:+ name ∧
        (∀ p ∈ f, startsWithC '.' p = false) ∧
        (∀ p ∈ f.dropLast, startsWithC '_' p = false) ∧
        (startsWithC '_' name = false ∨ name = "__init__.py".toList) := by
  simp only [searchDir, List.mem_filter, Bool.and_eq_true]
  constructor
  · rintro ⟨hf, hg, hu⟩
    refine ⟨hf, ?_⟩
    cases hl : f.getLast? with
    | none => simp [globMatch, hl] at hg
    | some name =>
      simp only [globMatch, hl, Bool.and_eq_true, List.all_eq_true, Bool.not_eq_eq_eq_not,
        Bool.not_true] at hg
      simp only [underscoreOk, hl, Bool.and_eq_true, List.all_eq_true, Bool.not_eq_eq_eq_not,
        Bool.not_true, Bool.or_eq_true, beq_iff_eq] at hu
      exact ⟨name, rfl, List.isSuffixOf_iff_suffix.mp hg.1, hg.2, hu.1, hu.2⟩
  · rintro ⟨hf, name, hl, hs, hh, hd, hn⟩
    refine ⟨hf, ?_, ?_⟩
    · simp only [globMatch, hl, Bool.and_eq_true, List.all_eq_true, Bool.not_eq_eq_eq_not,
        Bool.not_true]
      exact ⟨List.isSuffixOf_iff_suffix.mpr hs, hh⟩
    · simp only [underscoreOk, hl, Bool.and_eq_true, List.all_eq_true, Bool.not_eq_eq_eq_not,
        Bool.not_true, Bool.or_eq_true, beq_iff_eq]
      exact ⟨hd, hn⟩

/-- Each selected file is returned once per directory. -/
theorem search_nodup (suffix : Part) (tree : List RelPath) (h : tree.Nodup) :
    (searchDir suffix tree).Nodup := by
  unfold searchDir
  exact h.sublist List.filter_sublist

/-- …and once overall, when no configured directory lies inside another one (for nested
directories this fails — the known finding `nested-dirs-duplicates`). -/
theorem search_dirs_nodup_of_unnested (suffix : Part) (dirs : List (List Part × List RelPath))
    (htrees : ∀ d ∈ dirs, d.2.Nodup)
    (hun : dirs.Pairwise (fun a b => ¬ a.1 <+: b.1 ∧ ¬ b.1 <+: a.1)) :
    (dirs.flatMap (fun d => (searchDir suffix d.2).map (fun f => d.1 ++ f))).Nodup := by
  unfold List.Nodup
  rw [List.pairwise_flatMap]
  constructor
  · intro d hd
    have := search_nodup suffix d.2 (htrees d hd)
    unfold List.Nodup at this
    refine List.Pairwise.map _ ?_ this
    intro a b hab e
    exact hab (List.append_cancel_left e)
  · refine List.Pairwise.imp ?_ hun
    intro a b hab x hx y hy e
    simp only [List.mem_map] at hx hy
    obtain ⟨f, _, rfl⟩ := hx
    obtain ⟨g, _, rfl⟩ := hy
    have h1 : a.1 <+: a.1 ++ f := List.prefix_append _ _
    have h2 : b.1 <+: a.1 ++ f := by rw [e]; exact List.prefix_append _ _
    rcases List.prefix_or_prefix_of_prefix h1 h2 with h | h
    · exact hab.1 h
    · exact hab.2 h

/-- For a plain module (every directory part and the base name non-empty and dot-free, suffix
`.py`) the dotted path is exactly the path Python imports it by: the parts from the project root
(or from the app package) joined by dots. -/
theorem dotpath_correct (above dirs : List Part) (base : Part)
    (hbase : PlainPart base) (hinit : base ≠ "__init__".toList)
    (hne : above ++ dirs ≠ []) :
    dotPath none above (dirs ++ [base ++ ".py".toList]) = joinDots (above ++ dirs ++ [base]) ∧
    ∀ pkg : Part,
      dotPath (some pkg) above (dirs ++ [base ++ ".py".toList]) =
        pkg ++ '.' :: joinDots (above ++ dirs ++ [base]) := by
  have hj : joinDots (above ++ dirs ++ [base]) = joinDots (above ++ dirs) ++ '.' :: base :=
    joinDots_snoc _ _ hne
  have hnoinit : ∀ x : Part, ¬ initSuf <:+ x ++ '.' :: base := by
    intro x h
    exact hinit ((init_suffix_iff x base hbase.2).mp h)
  constructor
  · unfold dotPath
    rw [rawDotPath_snoc, stripLastSuffix_py base hbase]
    show dropInitSuffix (joinDots (above ++ dirs ++ [base])) = _
    rw [hj]
    exact dropInitSuffix_of_not_suffix _ (hnoinit _)
  · intro pkg
    unfold dotPath
    rw [rawDotPath_snoc, stripLastSuffix_py base hbase]
    show dropInitSuffix (pkg ++ '.' :: joinDots (above ++ dirs ++ [base])) = _
    rw [hj]
    apply dropInitSuffix_of_not_suffix
    rw [show pkg ++ '.' :: (joinDots (above ++ dirs) ++ '.' :: base) =
          (pkg ++ '.' :: joinDots (above ++ dirs)) ++ '.' :: base by simp]
    exact hnoinit _

/-- `__init__.py` stands for its package: the trailing `.__init__` is dropped. -/
theorem init_module_is_package (above dirs : List Part) (hne : above ++ dirs ≠ []) :
    dotPath none above (dirs ++ ["__init__.py".toList]) = joinDots (above ++ dirs) := by
  have hs : stripLastSuffix "__init__.py".toList = "__init__".toList := by decide
  have hi : initSuf = '.' :: "__init__".toList := by decide
  unfold dotPath
  rw [rawDotPath_snoc, hs]
  show dropInitSuffix (joinDots (above ++ dirs ++ ["__init__".toList])) = _
  rw [joinDots_snoc _ _ hne, ← hi]
  exact dropInitSuffix_append _

/-- Distinct plain modules get distinct dotted paths: two files below one component directory
(or one app directory) never collide on one import name, so "each once" carries over from files
to modules.  (For names with dots this fails — `x.y.py` and `x/y.py` both give `….x.y`, the
known finding `dotted-names-unimportable`; witness below.) -/
theorem dotpath_injective_on_plain_modules (above dirs₁ dirs₂ : List Part) (b₁ b₂ : Part)
    (habove : ∀ p ∈ above, PlainPart p)
    (hd₁ : ∀ p ∈ dirs₁, PlainPart p) (hd₂ : ∀ p ∈ dirs₂, PlainPart p)
    (hb₁ : PlainPart b₁) (hb₂ : PlainPart b₂)
    (hi₁ : b₁ ≠ "__init__".toList) (hi₂ : b₂ ≠ "__init__".toList)
    (hne₁ : above ++ dirs₁ ≠ []) (hne₂ : above ++ dirs₂ ≠ []) :
    (dotPath none above (dirs₁ ++ [b₁ ++ ".py".toList]) =
        dotPath none above (dirs₂ ++ [b₂ ++ ".py".toList]) → dirs₁ = dirs₂ ∧ b₁ = b₂) ∧
    ∀ pkg : Part, dotPath (some pkg) above (dirs₁ ++ [b₁ ++ ".py".toList]) =
        dotPath (some pkg) above (dirs₂ ++ [b₂ ++ ".py".toList]) → dirs₁ = dirs₂ ∧ b₁ = b₂ := by
  have key : joinDots (above ++ dirs₁ ++ [b₁]) = joinDots (above ++ dirs₂ ++ [b₂]) →
      dirs₁ = dirs₂ ∧ b₁ = b₂ := by
    intro h
    have hall : ∀ (ds : List Part) (b : Part), (∀ p ∈ ds, PlainPart p) → PlainPart b →
        ∀ p ∈ above ++ ds ++ [b], PlainPart p := by
      intro ds b hds hb p hp
      rcases List.mem_append.mp hp with h1 | h1
      · rcases List.mem_append.mp h1 with h2 | h2
        · exact habove p h2
        · exact hds p h2
      · rw [List.mem_singleton.mp h1]; exact hb
    have e := joinDots_injective _ _ (hall dirs₁ b₁ hd₁ hb₁) (hall dirs₂ b₂ hd₂ hb₂) h
    rw [List.append_assoc, List.append_assoc] at e
    have e' := List.append_cancel_left e
    have := List.append_inj' e' rfl
    exact ⟨this.1, by simpa using this.2⟩
  constructor
  · intro h
    rw [(dotpath_correct above dirs₁ b₁ hb₁ hi₁ hne₁).1,
      (dotpath_correct above dirs₂ b₂ hb₂ hi₂ hne₂).1] at h
    exact key h
  · intro pkg h
    rw [(dotpath_correct above dirs₁ b₁ hb₁ hi₁ hne₁).2 pkg,
      (dotpath_correct above dirs₂ b₂ hb₂ hi₂ hne₂).2 pkg] at h
    exact key (by simpa using h)

/-- Sharpness of the plainness hypothesis: with a dot in a name two different files collide. -/
example : dotPath none ["components".toList] ["x.y.py".toList] =
    dotPath none ["components".toList] ["x".toList, "y.py".toList] := by
  decide

/-- The `".." in module_path` filter never drops a plain module: it only removes paths with an
empty or dot-adjacent part, which no import statement could name. -/
theorem dotdot_filter_keeps_plain_modules (above dirs : List Part) (base : Part)
    (habove : ∀ p ∈ above, PlainPart p) (hdirs : ∀ p ∈ dirs, PlainPart p)
    (hbase : PlainPart base) (hne : above ++ dirs ≠ []) :
    hasDotDot (dotPath none above (dirs ++ [base ++ ".py".toList])) = false := by
  have hall : ∀ p ∈ above ++ dirs ++ [base], PlainPart p := by
    intro p hp
    simp only [List.mem_append, List.mem_singleton] at hp
    rcases hp with (hp | hp) | hp
    · exact habove p hp
    · exact hdirs p hp
    · exact hp ▸ hbase
  have hfull : hasDotDot (joinDots (above ++ dirs ++ [base])) = false := hasDotDot_joinDots _ hall
  by_cases hinit : base = "__init__".toList
  · subst hinit
    have := init_module_is_package above dirs hne
    rw [show ("__init__".toList ++ ".py".toList) = "__init__.py".toList by decide, this]
    exact hasDotDot_joinDots _ (fun p hp => hall p (List.mem_append_left _ hp))
  · rw [(dotpath_correct above dirs base hbase hinit hne).1]
    exact hfull

/-! ### non-vacuity, and the known findings as computed facts -/

example : dotPath none ["components".toList] ["sub".toList, "mod.py".toList] = "components.sub.mod".toList := by
  decide

example : dotPath (some "myapp".toList) ["components".toList] ["__init__.py".toList]
    = "myapp.components".toList := by decide

/-- dotted names: the path produced is not the (non-existent) import path -/
example : dotPath none ["components".toList] ["x.y.py".toList] = "components.x.y".toList ∧
    dotPath none ["components".toList] ["sub".toList, "z..py".toList] = "components.sub.z.".toList := by
  decide

example : searchDir ".py".toList
    [["a.py".toList], ["_b.py".toList], ["sub".toList, "__init__.py".toList], [".hid".toList, "h.py".toList],
     ["_priv".toList, "p.py".toList], ["n.js".toList]]
    = [["a.py".toList], ["sub".toList, "__init__.py".toList]] := by decide

end Djc.Props.C20
