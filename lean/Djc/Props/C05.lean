/-
  C05 — inject() returns the nearest enclosing {% provide %} of the rendered structure.
  Property theorems only.
-/
import Djc.Proofs.Render
namespace Djc.Props.C05
open Djc.Tpl Djc.Render Djc.Proofs.Render

/-- the layer `ProvideNode.render` pushes -/
def providerLayer (key : Str) (pid : Nat) : Layer := [(injectPrefix ++ key, .provRef pid)]

/-- **Nearest provider wins.** Inside a `{% provide key %}` the key resolves to that provider,
whatever providers of the same key enclose it. -/
theorem nearest_provider_shadows (ctx : Ctx) (key : Str) (pid : Nat) :
    ctxGet (ctx ++ [providerLayer key pid]) (injectPrefix ++ key) = some (.provRef pid) := by
  rw [ctxGet_append_one]
  unfold providerLayer
  generalize injectPrefix ++ key = k
  simp [lookupL]

/-- **Other keys are untouched**: a provider of one key does not change what any other key (or
variable) resolves to. -/
theorem provider_leaves_others (ctx : Ctx) (key : Str) (pid : Nat) (x : Str) (h : x ≠ injectPrefix ++ key) :
    ctxGet (ctx ++ [providerLayer key pid]) x = ctxGet ctx x := by
  rw [ctxGet_append_one]
  unfold providerLayer
  generalize injectPrefix ++ key = k at h
  simp [lookupL, Ne.symm h]

/-- **Provided values never become template variables**: the only name a provider binds starts
with the internal prefix (`_DJC_INJECT__`), which a template cannot name (Django rejects variables
that start with an underscore). -/
theorem provided_not_variables (key : Str) (pid : Nat) :
    ∀ kv ∈ providerLayer key pid, kv.1.head? = some '_' := by
  intro kv h
  simp [providerLayer] at h
  subst h
  rfl

end Djc.Props.C05
