/-
  C05 — inject() returns the nearest enclosing {% provide %} of the rendered structure.
  Property theorems only.
-/
import Djc.Proofs.Render
import Djc.Proofs.Calm
import Djc.Proofs.Inject
import Djc.Props.C03
import Djc.Spec.Render
namespace Djc.Props.C05
open Djc.Tpl Djc.Render Djc.Proofs.Render

/-- the layer `ProvideNode.render` pushes -/
def providerLayer (key : Str) (pid : Nat) : Layer := [(injectPrefix ++ key, .provRef pid)]

/-- **Nearest provider wins.** Inside a `{% provide key %}` the key resolves to that provider,
whatever providers of the same key enclose it. -/
theorem nearest_provider_shadows (ctx : Ctx) (key : Str) (pid : Nat) :
    ctxGet (ctx ++ [providerLayer key pid]) (injectPrefix ++ key) = some (.provRef pid) := by
  rw [ctxGet_append_one]
  unfold providerLayer
  generalize injectPrefix ++ key = k
  simp [lookupL]

/-- **Other keys are untouched**: a provider of one key does not change what any other key (or
variable) resolves to. -/
theorem provider_leaves_others (ctx : Ctx) (key : Str) (pid : Nat) (x : Str) (h : x ≠ injectPrefix ++ key) :
    ctxGet (ctx ++ [providerLayer key pid]) x = ctxGet ctx x := by
  rw [ctxGet_append_one]
  unfold providerLayer
  generalize injectPrefix ++ key = k at h
  simp [lookupL, Ne.symm h]

/-- **Provided values never become template variables**: the only name a provider binds starts
with the internal prefix (`_DJC_INJECT__`), which a template cannot name (Django rejects variables
that start with an underscore). -/
theorem provided_not_variables (key : Str) (pid : Nat) :
    ∀ kv ∈ providerLayer key pid, kv.1.head? = some '_' := by
  intro kv h
  simp [providerLayer] at h
  subst h
  rfl

/-! ### across isolated contexts -/

/-- **Providers reach through isolated contexts.**  For every context whose layers are dicts (keys
unique) and every provider key: what `_DJC_INJECT__<key>` resolves to in the context an isolated /
`only` component is rendered with is exactly what it resolves to at the component tag — the
nearest enclosing provider, at any depth of layers. -/
theorem inject_key_survives_isolation (ctx : Ctx) (key : Str) (h : ∀ l ∈ ctx, UniqueKeys l) :
    ctxGet (isolatedCopy ctx) (injectPrefix ++ key) = ctxGet ctx (injectPrefix ++ key) := by
  have hpre : startsWith injectPrefix (injectPrefix ++ key) = true := by
    simp [startsWith]
  have hhead : (injectPrefix ++ key).head? = some '_' := rfl
  have hperm : permKey ≠ injectPrefix ++ key := by
    intro e
    have h1 : permKey.head? = some '_' := by rw [e]; exact hhead
    revert h1; decide
  have hrc : rcRootKey ≠ injectPrefix ++ key := by
    intro e
    have h1 : rcRootKey.head? = some '_' := by rw [e]; exact hhead
    revert h1; decide
  have htake : (injectPrefix ++ key).take 6 = ['_', 'D', 'J', 'C', '_', 'I'] := rfl
  have hcomp : compKey ≠ injectPrefix ++ key := by
    intro e
    have h1 : compKey.take 6 = ['_', 'D', 'J', 'C', '_', 'I'] := by rw [e]; exact htake
    revert h1; decide
  unfold isolatedCopy
  rw [ctxGet_rebase _ _ hperm]
  generalize injectPrefix ++ key = k at *
  have hl0 : lookupL k (if hasRootRc ctx then [(rcRootKey, Val.none)] else []) = Option.none := by
    split <;> simp [lookupL, hrc]
  cases hv : ctxGet ctx k with
  | none =>
    -- no provider of this key: none of the copied pairs has it, and the fresh base does not either
    have hall := ctxGet_none_all ctx k hv
    rw [ctxGet_fold_setTop]
    · have hbase : ctxGet (match forLayerToCopy ctx with
          | some l => [(if hasRootRc ctx then [(rcRootKey, Val.none)] else []), l]
          | Option.none => [(if hasRootRc ctx then [(rcRootKey, Val.none)] else [])]) k = Option.none := by
        cases hf : forLayerToCopy ctx with
        | none => simp [ctxGet, hl0]
        | some l =>
          have := hall l (forLayerToCopy_mem' ctx l hf)
          simp [ctxGet, hl0, this]
      cases hc : ctxGet ctx compKey with
      | none => exact hbase
      | some v =>
        dsimp only
        rw [ctxGet_setTop_ne _ _ _ _ hcomp]
        exact hbase
    · intro kv hkv e
      have hlk : lookupL k (flatten ctx) = Option.none := by rw [lookupL_flatten ctx k h]; exact hv
      have hmem : kv ∈ flatten ctx := by
        simp [injectKeysOf] at hkv; exact hkv.1
      have : k ∈ (flatten ctx).map (·.1) := e ▸ List.mem_map_of_mem (f := fun x : Str × Val => x.1) hmem
      -- a key of the dict has a value
      have hsome : (lookupL k (flatten ctx)).isSome = true := by
        clear hlk
        generalize flatten ctx = fl at this
        induction fl with
        | nil => simp at this
        | cons a rest ih =>
          obtain ⟨ak, av⟩ := a
          by_cases hk : ak = k
          · simp [lookupL, hk]
          · simp only [List.map_cons, List.mem_cons] at this
            rcases this with t | t
            · exact absurd t.symm hk
            · simp [lookupL, hk, ih t]
      rw [hlk] at hsome
      cases hsome
  | some v =>
    have hlk : lookupL k (injectKeysOf ctx) = some v := by
      unfold injectKeysOf
      rw [lookupL_filter_key k (fun s => startsWith injectPrefix s) _ hpre, lookupL_flatten ctx k h]
      exact hv
    apply ctxGet_fold_setTop_mem _ _ _ _ (unique_filter _ _ (unique_flatten ctx)) hlk
    cases hc : ctxGet ctx compKey with
    | none => cases forLayerToCopy ctx <;> simp
    | some w =>
      dsimp only
      unfold ctxSetTop
      split
      · simp
      · intro e
        have := congrArg List.length e
        simp at this

example : (match ctxGet (isolatedCopy [[], [("a".toList, .str [])], [(injectPrefix ++ ['k'], .provRef 7)], [("b".toList, .none)]])
    (injectPrefix ++ ['k']) with | some (.provRef p) => p | _ => 0) = 7 := by
  decide

/-! ### the provided data stays alive while the provider's body renders (after fix 2193c9f) -/

/-- the provider `pid` holds its own reference and its data is in the cache -/
def Alive (pid : Nat) (w : World) : Prop :=
  alHas pid w.provideCache = true ∧ ∃ refs, alGet pid w.provideRefs = some refs ∧ pid ∈ refs

/-- **No component that finishes inside the body can delete the provider's data.**  While the
provider holds its own reference, unregistering any other id — over any list of provider ids, in
any world — keeps the provider's cache entry and its self-reference; in particular a later
`inject()` of a sibling finds the entry. -/
theorem provider_survives_unregister (pid rid : Nat) (h : rid ≠ pid) (ps : List Nat) (w : World)
    (ha : Alive pid w) : Alive pid (unregisterLoopW rid ps w).2 := by
  induction ps generalizing w with
  | nil => simpa [unregisterLoopW] using ha
  | cons p ps ih =>
    unfold unregisterLoopW
    cases hg : alGet p w.provideRefs with
    | none => simpa using ha
    | some refs =>
      dsimp only
      by_cases hc : (!refs.contains rid) = true
      · rw [if_pos hc]
        exact ih w ha
      · rw [if_neg hc]
        obtain ⟨hcache, r0, hr0, hmem⟩ := ha
        by_cases hp : p = pid
        · -- the provider itself: its own reference stays, so the set is not empty
          subst hp
          have hrefs : refs = r0 := by rw [hg] at hr0; exact Option.some.inj hr0
          subst hrefs
          have hmem' : p ∈ refs.filter (· ≠ rid) := by
            simp [List.mem_filter, hmem, Ne.symm h]
          have hne : (refs.filter (· ≠ rid)).isEmpty = false := by
            cases hf : refs.filter (· ≠ rid) with
            | nil => rw [hf] at hmem'; cases hmem'
            | cons a b => rfl
          rw [if_neg (by rw [hne]; exact Bool.false_ne_true)]
          apply ih
          exact ⟨hcache, _, alGet_alSet_same _ _ _, hmem'⟩
        · -- another provider: whatever happens to it does not touch `pid`
          have hA1 : Alive pid { w with provideRefs := alSet p (refs.filter (· ≠ rid)) w.provideRefs } :=
            ⟨hcache, r0, by simpa [alGet_alSet_ne _ _ _ _ hp] using hr0, hmem⟩
          by_cases he : (refs.filter (· ≠ rid)).isEmpty = true
          · rw [if_pos he]
            unfold popProvideCacheW
            by_cases hh : alHas p w.provideCache = true
            · simp only [hh, if_true]
              apply ih
              refine ⟨?_, r0, ?_, hmem⟩
              · simpa [alHas_alDel_ne _ _ _ hp] using hcache
              · simpa [alGet_alDel_ne _ _ _ hp, alGet_alSet_ne _ _ _ _ hp] using hr0
            · simp only [hh]
              exact hA1
          · rw [if_neg he]
            exact ih _ hA1

/-- the same for the whole `unregister_provide_reference` -/
theorem provider_survives_component_finish (pid rid : Nat) (h : rid ≠ pid) (w : World) (ha : Alive pid w) :
    Alive pid (unregisterRefW rid w).2 := by
  unfold unregisterRefW
  split
  · exact ha
  · exact provider_survives_unregister pid rid h _ _ ha

/-- entering a provider establishes `Alive` -/
theorem enter_provider_alive (pid : Nat) (payload : Layer) (w : World) :
    Alive pid (holdSelfW pid { w with provideCache := alSet pid payload w.provideCache }) := by
  unfold Alive holdSelfW
  refine ⟨by simp [alHas, alGet_alSet_same], _, alGet_alSet_same _ _ _, ?_⟩
  split <;> simp_all

/-- non-vacuity, and the scenario of the repaired defect: a component (id 2) registers under the
page-level provider (id 1) and finishes; the provider's data is still there for its sibling -/
example :
    let w0 : World := holdSelfW 1 { ({} : World) with provideCache := [(1, [])] }
    let ctx : Ctx := [[], [(injectPrefix ++ "pk".toList, .provRef 1)]]
    alHas 1 (unregisterRefW 2 (registerRefW ctx 2 w0)).2.provideCache = true := by decide


/-- **Provided values never become template variables — for the whole pipeline on the provider fragment.**  A page
built from `{% provide %}` blocks (nested to any depth, in loops) around text, `{{ }}`, `{% if %}`, `{% for %}`,
`{% with %}` and elements, whose expressions start from names a template can use (Django refuses a leading `_`): the model
of the code — which pushes the provider key as a context layer and keeps the payload in `provide_cache` — prints
*exactly* what the reading of the property prints, where providers are a separate chain and touch no variable; and
they fail alike.  All fuels, pages, contexts, worlds. -/
theorem provided_not_variables_pipeline (env : Env) (fuel : Nat) (page : List Node) (ctx : Ctx)
    (e : Djc.SpecRender.SEnv) (w : World) (s : Djc.SpecRender.SState)
    (hp : Djc.Proofs.Calm.calmL page = true) (ho : Djc.Proofs.Calm.okNamesL page = true)
    (hc : Djc.Proofs.Plain.ctxFree ctx = true) (hf : Djc.Proofs.Calm.Fresh w)
    (he : e.vars = ctx) (hs : s.steps = w.steps) :
    match (renderNodes env fuel page ctx).run.run w with
    | (.ok toks, w') => (Djc.SpecRender.sNodes env fuel page e).run s = .ok (toks, { s with steps := w'.steps })
    | (.error err, _) => (Djc.SpecRender.sNodes env fuel page e).run s = .error err := by
  subst he
  obtain ⟨k, h⟩ := (Djc.Proofs.Calm.model_calm env fuel).1 page e.vars e.vars w hp ho hc (Djc.Proofs.Calm.sameVars_refl _) hf
  rw [h, (Djc.Proofs.Calm.spec_calm env fuel).1 page e s hp hc, hs]
  rcases Djc.Proofs.Calm.cNodes env.maxSteps fuel page e.vars w.steps with ⟨r, st⟩
  cases r <;> rfl

/-- **What a provider provides is invisible to code that does not inject**: two providers of the same key with
different keyword arguments around the same body print the same, in every context and world. -/
theorem payload_invisible_without_inject (env : Env) (fuel : Nat) (key : Str) (kw1 kw2 : List (Str × Expr))
    (body : List Node) (ctx : Ctx) (w : World)
    (hp : Djc.Proofs.Calm.calmL body = true) (ho : Djc.Proofs.Calm.okNamesL body = true)
    (hc : Djc.Proofs.Plain.ctxFree ctx = true) (hf : Djc.Proofs.Calm.Fresh w) :
    ((renderNode env fuel (.provide key kw1 body) ctx).run.run w).1 =
      ((renderNode env fuel (.provide key kw2 body) ctx).run.run w).1 := by
  obtain ⟨k1, h1⟩ := (Djc.Proofs.Calm.model_calm env fuel).2.2 (.provide key kw1 body) ctx ctx w
    (by simpa [Djc.Proofs.Calm.calm] using hp) (by simpa [Djc.Proofs.Calm.okNames] using ho) hc (Djc.Proofs.Calm.sameVars_refl _) hf
  obtain ⟨k2, h2⟩ := (Djc.Proofs.Calm.model_calm env fuel).2.2 (.provide key kw2 body) ctx ctx w
    (by simpa [Djc.Proofs.Calm.calm] using hp) (by simpa [Djc.Proofs.Calm.okNames] using ho) hc (Djc.Proofs.Calm.sameVars_refl _) hf
  rw [h1, h2]
  cases fuel with
  | zero => simp [Djc.Proofs.Calm.asN, Djc.Proofs.Calm.cNode]
  | succ n => simp [Djc.Proofs.Calm.asN, Djc.Proofs.Calm.cNode]

/-- **`inject()` returns the provider's keyword arguments — end to end, with the bookkeeping** (django mode).  The page
`{% provide key … %}{% component name … %}{% endcomponent %}{% endprovide %}` rendered while no other provider is alive,
the component's `get_context_data` calling `inject(key)`: `ProvideNode.render` (key layer, `provide_cache`, the
provider's own reference), `register_provide_reference`, `inject()` through the context key and the cache, the deferred
render of the consumer, `unregister_provide_reference` when it has finished, `cache_cleanup` when the provider closes.
The model of the code prints what the reading of the property prints — the consumer's template sees, under every
injecting data name, exactly the provider's keyword arguments as evaluated at the `{% provide %}` tag — and `provide_cache`,
`provide_references`, `all_reference_ids`, `component_context_cache`, `component_renderer_cache` are afterwards what they
were.  All contexts, worlds, kwargs, plain templates with usable names. -/
theorem provider_consumer_end_to_end_django (env : Env) (i : Nat) (key ik : Str) (kwP : List (Str × Expr)) (name : Str)
    (kwargs : List (Str × Expr)) (dyn : Bool) (ctx ctx1 : Ctx) (w : World) (e : Djc.SpecRender.SEnv)
    (s : Djc.SpecRender.SState) (d : CompDef) (toks : List Tok) (st : Nat)
    (hmode : env.isolated = false)
    (hkey : isIdentifier key = true) (hik : ik = injectPrefix ++ key)
    (hctx1 : ctx1 = ctx ++ [[(ik, .provRef w.nextId)]])
    (hr : env.raiseAt = none) (hd : findDef env name = some d) (hdyn : isDynName name = false)
    (hp : Djc.Proofs.Plain.plainL d.template = true) (ho : Djc.Proofs.Calm.okNamesL d.template = true)
    (hkwok : kwargs.all (fun kv => Djc.Proofs.Calm.okExpr kv.2) = true)
    (hsteps : ¬ w.steps + 1 ≥ env.maxSteps) (hgcd : w.gcds < env.maxInst)
    (hext : isExtracting ctx1 = false)
    (hpar : ∀ p, ctxGet ctx1 compKey ≠ some (.compRef p))
    (hpc : w.provideCache = []) (hpr : w.provideRefs = [])
    (hids : provIdsOf ctx1 = [w.nextId]) (hinj : Djc.Proofs.Inject.injectsFrom ctx1 w.nextId d.data)
    (hinjk : Djc.Proofs.Inject.injectsKey key d.data)
    (hf1 : alGet (w.nextId + 1) w.ctxCache = none) (hf2 : alGet (w.nextId + 1) w.rendererCache = none)
    (hf3 : alGet (w.nextId + 1) w.childAttrs = none) (hf4 : w.allRefIds.contains (w.nextId + 1) = false)
    (hc : Djc.Proofs.Plain.ctxFree (Djc.Proofs.Inject.leafCtxI ctx1 (w.nextId + 1) (evalKwargs ctx1 kwargs) (evalKwargs ctx kwP) d) = true)
    (hok : Djc.Proofs.Plain.pNodes env.maxSteps (i + 1) d.template
      (Djc.Proofs.Inject.leafCtxI ctx1 (w.nextId + 1) (evalKwargs ctx1 kwargs) (evalKwargs ctx kwP) d) (w.steps + 2) = (.ok toks, st))
    (he : e.vars = ctx) (hsid : s.nextId = w.nextId + 1) (hss : s.steps = w.steps) (hidle : ¬ s.nextId > env.maxInst)
    (hc2 : Djc.Proofs.Plain.ctxFree (Djc.Proofs.Inject.specVarsI false ctx (w.nextId + 1) (evalKwargs ctx kwargs) (evalKwargs ctx kwP) d) = true) :
    let r := (renderNode env (i + 8) (.provide key kwP [.comp name kwargs false dyn []]) ctx).run.run w
    r.1 = .ok (.marker name (w.nextId + 1) :: addRootAttrs [idAttr (w.nextId + 1)] toks) ∧
      r.2.provideCache = w.provideCache ∧ r.2.provideRefs = w.provideRefs ∧ r.2.allRefIds = w.allRefIds ∧
      r.2.ctxCache = w.ctxCache ∧ r.2.rendererCache = w.rendererCache ∧
      ∃ s', (Djc.SpecRender.sNode env (i + 8) (.provide key kwP [.comp name kwargs false dyn []]) e).run s =
        .ok (.marker name (w.nextId + 1) :: addRootAttrs [idAttr (w.nextId + 1)] toks, s') := by
  have hl : (false || env.isolated) = false := by rw [hmode]; rfl
  have hbase : ∀ k, Djc.Proofs.Calm.internal k = false → ctxGet ctx1 k = ctxGet (if false || env.isolated then [[]] else ctx) k := by
    intro k hk
    rw [hl, hctx1, ctxGet_append_one]
    have hne : ¬ ik = k := by
      intro e; subst e
      rw [hik, Djc.Proofs.Calm.internal_injectKey] at hk; cases hk
    simp [lookupL, hne]
  obtain ⟨h1, s', h2, _⟩ := Djc.Proofs.Inject.provide_consumer_model_eq_spec env i key ik kwP name kwargs false dyn ctx ctx1 ctx1
    w e s d toks st hkey hik hctx1 (by rw [hl]; rfl) hr hd hdyn hp ho hkwok hsteps hgcd hext hpar hpc hpr hids hinj hinjk
    hf1 hf2 hf3 hf4 hc hok he hsid hss hidle (by rw [hl]; exact hc2) hbase
  simp only
  rw [h1]
  exact ⟨rfl, rfl, rfl, rfl, rfl, rfl, s', h2⟩

/-- **… and through the isolated copy** (isolated mode or `only`; contexts without for-loop layers): the consumer is
rendered in `make_isolated_context_copy` of the context — which keeps the provider keys and nothing else a template can
name — and still gets exactly the provider's keyword arguments; model of the code = reading, registries restored. -/
theorem provider_consumer_end_to_end_isolated (env : Env) (i : Nat) (key ik : Str) (kwP : List (Str × Expr)) (name : Str)
    (kwargs : List (Str × Expr)) (only dyn : Bool) (ctx ctx1 : Ctx) (w : World) (e : Djc.SpecRender.SEnv)
    (s : Djc.SpecRender.SState) (d : CompDef) (toks : List Tok) (st : Nat)
    (hiso : (only || env.isolated) = true)
    (hbase : ∀ k, Djc.Proofs.Calm.internal k = false → ctxGet (isolatedCopy ctx1) k = none)
    (hkey : isIdentifier key = true) (hik : ik = injectPrefix ++ key)
    (hctx1 : ctx1 = ctx ++ [[(ik, .provRef w.nextId)]])
    (hr : env.raiseAt = none) (hd : findDef env name = some d) (hdyn : isDynName name = false)
    (hp : Djc.Proofs.Plain.plainL d.template = true) (ho : Djc.Proofs.Calm.okNamesL d.template = true)
    (hkwok : kwargs.all (fun kv => Djc.Proofs.Calm.okExpr kv.2) = true)
    (hsteps : ¬ w.steps + 1 ≥ env.maxSteps) (hgcd : w.gcds < env.maxInst)
    (hext : isExtracting ctx1 = false)
    (hpar : ∀ p, ctxGet (isolatedCopy ctx1) compKey ≠ some (.compRef p))
    (hpc : w.provideCache = []) (hpr : w.provideRefs = [])
    (hids : provIdsOf (isolatedCopy ctx1) = [w.nextId])
    (hinj : Djc.Proofs.Inject.injectsFrom (isolatedCopy ctx1) w.nextId d.data)
    (hinjk : Djc.Proofs.Inject.injectsKey key d.data)
    (hf1 : alGet (w.nextId + 1) w.ctxCache = none) (hf2 : alGet (w.nextId + 1) w.rendererCache = none)
    (hf3 : alGet (w.nextId + 1) w.childAttrs = none) (hf4 : w.allRefIds.contains (w.nextId + 1) = false)
    (hc : Djc.Proofs.Plain.ctxFree (Djc.Proofs.Inject.leafCtxI (isolatedCopy ctx1) (w.nextId + 1) (evalKwargs ctx1 kwargs) (evalKwargs ctx kwP) d) = true)
    (hok : Djc.Proofs.Plain.pNodes env.maxSteps (i + 1) d.template
      (Djc.Proofs.Inject.leafCtxI (isolatedCopy ctx1) (w.nextId + 1) (evalKwargs ctx1 kwargs) (evalKwargs ctx kwP) d) (w.steps + 2) = (.ok toks, st))
    (he : e.vars = ctx) (hsid : s.nextId = w.nextId + 1) (hss : s.steps = w.steps) (hidle : ¬ s.nextId > env.maxInst)
    (hc2 : Djc.Proofs.Plain.ctxFree (Djc.Proofs.Inject.specVarsI true ctx (w.nextId + 1) (evalKwargs ctx kwargs) (evalKwargs ctx kwP) d) = true) :
    let r := (renderNode env (i + 8) (.provide key kwP [.comp name kwargs only dyn []]) ctx).run.run w
    r.1 = .ok (.marker name (w.nextId + 1) :: addRootAttrs [idAttr (w.nextId + 1)] toks) ∧
      r.2.provideCache = w.provideCache ∧ r.2.provideRefs = w.provideRefs ∧ r.2.allRefIds = w.allRefIds ∧
      ∃ s', (Djc.SpecRender.sNode env (i + 8) (.provide key kwP [.comp name kwargs only dyn []]) e).run s =
        .ok (.marker name (w.nextId + 1) :: addRootAttrs [idAttr (w.nextId + 1)] toks, s') := by
  obtain ⟨h1, s', h2, _⟩ := Djc.Proofs.Inject.provide_consumer_model_eq_spec env i key ik kwP name kwargs only dyn ctx ctx1
    (isolatedCopy ctx1) w e s d toks st hkey hik hctx1 (by rw [hiso]; rfl) hr hd hdyn hp ho hkwok hsteps hgcd hext hpar hpc hpr
    hids hinj hinjk hf1 hf2 hf3 hf4 hc hok he hsid hss hidle (by rw [hiso]; exact hc2)
    (by intro k hk; rw [hiso, hbase k hk]; rfl)
  simp only
  rw [h1]
  exact ⟨rfl, rfl, rfl, rfl, s', h2⟩

/-- **Siblings under one provider both see the data** (the shape of the defect repaired in `/repo` commit 2193c9f: a
component directly under a page-level `{% provide %}` deleted the provided data when it finished, and its sibling's
`inject()` raised `KeyError`).  The page `{% provide key … %}{% component a %}{% endcomponent %}{% component b %}
{% endcomponent %}{% endprovide %}`, both components injecting `key`, no other provider alive: through the whole
pipeline of the model of the (repaired) code both consumers see the provider's keyword arguments — the first one's
`unregister_provide_reference` leaves the entry alive because the provider holds a reference of its own — and afterwards
`provide_cache`, `provide_references`, `all_reference_ids` are what they were. -/
theorem siblings_under_a_provider_both_see_the_data (env : Env) (i : Nat) (key ik : Str) (kwP : List (Str × Expr))
    (name1 name2 : Str) (kw1 kw2 : List (Str × Expr)) (dyn1 dyn2 : Bool) (ctx ctx1 : Ctx) (w : World) (d1 d2 : CompDef)
    (toks1 toks2 : List Tok) (st1 st2 : Nat)
    (hmode : env.isolated = false)
    (hkey : isIdentifier key = true) (hik : ik = injectPrefix ++ key)
    (hctx1 : ctx1 = ctx ++ [[(ik, .provRef w.nextId)]])
    (hr : env.raiseAt = none)
    (hd1 : findDef env name1 = some d1) (hdyn1 : isDynName name1 = false) (hp1 : Djc.Proofs.Plain.plainL d1.template = true)
    (hd2 : findDef env name2 = some d2) (hdyn2 : isDynName name2 = false) (hp2 : Djc.Proofs.Plain.plainL d2.template = true)
    (hsteps0 : ¬ w.steps ≥ env.maxSteps) (hsteps1 : ¬ w.steps + 1 ≥ env.maxSteps) (hsteps2 : ¬ st1 ≥ env.maxSteps)
    (hgcd : w.gcds + 1 < env.maxInst)
    (hext : isExtracting ctx1 = false)
    (hpar : ∀ p, ctxGet ctx1 compKey ≠ some (.compRef p))
    (hpc : w.provideCache = []) (hpr : w.provideRefs = [])
    (hids : provIdsOf ctx1 = [w.nextId])
    (hinj1 : Djc.Proofs.Inject.injectsFrom ctx1 w.nextId d1.data) (hinj2 : Djc.Proofs.Inject.injectsFrom ctx1 w.nextId d2.data)
    (hf : ∀ k, w.nextId + 1 ≤ k → alGet k w.ctxCache = none ∧ alGet k w.rendererCache = none ∧ alGet k w.childAttrs = none ∧
      w.allRefIds.contains k = false)
    (hc1 : Djc.Proofs.Plain.ctxFree (Djc.Proofs.Inject.leafCtxI ctx1 (w.nextId + 1) (evalKwargs ctx1 kw1) (evalKwargs ctx kwP) d1) = true)
    (hok1 : Djc.Proofs.Plain.pNodes env.maxSteps (i + 2) d1.template
      (Djc.Proofs.Inject.leafCtxI ctx1 (w.nextId + 1) (evalKwargs ctx1 kw1) (evalKwargs ctx kwP) d1) (w.steps + 2) = (.ok toks1, st1))
    (hc2 : Djc.Proofs.Plain.ctxFree (Djc.Proofs.Inject.leafCtxI ctx1 (w.nextId + 2) (evalKwargs ctx1 kw2) (evalKwargs ctx kwP) d2) = true)
    (hok2 : Djc.Proofs.Plain.pNodes env.maxSteps (i + 1) d2.template
      (Djc.Proofs.Inject.leafCtxI ctx1 (w.nextId + 2) (evalKwargs ctx1 kw2) (evalKwargs ctx kwP) d2) (st1 + 1) = (.ok toks2, st2)) :
    let r := (renderNode env (i + 9) (.provide key kwP [.comp name1 kw1 false dyn1 [], .comp name2 kw2 false dyn2 []]) ctx).run.run w
    r.1 = .ok ((.marker name1 (w.nextId + 1) :: addRootAttrs [idAttr (w.nextId + 1)] toks1) ++
               ((.marker name2 (w.nextId + 2) :: addRootAttrs [idAttr (w.nextId + 2)] toks2) ++ [])) ∧
      r.2.provideCache = [] ∧ r.2.provideRefs = [] ∧ r.2.allRefIds = w.allRefIds := by
  have hl : (false || env.isolated) = false := by rw [hmode]; rfl
  have hW : ∃ W : World, W = holdSelfW w.nextId ({ w with steps := w.steps + 1, nextId := w.nextId + 1, provideCache := alSet w.nextId (evalKwargs ctx kwP) w.provideCache } : World) := ⟨_, rfl⟩
  obtain ⟨W, hWdef⟩ := hW
  have hW1 : W.provideCache = [(w.nextId, evalKwargs ctx kwP)] := by rw [hWdef]; simp [holdSelfW, hpc, alSet]
  have hW2 : W.provideRefs = [(w.nextId, [w.nextId])] := by rw [hWdef]; simp [holdSelfW, hpr, alGet, alSet]
  have hW3 : W.nextId = w.nextId + 1 := by rw [hWdef]; rfl
  have hW4 : W.steps = w.steps + 1 := by rw [hWdef]; rfl
  have hW5 : W.gcds = w.gcds := by rw [hWdef]; rfl
  have hW6 : W.ctxCache = w.ctxCache ∧ W.rendererCache = w.rendererCache ∧ W.childAttrs = w.childAttrs ∧ W.allRefIds = w.allRefIds := by
    rw [hWdef]; exact ⟨rfl, rfl, rfl, rfl⟩
  have hbody := Djc.Proofs.Inject.two_consumers_under_provider env i name1 name2 kw1 kw2 false dyn1 false dyn2 ctx1 ctx1 ctx1 W d1 d2
    w.nextId (evalKwargs ctx kwP) toks1 toks2 st1 st2 (by rw [hl]; rfl) (by rw [hl]; rfl) hr hd1 hdyn1 hp1 hd2 hdyn2 hp2
    (by rw [hW4]; exact hsteps1) hsteps2 (by rw [hW5]; exact hgcd) hext hpar hpar hW1 hW2 (by rw [hW3]; omega) (by rw [hW3]; omega)
    hids (by exact hinj1) hids (by exact hinj2)
    (by intro k hk; rw [hW3] at hk; rw [hW6.1, hW6.2.1, hW6.2.2.1, hW6.2.2.2]; exact hf k hk)
    (by rw [hW3]; exact hc1) (by rw [hW3, hW4]; exact hok1) (by rw [hW3]; exact hc2) (by rw [hW3]; exact hok2)
  have hwrap := Djc.Proofs.Inject.provide_wrap env (i + 8) key ik kwP _ ctx ctx1 w W _ _ hkey hik hctx1 hsteps0 hWdef hbody hW1 hW2
  simp only
  rw [hwrap]
  exact ⟨by rw [hW3], rfl, rfl, hW6.2.2.2⟩

section InjectExample
deriving instance DecidableEq for Err
deriving instance DecidableEq for Except

def cDef : CompDef :=
  { name := "c0".toList, template := [.elem "b".toList [.out (.var ["g".toList, "a".toList])]],
    data := [("g".toList, .inject "k".toList none)] }
def cEnv : Env := { isolated := false, lib := [cDef] }
def cCtx : Ctx := rootCtx []
def cCtx1 : Ctx := cCtx ++ [[(injectPrefix ++ "k".toList, .provRef 1)]]

/-- `{% provide "k" a="A" %}{% component "c0" %}{% endcomponent %}{% endprovide %}`, where `c0` does
`g = self.inject("k")` and prints `<b>{{ g.a }}</b>`: the hypotheses of the theorem hold, the consumer prints the
provider's `a`. -/
example :
    ((renderNode cEnv 16 (.provide "k".toList [("a".toList, .lit "A".toList)] [.comp "c0".toList [] false false []]) cCtx).run.run {}).1 =
      .ok [.marker "c0".toList 2, .opn "b".toList [idAttr 2], .text "A".toList, .cls "b".toList] := by
  have h0 : (ctxGet cCtx1 compKey).isNone = true := by decide +kernel
  have hpar : ∀ p, ctxGet cCtx1 compKey ≠ some (.compRef p) := by
    intro p hp; rw [hp] at h0; cases h0
  have hfd : findDef cEnv "c0".toList = some cDef := by
    simp [findDef, cEnv, cDef]
  have hinj1 : (match ctxGet cCtx1 (injectPrefix ++ "k".toList) with | some (.provRef p) => p == 1 | _ => false) = true := by
    decide +kernel
  have hinj : Djc.Proofs.Inject.injectsFrom cCtx1 1 cDef.data := by
    simp only [cDef, Djc.Proofs.Inject.injectsFrom, and_true]
    cases hg : ctxGet cCtx1 (injectPrefix ++ "k".toList) with
    | none => rw [hg] at hinj1; cases hinj1
    | some v =>
      rw [hg] at hinj1
      cases v <;> first | (simp at hinj1; subst hinj1; rfl) | cases hinj1
  have h := (provider_consumer_end_to_end_django cEnv 8 "k".toList (injectPrefix ++ "k".toList) [("a".toList, .lit "A".toList)]
    "c0".toList [] false cCtx cCtx1 {} (.mk cCtx [] none []) { nextId := 2 } cDef
    [.opn "b".toList [], .text "A".toList, .cls "b".toList] 4
    rfl (by decide +kernel) rfl rfl rfl hfd (by decide +kernel) (by decide +kernel) (by decide +kernel) (by decide +kernel)
    (by decide +kernel) (by decide +kernel) (by decide +kernel) hpar rfl rfl (by decide +kernel) hinj
    (by simp [cDef, Djc.Proofs.Inject.injectsKey]) rfl rfl rfl rfl (by decide +kernel) (by decide +kernel)
    rfl rfl rfl (by decide +kernel) (by decide +kernel)).1
  rw [h]
  decide +kernel
/-- two consumers side by side: both print the provider's `a` -/
example :
    ((renderNode cEnv 17 (.provide "k".toList [("a".toList, .lit "A".toList)]
        [.comp "c0".toList [] false false [], .comp "c0".toList [] false false []]) cCtx).run.run {}).1 =
      .ok [.marker "c0".toList 2, .opn "b".toList [idAttr 2], .text "A".toList, .cls "b".toList,
           .marker "c0".toList 3, .opn "b".toList [idAttr 3], .text "A".toList, .cls "b".toList] := by
  have h0 : (ctxGet cCtx1 compKey).isNone = true := by decide +kernel
  have hpar : ∀ p, ctxGet cCtx1 compKey ≠ some (.compRef p) := by
    intro p hp; rw [hp] at h0; cases h0
  have hfd : findDef cEnv "c0".toList = some cDef := by
    simp [findDef, cEnv, cDef]
  have hinj1 : (match ctxGet cCtx1 (injectPrefix ++ "k".toList) with | some (.provRef p) => p == 1 | _ => false) = true := by
    decide +kernel
  have hinj : Djc.Proofs.Inject.injectsFrom cCtx1 1 cDef.data := by
    simp only [cDef, Djc.Proofs.Inject.injectsFrom, and_true]
    cases hg : ctxGet cCtx1 (injectPrefix ++ "k".toList) with
    | none => rw [hg] at hinj1; cases hinj1
    | some v =>
      rw [hg] at hinj1
      cases v <;> first | (simp at hinj1; subst hinj1; rfl) | cases hinj1
  have h := (siblings_under_a_provider_both_see_the_data cEnv 8 "k".toList (injectPrefix ++ "k".toList) [("a".toList, .lit "A".toList)]
    "c0".toList "c0".toList [] [] false false cCtx cCtx1 {} cDef cDef
    [.opn "b".toList [], .text "A".toList, .cls "b".toList] [.opn "b".toList [], .text "A".toList, .cls "b".toList] 4 7
    rfl (by decide +kernel) rfl rfl rfl hfd (by decide +kernel) (by decide +kernel) hfd (by decide +kernel) (by decide +kernel)
    (by decide +kernel) (by decide +kernel) (by decide +kernel) (by decide +kernel) (by decide +kernel) hpar rfl rfl
    (by decide +kernel) hinj hinj (by intro k _; exact ⟨rfl, rfl, rfl, rfl⟩)
    (by decide +kernel) (by decide +kernel) (by decide +kernel) (by decide +kernel)).1
  rw [h]
  decide +kernel
def cEnvI : Env := { isolated := true, lib := [cDef] }

/-- the same page in isolated mode: the key survives `make_isolated_context_copy`, the consumer prints the provider's `a` -/
example :
    ((renderNode cEnvI 16 (.provide "k".toList [("a".toList, .lit "A".toList)] [.comp "c0".toList [] false false []]) cCtx).run.run {}).1 =
      .ok [.marker "c0".toList 2, .opn "b".toList [idAttr 2], .text "A".toList, .cls "b".toList] := by
  have h0 : (ctxGet (isolatedCopy cCtx1) compKey).isNone = true := by decide +kernel
  have hpar : ∀ p, ctxGet (isolatedCopy cCtx1) compKey ≠ some (.compRef p) := by
    intro p hp; rw [hp] at h0; cases h0
  have hfd : findDef cEnvI "c0".toList = some cDef := by
    simp [findDef, cEnvI, cDef]
  have hinj1 : (match ctxGet (isolatedCopy cCtx1) (injectPrefix ++ "k".toList) with | some (.provRef p) => p == 1 | _ => false) = true := by
    decide +kernel
  have hinj : Djc.Proofs.Inject.injectsFrom (isolatedCopy cCtx1) 1 cDef.data := by
    simp only [cDef, Djc.Proofs.Inject.injectsFrom, and_true]
    cases hg : ctxGet (isolatedCopy cCtx1) (injectPrefix ++ "k".toList) with
    | none => rw [hg] at hinj1; cases hinj1
    | some v =>
      rw [hg] at hinj1
      cases v <;> first | (simp at hinj1; subst hinj1; rfl) | cases hinj1
  have hbase : ∀ k, Djc.Proofs.Calm.internal k = false → ctxGet (isolatedCopy cCtx1) k = none := by
    intro k hk
    obtain ⟨a, b, c, dd⟩ := Djc.Props.C03.usable_name_facts k hk
    have hall : cCtx1.all (fun l => !hasL forloopKey l) = true := by decide +kernel
    exact Djc.Props.C03.isolated_copy_hides cCtx1 k a b c dd (by decide +kernel)
      (fun l hl hf => by
        have := List.all_eq_true.mp hall l hl
        rw [hf] at this; cases this)
  have h := (provider_consumer_end_to_end_isolated cEnvI 8 "k".toList (injectPrefix ++ "k".toList) [("a".toList, .lit "A".toList)]
    "c0".toList [] false false cCtx cCtx1 {} (.mk cCtx [] none []) { nextId := 2 } cDef
    [.opn "b".toList [], .text "A".toList, .cls "b".toList] 4
    rfl hbase (by decide +kernel) rfl rfl rfl hfd (by decide +kernel) (by decide +kernel) (by decide +kernel) (by decide +kernel)
    (by decide +kernel) (by decide +kernel) (by decide +kernel) hpar rfl rfl (by decide +kernel) hinj
    (by simp [cDef, Djc.Proofs.Inject.injectsKey]) rfl rfl rfl rfl (by decide +kernel) (by decide +kernel)
    rfl rfl rfl (by decide +kernel) (by decide +kernel)).1
  rw [h]
  decide +kernel
end InjectExample

end Djc.Props.C05
