/-
  C05 — inject() returns the nearest enclosing {% provide %} of the rendered structure.
  Property theorems only.
-/
import Djc.Proofs.Render
namespace Djc.Props.C05
open Djc.Tpl Djc.Render Djc.Proofs.Render

/-- the layer `ProvideNode.render` pushes -/
def providerLayer (key : Str) (pid : Nat) : Layer := [(injectPrefix ++ key, .provRef pid)]

/-- **Nearest provider wins.** Inside a `{% provide key %}` the key resolves to that provider,
whatever providers of the same key enclose it. -/
theorem nearest_provider_shadows (ctx : Ctx) (key : Str) (pid : Nat) :
    ctxGet (ctx ++ [providerLayer key pid]) (injectPrefix ++ key) = some (.provRef pid) := by
  rw [ctxGet_append_one]
  unfold providerLayer
  generalize injectPrefix ++ key = k
  simp [lookupL]

/-- **Other keys are untouched**: a provider of one key does not change what any other key (or
variable) resolves to. -/
theorem provider_leaves_others (ctx : Ctx) (key : Str) (pid : Nat) (x : Str) (h : x ≠ injectPrefix ++ key) :
    ctxGet (ctx ++ [providerLayer key pid]) x = ctxGet ctx x := by
  rw [ctxGet_append_one]
  unfold providerLayer
  generalize injectPrefix ++ key = k at h
  simp [lookupL, Ne.symm h]

/-- **Provided values never become template variables**: the only name a provider binds starts
with the internal prefix (`_DJC_INJECT__`), which a template cannot name (Django rejects variables
that start with an underscore). -/
theorem provided_not_variables (key : Str) (pid : Nat) :
    ∀ kv ∈ providerLayer key pid, kv.1.head? = some '_' := by
  intro kv h
  simp [providerLayer] at h
  subst h
  rfl

/-! ### the provided data stays alive while the provider's body renders (after fix 2193c9f) -/

/-- the provider `pid` holds its own reference and its data is in the cache -/
def Alive (pid : Nat) (w : World) : Prop :=
  alHas pid w.provideCache = true ∧ ∃ refs, alGet pid w.provideRefs = some refs ∧ pid ∈ refs

/-- **No component that finishes inside the body can delete the provider's data.**  While the
provider holds its own reference, unregistering any other id — over any list of provider ids, in
any world — keeps the provider's cache entry and its self-reference; in particular a later
`inject()` of a sibling finds the entry. -/
theorem provider_survives_unregister (pid rid : Nat) (h : rid ≠ pid) (ps : List Nat) (w : World)
    (ha : Alive pid w) : Alive pid (unregisterLoopW rid ps w).2 := by
  induction ps generalizing w with
  | nil => simpa [unregisterLoopW] using ha
  | cons p ps ih =>
    unfold unregisterLoopW
    cases hg : alGet p w.provideRefs with
    | none => simpa using ha
    | some refs =>
      dsimp only
      by_cases hc : (!refs.contains rid) = true
      · rw [if_pos hc]
        exact ih w ha
      · rw [if_neg hc]
        obtain ⟨hcache, r0, hr0, hmem⟩ := ha
        by_cases hp : p = pid
        · -- the provider itself: its own reference stays, so the set is not empty
          subst hp
          have hrefs : refs = r0 := by rw [hg] at hr0; exact Option.some.inj hr0
          subst hrefs
          have hmem' : p ∈ refs.filter (· ≠ rid) := by
            simp [List.mem_filter, hmem, Ne.symm h]
          have hne : (refs.filter (· ≠ rid)).isEmpty = false := by
            cases hf : refs.filter (· ≠ rid) with
            | nil => rw [hf] at hmem'; cases hmem'
            | cons a b => rfl
          rw [if_neg (by rw [hne]; exact Bool.false_ne_true)]
          apply ih
          exact ⟨hcache, _, alGet_alSet_same _ _ _, hmem'⟩
        · -- another provider: whatever happens to it does not touch `pid`
          have hA1 : Alive pid { w with provideRefs := alSet p (refs.filter (· ≠ rid)) w.provideRefs } :=
            ⟨hcache, r0, by simpa [alGet_alSet_ne _ _ _ _ hp] using hr0, hmem⟩
          by_cases he : (refs.filter (· ≠ rid)).isEmpty = true
          · rw [if_pos he]
            unfold popProvideCacheW
            by_cases hh : alHas p w.provideCache = true
            · simp only [hh, if_true]
              apply ih
              refine ⟨?_, r0, ?_, hmem⟩
              · simpa [alHas_alDel_ne _ _ _ hp] using hcache
              · simpa [alGet_alDel_ne _ _ _ hp, alGet_alSet_ne _ _ _ _ hp] using hr0
            · simp only [hh]
              exact hA1
          · rw [if_neg he]
            exact ih _ hA1

/-- the same for the whole `unregister_provide_reference` -/
theorem provider_survives_component_finish (pid rid : Nat) (h : rid ≠ pid) (w : World) (ha : Alive pid w) :
    Alive pid (unregisterRefW rid w).2 := by
  unfold unregisterRefW
  split
  · exact ha
  · exact provider_survives_unregister pid rid h _ _ ha

/-- entering a provider establishes `Alive` -/
theorem enter_provider_alive (pid : Nat) (payload : Layer) (w : World) :
    Alive pid (holdSelfW pid { w with provideCache := alSet pid payload w.provideCache }) := by
  unfold Alive holdSelfW
  refine ⟨by simp [alHas, alGet_alSet_same], _, alGet_alSet_same _ _ _, ?_⟩
  split <;> simp_all

/-- non-vacuity, and the scenario of the repaired defect: a component (id 2) registers under the
page-level provider (id 1) and finishes; the provider's data is still there for its sibling -/
example :
    let w0 : World := holdSelfW 1 { ({} : World) with provideCache := [(1, [])] }
    let ctx : Ctx := [[], [(injectPrefix ++ "pk".toList, .provRef 1)]]
    alHas 1 (unregisterRefW 2 (registerRefW ctx 2 w0)).2.provideCache = true := by decide

end Djc.Props.C05
