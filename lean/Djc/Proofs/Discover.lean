import Djc.Model.Discover
namespace Djc.Proofs.Discover
open Djc.Model.Discover

/-- a part is a plain module name: non-empty and without dots -/
def PlainPart (p : Part) : Prop := p ≠ [] ∧ '.' ∉ p

theorem hasDotDot_append_plain (p r : Part) (hp : '.' ∉ p) : hasDotDot (p ++ r) = hasDotDot r := by
  induction p with
  | nil => rfl
  | cons c cs ih =>
    have hc : c ≠ '.' := fun e => hp (e ▸ List.mem_cons_self)
    have hcs : '.' ∉ cs := fun h => hp (List.mem_cons_of_mem _ h)
    simp [hasDotDot, hc, ih hcs]

theorem hasDotDot_plain (p : Part) (hp : '.' ∉ p) : hasDotDot p = false := by
  have := hasDotDot_append_plain p [] hp
  simpa [hasDotDot] using this

theorem hasDotDot_dot_plain (q r : Part) (hq : PlainPart q) :
    hasDotDot ('.' :: (q ++ r)) = hasDotDot r := by
  obtain ⟨c, cs, rfl⟩ : ∃ c cs, q = c :: cs := by
    cases q with
    | nil => exact absurd rfl hq.1
    | cons c cs => exact ⟨c, cs, rfl⟩
  have hc : c ≠ '.' := fun e => hq.2 (e ▸ List.mem_cons_self)
  have h2 := hasDotDot_append_plain (c :: cs) r hq.2
  have hcb : (c == '.') = false := by simp [hc]
  simp only [List.cons_append] at h2 ⊢
  rw [← h2]
  simp [hasDotDot, startsWithC, hcb]

theorem hasDotDot_joinDots (ps : List Part) (h : ∀ p ∈ ps, PlainPart p) :
    hasDotDot (joinDots ps) = false := by
  induction ps with
  | nil => simp [joinDots, hasDotDot]
  | cons p ps ih =>
    cases ps with
    | nil => simpa [joinDots] using hasDotDot_plain p (h p (by simp)).2
    | cons q qs =>
      have ih' := ih (fun x hx => h x (by simp [hx]))
      have hq := h q (by simp)
      simp only [joinDots]
      rw [hasDotDot_append_plain p _ (h p (by simp)).2]
      cases qs with
      | nil =>
        simp only [joinDots]
        have := hasDotDot_dot_plain q [] hq
        simpa [hasDotDot] using this
      | cons r rs =>
        simp only [joinDots] at ih' ⊢
        rw [hasDotDot_dot_plain q _ hq]
        rw [hasDotDot_append_plain q _ hq.2] at ih'
        exact ih'

theorem startsWithC_take (c : Char) (s : Part) (n : Nat) (h : startsWithC c (s.take n) = true) :
    startsWithC c s = true := by
  cases s with
  | nil => simp [startsWithC] at h
  | cons d ds =>
    cases n with
    | zero => simp [startsWithC] at h
    | succ n => simpa [startsWithC] using h

theorem hasDotDot_take (s : Part) (n : Nat) (h : hasDotDot s = false) : hasDotDot (s.take n) = false := by
  induction s generalizing n with
  | nil => simp [hasDotDot]
  | cons c cs ih =>
    cases n with
    | zero => simp [hasDotDot]
    | succ n =>
      simp only [hasDotDot, Bool.or_eq_false_iff, Bool.and_eq_false_iff] at h
      simp only [List.take_succ_cons, hasDotDot, Bool.or_eq_false_iff, Bool.and_eq_false_iff]
      refine ⟨?_, ih n h.2⟩
      rcases h.1 with h1 | h1
      · exact Or.inl h1
      · right
        cases hs : startsWithC '.' (cs.take n) with
        | false => rfl
        | true => rw [startsWithC_take '.' cs n hs] at h1; cases h1

theorem idxOf?_reverse_plain_py (base : Part) (hb : '.' ∉ base) :
    (base ++ ".py".toList).reverse.idxOf? '.' = some 2 := by
  have : (base ++ ".py".toList).reverse = 'y' :: 'p' :: '.' :: base.reverse := by simp
  rw [this]
  simp [List.idxOf?, List.findIdx?_cons]

theorem stripLastSuffix_py (base : Part) (hb : PlainPart base) :
    stripLastSuffix (base ++ ".py".toList) = base := by
  unfold stripLastSuffix
  rw [idxOf?_reverse_plain_py base hb.2]
  have hlen : 0 < base.length := List.length_pos_iff.mpr hb.1
  have : (base ++ ".py".toList).length - 1 - 2 = base.length := by simp
  simp only [this]
  have : 0 < base.length ∧ (2 : Nat) ≠ 0 := ⟨hlen, by decide⟩
  simp [this]

theorem joinDots_snoc (ps : List Part) (l : Part) (h : ps ≠ []) :
    joinDots (ps ++ [l]) = joinDots ps ++ '.' :: l := by
  induction ps with
  | nil => exact absurd rfl h
  | cons p qs ih =>
    cases qs with
    | nil => simp [joinDots]
    | cons q rs =>
      have := ih (by simp)
      simp only [List.cons_append, joinDots] at this ⊢
      rw [this]; simp

theorem init_suffix_iff (x l : Part) (hl : '.' ∉ l) :
    initSuf <:+ x ++ '.' :: l ↔ l = "__init__".toList := by
  have hi : initSuf = '.' :: "__init__".toList := by decide
  rw [hi]
  constructor
  · intro h
    have h2 : ('.' :: l) <:+ x ++ '.' :: l := List.suffix_append _ _
    rcases List.suffix_or_suffix_of_suffix h h2 with h3 | h3
    · rcases List.suffix_cons_iff.mp h3 with h4 | h4
      · have := List.cons.inj h4; exact this.2.symm
      · exact absurd (h4.mem List.mem_cons_self) hl
    · rcases List.suffix_cons_iff.mp h3 with h4 | h4
      · have := List.cons.inj h4; exact this.2
      · exact absurd (h4.mem List.mem_cons_self) (by decide)
  · intro h; subst h
    exact List.suffix_append _ _

theorem dropInitSuffix_of_not_suffix (m : Part) (h : ¬ initSuf <:+ m) : dropInitSuffix m = m := by
  unfold dropInitSuffix
  have : initSuf.isSuffixOf m = false := by
    cases hs : initSuf.isSuffixOf m with
    | false => rfl
    | true => exact absurd (List.isSuffixOf_iff_suffix.mp hs) h
  rw [this]; rfl

theorem dropInitSuffix_append (x : Part) : dropInitSuffix (x ++ initSuf) = x := by
  unfold dropInitSuffix
  have : initSuf.isSuffixOf (x ++ initSuf) = true :=
    List.isSuffixOf_iff_suffix.mpr (List.suffix_append _ _)
  rw [this]
  simp only [if_true, List.length_append, Nat.add_sub_cancel]
  exact List.take_left' rfl

theorem rawDotPath_snoc (rm : Option Part) (above dirs : List Part) (name : Part) :
    rawDotPath rm above (dirs ++ [name]) =
      (match rm with
       | some r => r ++ '.' :: joinDots (above ++ dirs ++ [stripLastSuffix name])
       | none => joinDots (above ++ dirs ++ [stripLastSuffix name])) := by
  have hlast : (above ++ (dirs ++ [name])).getLast? = some name := by
    rw [← List.append_assoc]; simp
  have hdl : (above ++ (dirs ++ [name])).dropLast = above ++ dirs := by
    rw [← List.append_assoc]; simp
  unfold rawDotPath
  simp only [hlast, hdl]
  cases rm <;> rfl

/-! ### the dotted path determines the file (injectivity on plain modules) -/

theorem split_dot : ∀ (p q r s : Part), '.' ∉ p → '.' ∉ q →
    p ++ '.' :: r = q ++ '.' :: s → p = q ∧ r = s := by
  intro p
  induction p with
  | nil =>
    intro q r s _ hq h
    cases q with
    | nil => simpa using h
    | cons d ds =>
      simp at h
      exact absurd h.1 (fun e => hq (e ▸ List.mem_cons_self))
  | cons c cs ih =>
    intro q r s hp hq h
    cases q with
    | nil =>
      simp at h
      exact absurd h.1.symm (fun e => hp (e ▸ List.mem_cons_self))
    | cons d ds =>
      simp only [List.cons_append, List.cons.injEq] at h
      have := ih ds r s (fun m => hp (List.mem_cons_of_mem _ m))
        (fun m => hq (List.mem_cons_of_mem _ m)) h.2
      exact ⟨by rw [h.1, this.1], this.2⟩

theorem joinDots_ne_nil (p : Part) (ps : List Part) (hp : p ≠ []) : joinDots (p :: ps) ≠ [] := by
  cases ps with
  | nil => simpa [joinDots] using hp
  | cons q qs => simp [joinDots, hp]

/-- Joining dot-free non-empty parts by dots loses nothing: the parts can be read back. -/
theorem joinDots_injective : ∀ (ps qs : List Part), (∀ p ∈ ps, PlainPart p) →
    (∀ q ∈ qs, PlainPart q) → joinDots ps = joinDots qs → ps = qs := by
  intro ps
  induction ps with
  | nil =>
    intro qs _ hq h
    cases qs with
    | nil => rfl
    | cons q qs => exact absurd h.symm (joinDots_ne_nil q qs (hq q (by simp)).1)
  | cons p ps ih =>
    intro qs hp hq h
    cases qs with
    | nil => exact absurd h (joinDots_ne_nil p ps (hp p (by simp)).1)
    | cons q qs =>
      have hpp := hp p (by simp)
      have hqq := hq q (by simp)
      cases ps with
      | nil =>
        cases qs with
        | nil => simp [joinDots] at h; rw [h]
        | cons q' qs' =>
          simp only [joinDots] at h
          exact absurd (h ▸ (by simp : '.' ∈ q ++ '.' :: joinDots (q' :: qs'))) hpp.2
      | cons p' ps' =>
        cases qs with
        | nil =>
          simp only [joinDots] at h
          exact absurd (h ▸ (by simp : '.' ∈ p ++ '.' :: joinDots (p' :: ps'))) hqq.2
        | cons q' qs' =>
          simp only [joinDots] at h
          have := split_dot p q _ _ hpp.2 hqq.2 h
          have ht := ih (q' :: qs') (fun x hx => hp x (List.mem_cons_of_mem _ hx))
            (fun x hx => hq x (List.mem_cons_of_mem _ hx)) this.2
          rw [this.1, ht]
end Djc.Proofs.Discover
