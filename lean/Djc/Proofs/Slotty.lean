/-
  The slot fragment: the plain fragment plus `{% slot %}` tags that are not flagged `default`, rendered for an
  instance that received no fills — every slot shows its own default content (or raises, when it is `required`).
  One reference interpreter `qNodes two`, where `two` says whether a slot tag spends two levels of fuel (the model
  of the code: `SlotNode.render` is a function of its own) or one (the reading).
-/
import Djc.Proofs.LeafSpec
namespace Djc.Proofs.Slotty
open Djc.Tpl Djc.Render Djc.Proofs.Plain Djc.Proofs.Calm Djc.Proofs.Leaf Djc.Proofs.Render

/-! ### the fragment -/

mutual
  def slotty : Node → Bool
    | .text _ => true
    | .out _ => true
    | .ifn _ t e => slottyL t && slottyL e
    | .forn _ _ b => slottyL b
    | .withn _ _ b => slottyL b
    | .elem _ b => slottyL b
    | .slot _ isDefault _ _ b => !isDefault && slottyL b
    | _ => false
  def slottyL : List Node → Bool
    | [] => true
    | nd :: rest => slotty nd && slottyL rest
end

mutual
  /-- every expression starts from a name a template can use -/
  def okS : Node → Bool
    | .text _ => true
    | .out e => okExpr e
    | .ifn c t e => okExpr c && okSL t && okSL e
    | .forn x e b => !internal x && okExpr e && okSL b
    | .withn x e b => !internal x && okExpr e && okSL b
    | .elem _ b => okSL b
    | .slot nameE _ _ data b => okExpr nameE && data.all (fun kv => okExpr kv.2) && okSL b
    | _ => true
  def okSL : List Node → Bool
    | [] => true
    | nd :: rest => okS nd && okSL rest
end

/-- what stops an unfilled slot before its default content renders, in the order both interpreters test it -/
def slotGate (ctx : Ctx) (nameE : Expr) (isRequired : Bool) (data : List (Str × Expr)) : Option Err :=
  if (evalKwargs ctx data).any (fun kv => tooDeep 10 kv.2) then some .budget
  else if !hashable (evalExpr ctx nameE) then some (.typeError "unhashable slot name")
  else if isRequired then some (.tse "required slot not filled")
  else none

mutual
  def qNodes (two : Bool) (mx : Nat) : Nat → List Node → Ctx → Nat → PR
    | 0, _, _, st => (.error .outOfFuel, st)
    | _ + 1, [], _, st => (.ok [], st)
    | n + 1, nd :: rest, ctx, st =>
      pbind (qNode two mx n nd ctx st) fun a st1 =>
      pbind (qNodes two mx n rest ctx st1) fun b st2 => (.ok (a ++ b), st2)

  def qFor (two : Bool) (mx : Nat) : Nat → Str → List Val → Nat → List Node → Ctx → Nat → PR
    | 0, _, _, _, _, _, st => (.error .outOfFuel, st)
    | _ + 1, _, [], _, _, _, st => (.ok [], st)
    | n + 1, x, item :: items, i, body, ctx, st =>
      pbind (qNodes two mx n body (ctx ++ [forLayer ctx x i item]) st) fun a st1 =>
      pbind (qFor two mx n x items (i + 1) body ctx st1) fun b st2 => (.ok (a ++ b), st2)

  def qNode (two : Bool) (mx : Nat) : Nat → Node → Ctx → Nat → PR
    | 0, _, _, st => (.error .outOfFuel, st)
    | n + 1, nd, ctx, st =>
      if st ≥ mx then (.error .budget, st) else
      match nd with
      | .text s => (.ok [.text s], st + 1)
      | .out e => (.ok [.text (pyStr (evalExpr ctx e))], st + 1)
      | .ifn c t e => if truthy (evalExpr ctx c) then qNodes two mx n t ctx (st + 1) else qNodes two mx n e ctx (st + 1)
      | .forn x e body => qFor two mx n x (iterVals (evalExpr ctx e)) 0 body ctx (st + 1)
      | .withn x e body => qNodes two mx n body (ctx ++ [[(x, evalExpr ctx e)]]) (st + 1)
      | .elem tag body =>
        pbind (qNodes two mx n body ctx (st + 1)) fun inner st' => (.ok ([.opn tag []] ++ inner ++ [.cls tag]), st')
      | .slot nameE _ isRequired data body =>
        if two then
          match n with
          | 0 => (.error .outOfFuel, st + 1)
          | m + 1 =>
            match slotGate ctx nameE isRequired data with
            | some e => (.error e, st + 1)
            | none => qNodes two mx m body ctx (st + 1)
        else
          match slotGate ctx nameE isRequired data with
          | some e => (.error e, st + 1)
          | none => qNodes two mx n body ctx (st + 1)
      | _ => (.error (.runtime "not in the fragment"), st + 1)
end

/-! ### layers that hold provider keys only -/

theorem setL_free (k : Str) (v : Val) : ∀ (l : Layer), slotFreeKvs l = true → slotFree v = true → slotFreeKvs (setL k v l) = true
  | [], _, hv => by simp [setL, slotFreeKvs, hv]
  | (k', v') :: rest, hl, hv => by
    simp only [slotFreeKvs, Bool.and_eq_true] at hl
    simp only [setL]
    split
    · simp [slotFreeKvs, hv, hl.2]
    · simp [slotFreeKvs, hl.1, setL_free k v rest hl.2 hv]

theorem updateL_free : ∀ (o d : Layer), slotFreeKvs d = true → slotFreeKvs o = true → slotFreeKvs (updateL d o) = true
  | [], d, hd, _ => by simpa [updateL] using hd
  | (k, v) :: rest, d, hd, ho => by
    simp only [slotFreeKvs, Bool.and_eq_true] at ho
    have := updateL_free rest (setL k v d) (setL_free k v d hd ho.1) ho.2
    simpa [updateL] using this

theorem flatten_free (ctx : Ctx) (h : ctxFree ctx = true) : slotFreeKvs (flatten ctx) = true := by
  unfold flatten
  have gen : ∀ (c : Ctx) (acc : Layer), ctxFree c = true → slotFreeKvs acc = true → slotFreeKvs (c.foldl updateL acc) = true := by
    intro c
    induction c with
    | nil => intro acc _ ha; simpa using ha
    | cons l rest ih =>
      intro acc hc ha
      simp only [ctxFree, List.all_cons, Bool.and_eq_true] at hc
      simp only [List.foldl_cons]
      exact ih _ (by simpa [ctxFree] using hc.2) (updateL_free l acc ha hc.1)
  exact gen ctx [] h rfl

theorem filter_free (p : Str × Val → Bool) : ∀ (l : Layer), slotFreeKvs l = true → slotFreeKvs (l.filter p) = true
  | [], _ => rfl
  | (k, v) :: rest, h => by
    simp only [slotFreeKvs, Bool.and_eq_true] at h
    simp only [List.filter_cons]
    split
    · simp [slotFreeKvs, h.1, filter_free p rest h.2]
    · exact filter_free p rest h.2

theorem injectKeys_free (ctx : Ctx) (h : ctxFree ctx = true) : slotFreeKvs (injectKeysOf ctx) = true :=
  filter_free _ _ (flatten_free ctx h)

theorem keys_setL (k : Str) (v : Val) : ∀ (l : Layer) (x : Str), lookupL x (setL k v l) ≠ none → x = k ∨ lookupL x l ≠ none
  | [], x, h => by
    simp only [setL, lookupL] at h
    split at h
    · rename_i e; exact Or.inl e.symm
    · exact absurd rfl h
  | (k', v') :: rest, x, h => by
    simp only [setL] at h
    split at h
    · rename_i e
      subst e
      simp only [lookupL] at h ⊢
      split at h
      · rename_i e2; exact Or.inl e2.symm
      · rename_i e2; right; simp [e2]; exact h
    · rename_i e
      simp only [lookupL] at h ⊢
      split at h
      · rename_i e2; right; simp [e2]
      · rename_i e2
        rcases keys_setL k v rest x h with h1 | h1
        · exact Or.inl h1
        · right; simp [e2]; exact h1

theorem keys_updateL : ∀ (o d : Layer) (x : Str), lookupL x (updateL d o) ≠ none → lookupL x d ≠ none ∨ ∃ kv ∈ o, kv.1 = x
  | [], d, x, h => by left; simpa [updateL] using h
  | (k, v) :: rest, d, x, h => by
    have h' : lookupL x (updateL (setL k v d) rest) ≠ none := by simpa [updateL] using h
    rcases keys_updateL rest (setL k v d) x h' with h1 | ⟨kv, hkv, e⟩
    · rcases keys_setL k v d x h1 with h2 | h2
      · exact Or.inr ⟨(k, v), List.mem_cons_self .., h2.symm⟩
      · exact Or.inl h2
    · exact Or.inr ⟨kv, List.mem_cons_of_mem _ hkv, e⟩

/-- the layer `SlotNode.render` pushes for an instance without an enclosing component: provider keys only -/
theorem extra_lookup (ctx : Ctx) (x : Str) (hx : startsWith injectPrefix x = false) :
    lookupL x (updateL [] (injectKeysOf ctx)) = none := by
  cases h : lookupL x (updateL [] (injectKeysOf ctx)) with
  | none => rfl
  | some v =>
    exfalso
    rcases keys_updateL (injectKeysOf ctx) [] x (by rw [h]; simp) with h1 | ⟨kv, hkv, e⟩
    · simp [lookupL] at h1
    · have := injectKeys_prefixed ctx kv hkv
      rw [e, hx] at this; cases this

/-! ### the model of the code on the slot fragment -/

/-- every key but the provider keys resolves alike -/
def SameNI (a b : Ctx) : Prop := ∀ k, startsWith injectPrefix k = false → ctxGet a k = ctxGet b k

theorem notInject_of_usable (k : Str) (h : internal k = false) : startsWith injectPrefix k = false := by
  cases k with
  | nil => rfl
  | cons c rest =>
    cases hs : startsWith injectPrefix (c :: rest) with
    | false => rfl
    | true =>
      simp only [startsWith, injectPrefix, List.isPrefixOf, Bool.and_eq_true, beq_iff_eq] at hs
      simp only [internal, ← hs.1] at h
      revert h; decide

theorem sameVars_of_sameNI (a b : Ctx) (h : SameNI a b) : SameVars a b := fun k hk => h k (notInject_of_usable k hk)

theorem sameNI_push (a b : Ctx) (l : Layer) (h : SameNI a b) : SameNI (a ++ [l]) (b ++ [l]) := by
  intro k hk
  rw [ctxGet_append_one, ctxGet_append_one, h k hk]

theorem ctxGet_nil_cons (B : Ctx) (k : Str) : ctxGet ([] :: B) k = ctxGet B k := by
  unfold ctxGet; rfl

theorem ctxGet_insert_empty (i : Nat) (c : Ctx) (k : Str) : ctxGet (insertAt i [] c) k = ctxGet c k := by
  have : insertAt i ([] : Layer) c = c.take i ++ ([] :: c.drop i) := by simp [insertAt]
  rw [this, ctxGet_append, ctxGet_nil_cons, ← ctxGet_append, List.take_append_drop]

theorem ctxFree_insert_empty (i : Nat) (c : Ctx) (h : ctxFree c = true) : ctxFree (insertAt i [] c) = true := by
  have : insertAt i ([] : Layer) c = c.take i ++ ([] :: c.drop i) := by simp [insertAt]
  rw [this]
  simp only [ctxFree, List.all_append, List.all_cons, slotFreeKvs, Bool.true_and, Bool.and_eq_true]
  have hall : ∀ x ∈ c, slotFreeKvs x = true := by simpa [ctxFree] using h
  simp only [List.all_eq_true]
  exact ⟨fun x hx => hall x (List.mem_of_mem_take hx), fun x hx => hall x (List.mem_of_mem_drop hx)⟩

/-- the context `SlotNode.render` renders default content in, against the context at the slot tag -/
theorem slot_ctx_sameNI (mc c0 : Ctx) (i : Nat) (h : SameNI mc c0) :
    SameNI (insertAt i [] (mc ++ [updateL [] (injectKeysOf mc)])) c0 := by
  intro k hk
  rw [ctxGet_insert_empty, ctxGet_append_one, extra_lookup mc k hk]
  exact h k hk

theorem slot_ctx_free (mc : Ctx) (i : Nat) (h : ctxFree mc = true) :
    ctxFree (insertAt i [] (mc ++ [updateL [] (injectKeysOf mc)])) = true :=
  ctxFree_insert_empty _ _ (ctxFree_push mc _ h (updateL_free _ _ rfl (injectKeys_free mc h)))

/-- the clean context knows its instance and is not a fill-extraction context -/
def CInv (cid : Nat) (c0 : Ctx) : Prop := ctxGet c0 compKey = some (.compRef cid) ∧ ctxGet c0 fillGenKey = none

theorem cinv_push (cid : Nat) (c0 : Ctx) (l : Layer) (h : CInv cid c0) (hl : ∀ k, internal k = true → lookupL k l = none) :
    CInv cid (c0 ++ [l]) := by
  constructor
  · rw [ctxGet_append_one, hl compKey (by decide)]; exact h.1
  · rw [ctxGet_append_one, hl fillGenKey (by decide)]; exact h.2

theorem forLayer_internal (c : Ctx) (x : Str) (i : Nat) (item : Val) (hx : internal x = false) :
    ∀ k, internal k = true → lookupL k (forLayer c x i item) = none := by
  intro k hk
  have h1 : ¬ forloopKey = k := by intro e; subst e; revert hk; decide
  have h2 : ¬ x = k := by intro e; subst e; rw [hx] at hk; cases hk
  simp [forLayer, lookupL, h1, h2]

theorem withLayer_internal (x : Str) (v : Val) (hx : internal x = false) :
    ∀ k, internal k = true → lookupL k [(x, v)] = none := by
  intro k hk
  have h2 : ¬ x = k := by intro e; subst e; rw [hx] at hk; cases hk
  simp [lookupL, h2]

/-- the instance whose template is being rendered: no fills, not the dynamic component, rendered from a template
in which no component encloses the tag -/
structure Unfilled (cc : CompCtx) : Prop where
  fills : cc.fills = []
  notDyn : cc.isDyn = false
  outer : ∃ oc, cc.outer = some oc ∧ ctxGet oc compKey = none

theorem model_slotty (env : Env) (cid : Nat) (cc : CompCtx) (hcc : Unfilled cc) : ∀ n,
    (∀ nodes mc c0 w, slottyL nodes = true → okSL nodes = true → ctxFree mc = true → SameNI mc c0 → CInv cid c0 →
      alGet cid w.ctxCache = some cc →
      (renderNodes env n nodes mc).run.run w = asWorld w (qNodes true env.maxSteps n nodes c0 w.steps)) ∧
    (∀ x items i body mc c0 w, slottyL body = true → okSL body = true → internal x = false → ctxFree mc = true → SameNI mc c0 →
      CInv cid c0 → alGet cid w.ctxCache = some cc → (∀ it ∈ items, slotFree it = true) →
      (renderFor env n x items i body mc).run.run w = asWorld w (qFor true env.maxSteps n x items i body c0 w.steps)) ∧
    (∀ nd mc c0 w, slotty nd = true → okS nd = true → ctxFree mc = true → SameNI mc c0 → CInv cid c0 →
      alGet cid w.ctxCache = some cc →
      (renderNode env n nd mc).run.run w = asWorld w (qNode true env.maxSteps n nd c0 w.steps)) := by
  intro n
  induction n using Nat.strongRecOn with
  | _ n ihAll =>
  cases n with
  | zero =>
    refine ⟨?_, ?_, ?_⟩
    · intro nodes mc c0 w _ _ _ _ _ _; simp only [renderNodes, qNodes, run_throw]; rfl
    · intro x items i body mc c0 w _ _ _ _ _ _ _ _; simp only [renderFor, qFor, run_throw]; rfl
    · intro nd mc c0 w _ _ _ _ _ _; simp only [renderNode, qNode, run_throw]; rfl
  | succ n =>
    obtain ⟨ihN, ihF, ihD⟩ := ihAll n (Nat.lt_succ_self n)
    have ihN' : ∀ nodes mc c0 w st, slottyL nodes = true → okSL nodes = true → ctxFree mc = true → SameNI mc c0 → CInv cid c0 →
        alGet cid w.ctxCache = some cc →
        (renderNodes env n nodes mc).run.run (setSteps w st) = asWorld w (qNodes true env.maxSteps n nodes c0 st) := by
      intro nodes mc c0 w st hp ho hc hs hi hw; simpa using ihN nodes mc c0 (setSteps w st) hp ho hc hs hi hw
    have ihF' : ∀ x items i body mc c0 w st, slottyL body = true → okSL body = true → internal x = false → ctxFree mc = true →
        SameNI mc c0 → CInv cid c0 → alGet cid w.ctxCache = some cc → (∀ it ∈ items, slotFree it = true) →
        (renderFor env n x items i body mc).run.run (setSteps w st) = asWorld w (qFor true env.maxSteps n x items i body c0 st) := by
      intro x items i body mc c0 w st hp ho hx hc hs hi hw hit
      simpa using ihF x items i body mc c0 (setSteps w st) hp ho hx hc hs hi hw hit
    refine ⟨?_, ?_, ?_⟩
    · intro nodes mc c0 w hp ho hc hs hi hw
      cases nodes with
      | nil => simp only [renderNodes, qNodes, run_pure]; rfl
      | cons nd rest =>
        simp only [slottyL, okSL, Bool.and_eq_true] at hp ho
        simp only [renderNodes, qNodes]
        refine run_bind_as _ _ _ _ _ (ihD nd mc c0 w hp.1 ho.1 hc hs hi hw) ?_
        intro a st1
        refine run_bind_as _ _ _ _ _ (ihN' rest mc c0 w st1 hp.2 ho.2 hc hs hi hw) ?_
        intro b st2
        rfl
    · intro x items i body mc c0 w hp ho hx hc hs hi hw hit
      cases items with
      | nil => simp only [renderFor, qFor, run_pure]; rfl
      | cons item items =>
        simp only [renderFor, qFor]
        have hitem := hit item (List.mem_cons_self ..)
        have hfl : forLayer mc x i item = forLayer c0 x i item := by
          unfold forLayer; rw [hs forloopKey (by decide)]
        have h1 := ihN body (mc ++ [forLayer mc x i item]) (c0 ++ [forLayer c0 x i item]) w hp ho
          (ctxFree_push mc _ hc (forLayer_free mc x i item hc hitem))
          (by rw [hfl]; exact sameNI_push mc c0 _ hs) (cinv_push cid c0 _ hi (forLayer_internal c0 x i item hx)) hw
        refine run_bind_as _ _ _ _ _ h1 ?_
        intro a st1
        refine run_bind_as _ _ _ _ _ (ihF' x items (i + 1) body mc c0 w st1 hp ho hx hc hs hi hw (fun it h => hit it (List.mem_cons_of_mem _ h))) ?_
        intro b st2
        rfl
    · intro nd mc c0 w hp ho hc hs hi hw
      have hsv := sameVars_of_sameNI mc c0 hs
      unfold renderNode qNode
      simp only [run_bind, run_get]
      by_cases hst : w.steps ≥ env.maxSteps
      · simp only [hst, if_true, run_bind, run_throw]; rfl
      · simp only [hst, if_false, run_bind, run_set]
        cases nd with
        | text s => rfl
        | out e =>
          simp only [okS] at ho
          have hv := evalExpr_free mc e hc
          have hE := evalExpr_same mc c0 e hsv ho
          simp only [← hE]
          cases hev : evalExpr mc e <;> simp only [hev, slotFree] at hv ⊢ <;> first | rfl | cases hv
        | ifn c t e =>
          simp only [slotty, okS, Bool.and_eq_true] at hp ho
          simp only [← evalExpr_same mc c0 c hsv ho.1.1]
          split
          · exact ihN' t mc c0 w _ hp.1 ho.1.2 hc hs hi hw
          · exact ihN' e mc c0 w _ hp.2 ho.2 hc hs hi hw
        | forn x e body =>
          simp only [slotty, okS, Bool.and_eq_true, Bool.not_eq_true'] at hp ho
          simp only [← evalExpr_same mc c0 e hsv ho.1.2]
          exact ihF' x _ 0 body mc c0 w _ hp ho.2 ho.1.1 hc hs hi hw (iterVals_free _ (evalExpr_free mc e hc))
        | withn x e body =>
          simp only [slotty, okS, Bool.and_eq_true, Bool.not_eq_true'] at hp ho
          simp only [← evalExpr_same mc c0 e hsv ho.1.2]
          refine ihN' body _ _ w _ hp ho.2 (ctxFree_push mc _ hc ?_) (sameNI_push mc c0 _ hs)
            (cinv_push cid c0 _ hi (withLayer_internal x _ ho.1.1)) hw
          simp [slotFreeKvs, evalExpr_free mc e hc]
        | elem tag body =>
          simp only [slotty, okS] at hp ho
          refine run_bind_as _ _ _ _ _ (ihN' body mc c0 w _ hp ho hc hs hi hw) ?_
          intro a st1
          rfl
        | slot nameE isDefault isRequired data body =>
          simp only [slotty, okS, Bool.and_eq_true, Bool.not_eq_true'] at hp ho
          simp only [↓reduceIte]
          cases n with
          | zero => simp only [renderSlot, run_throw]; rfl
          | succ m =>
            obtain ⟨ihNm, _, _⟩ := ihAll m (by omega)
            obtain ⟨oc, hoc, hocK⟩ := hcc.outer
            have hname : evalExpr mc nameE = evalExpr c0 nameE := evalExpr_same mc c0 nameE hsv ho.1.1
            have hdata : evalKwargs mc data = evalKwargs c0 data := by
              unfold evalKwargs
              apply List.map_congr_left
              intro kv hkv
              have := List.all_eq_true.mp ho.1.2 kv hkv
              rw [evalExpr_same mc c0 kv.2 hsv this]
            have hext : isExtracting mc = false := by
              unfold isExtracting ctxHas
              rw [hs fillGenKey (by decide), hi.2]; rfl
            have hcid : ctxGet mc compKey = some (.compRef cid) := by rw [hs compKey (by decide)]; exact hi.1
            have hfacts : cc.fills = [] ∧ cc.isDyn = false ∧ cc.outer = some oc := ⟨hcc.fills, hcc.notDyn, hoc⟩
            unfold renderSlot
            simp only [hname, hdata]
            by_cases hdeep : ((evalKwargs c0 data).any fun kv => tooDeep 10 kv.2) = true
            · simp only [hdeep, ↓reduceIte, run_bind, run_throw, slotGate]; rfl
            · simp only [hdeep, Bool.false_eq_true, ↓reduceIte, run_bind, run_pure, hext, hcid, run_get, hw, hfacts.1, hfacts.2.1,
                hfacts.2.2, hp.1, slotChecks, chooseFillName, Bool.false_and, sGet, ne_eq, not_true_eq_false, Option.isNone_some,
                Bool.and_false, slotGate]
              by_cases hhash : (!hashable (evalExpr c0 nameE)) = true
              · simp only [hhash, ↓reduceIte, run_bind, run_throw]; rfl
              · simp only [hhash, Bool.false_eq_true, ↓reduceIte, run_bind, run_pure, run_get, requiredCheck, Option.isNone_none,
                  Bool.and_true, Bool.not_false]
                cases hreq : isRequired with
                | true => simp only [↓reduceIte, run_throw]; rfl
                | false =>
                  simp only [Bool.false_eq_true, ↓reduceIte, run_pure, hocK, Option.getD_none]
                  simp only [ite_self]
                  have hfin : ∀ j, (renderNodes env m body (insertAt j [] (mc ++ [updateL [] (injectKeysOf mc)]))).run.run
                      (setSteps w (w.steps + 1)) = asWorld w (qNodes true env.maxSteps m body c0 (w.steps + 1)) := by
                    intro j
                    have := ihNm body (insertAt j [] (mc ++ [updateL [] (injectKeysOf mc)])) c0 (setSteps w (w.steps + 1)) hp.2 ho.2
                      (slot_ctx_free mc j hc) (slot_ctx_sameNI mc c0 j hs) hi hw
                    simpa using this
                  split
                  · exact hfin _
                  · exact hfin _
        | _ => simp [slotty] at hp

/-! ### the reading of the properties on the slot fragment -/

open Djc.SpecRender in
@[simp] theorem push_inst (e : SEnv) (l : Layer) : (e.push l).inst = e.inst := by cases e; rfl

open Djc.SpecRender in
theorem spec_slotty (env : Env) (inst : Inst) (hinst : inst.fills = []) : ∀ n,
    (∀ nodes (e : SEnv) s, slottyL nodes = true → ctxFree e.vars = true → e.inst = some inst →
      (sNodes env n nodes e).run s = asSpec s (qNodes false env.maxSteps n nodes e.vars s.steps)) ∧
    (∀ x items i body (e : SEnv) s, slottyL body = true → ctxFree e.vars = true → e.inst = some inst → (∀ it ∈ items, slotFree it = true) →
      (sFor env n x items i body e).run s = asSpec s (qFor false env.maxSteps n x items i body e.vars s.steps)) ∧
    (∀ nd (e : SEnv) s, slotty nd = true → ctxFree e.vars = true → e.inst = some inst →
      (sNode env n nd e).run s = asSpec s (qNode false env.maxSteps n nd e.vars s.steps)) := by
  intro n
  induction n with
  | zero =>
    refine ⟨?_, ?_, ?_⟩
    · intro nodes e s _ _ _; simp only [sNodes, qNodes, srun_throw]; rfl
    · intro x items i body e s _ _ _ _; simp only [sFor, qFor, srun_throw]; rfl
    · intro nd e s _ _ _; simp only [sNode, qNode, srun_throw]; rfl
  | succ n ih =>
    obtain ⟨ihN, ihF, ihD⟩ := ih
    have ihN' : ∀ nodes (e : SEnv) s st, slottyL nodes = true → ctxFree e.vars = true → e.inst = some inst →
        (sNodes env n nodes e).run (setStepsS s st) = asSpec s (qNodes false env.maxSteps n nodes e.vars st) := by
      intro nodes e s st hp hc hi; simpa using ihN nodes e (setStepsS s st) hp hc hi
    have ihF' : ∀ x items i body (e : SEnv) s st, slottyL body = true → ctxFree e.vars = true → e.inst = some inst →
        (∀ it ∈ items, slotFree it = true) →
        (sFor env n x items i body e).run (setStepsS s st) = asSpec s (qFor false env.maxSteps n x items i body e.vars st) := by
      intro x items i body e s st hp hc hi hit; simpa using ihF x items i body e (setStepsS s st) hp hc hi hit
    refine ⟨?_, ?_, ?_⟩
    · intro nodes e s hp hc hi
      cases nodes with
      | nil => simp only [sNodes, qNodes, srun_pure]; rfl
      | cons nd rest =>
        simp only [slottyL, Bool.and_eq_true] at hp
        simp only [sNodes, qNodes]
        refine srun_bind_as _ _ _ _ _ (ihD nd e s hp.1 hc hi) ?_
        intro a st1
        refine srun_bind_as _ _ _ _ _ (ihN' rest e s st1 hp.2 hc hi) ?_
        intro b st2
        rfl
    · intro x items i body e s hp hc hi hit
      cases items with
      | nil => simp only [sFor, qFor, srun_pure]; rfl
      | cons item items =>
        simp only [sFor, qFor]
        have hitem := hit item (List.mem_cons_self ..)
        have h1 := ihN body (e.push (forLayer e.vars x i item)) s hp
          (by rw [push_vars]; exact ctxFree_push e.vars _ hc (forLayer_free e.vars x i item hc hitem)) (by rw [push_inst]; exact hi)
        rw [push_vars] at h1
        refine srun_bind_as _ _ _ _ _ h1 ?_
        intro a st1
        refine srun_bind_as _ _ _ _ _ (ihF' x items (i + 1) body e s st1 hp hc hi (fun it h => hit it (List.mem_cons_of_mem _ h))) ?_
        intro b st2
        rfl
    · intro nd e s hp hc hi
      unfold sNode qNode
      simp only [srun_bind, srun_get]
      by_cases hst : s.steps ≥ env.maxSteps
      · simp only [hst, if_true, srun_bind, srun_throw]; rfl
      · simp only [hst, if_false, srun_bind, srun_set]
        cases nd with
        | text s => rfl
        | out ex =>
          have hv := evalExpr_free e.vars ex hc
          simp only
          cases hev : evalExpr e.vars ex <;> simp only [hev, slotFree] at hv ⊢ <;> first | rfl | cases hv
        | ifn c t el =>
          simp only [slotty, Bool.and_eq_true] at hp
          simp only
          split
          · exact ihN' t e s _ hp.1 hc hi
          · exact ihN' el e s _ hp.2 hc hi
        | forn x ex body =>
          simp only [slotty] at hp
          exact ihF' x _ 0 body e s _ hp hc hi (iterVals_free _ (evalExpr_free e.vars ex hc))
        | withn x ex body =>
          simp only [slotty] at hp
          have h1 := ihN' body (e.push [(x, evalExpr e.vars ex)]) s (s.steps + 1) hp
            (by rw [push_vars]; exact ctxFree_push e.vars _ hc (by simp [slotFreeKvs, evalExpr_free e.vars ex hc]))
            (by rw [push_inst]; exact hi)
          rw [push_vars] at h1
          exact h1
        | elem tag body =>
          simp only [slotty] at hp
          refine srun_bind_as _ _ _ _ _ (ihN' body e s _ hp hc hi) ?_
          intro a st1
          rfl
        | slot nameE isDefault isRequired data body =>
          simp only [slotty, Bool.and_eq_true, Bool.not_eq_true'] at hp
          simp only [Bool.false_eq_true, ↓reduceIte, slotGate]
          by_cases hdeep : ((evalKwargs e.vars data).any fun kv => tooDeep 10 kv.2) = true
          · simp only [hdeep, ↓reduceIte, srun_bind, srun_throw]; rfl
          · simp only [hdeep, Bool.false_eq_true, ↓reduceIte, srun_bind, srun_pure, hi, hp.1, Bool.false_and]
            by_cases hhash : (!hashable (evalExpr e.vars nameE)) = true
            · simp only [hhash, ↓reduceIte, srun_bind, srun_throw]; rfl
            · simp only [hhash, Bool.false_eq_true, ↓reduceIte, srun_bind, srun_pure, hinst, cGet]
              cases hreq : isRequired with
              | true => simp only [↓reduceIte, srun_throw]; rfl
              | false =>
                simp only [Bool.false_eq_true, ↓reduceIte]
                exact ihN' body e s _ hp.2 hc hi
        | _ => simp [slotty] at hp

/-! ### the reference interpreter: usable names, placeholders, fuel -/

open Djc.Proofs.LeafSpec

theorem slotGate_same (a b : Ctx) (nameE : Expr) (req : Bool) (data : List (Str × Expr)) (hs : SameVars a b)
    (h1 : okExpr nameE = true) (h2 : data.all (fun kv => okExpr kv.2) = true) :
    slotGate a nameE req data = slotGate b nameE req data := by
  have hdata : evalKwargs a data = evalKwargs b data := by
    unfold evalKwargs
    apply List.map_congr_left
    intro kv hkv
    rw [evalExpr_same a b kv.2 hs (List.all_eq_true.mp h2 kv hkv)]
  unfold slotGate
  rw [hdata, evalExpr_same a b nameE hs h1]

theorem qNodes_same (two : Bool) (mx : Nat) : ∀ n,
    (∀ nodes a b st, slottyL nodes = true → okSL nodes = true → SameVars a b → qNodes two mx n nodes a st = qNodes two mx n nodes b st) ∧
    (∀ x items i body a b st, slottyL body = true → okSL body = true → SameVars a b →
      qFor two mx n x items i body a st = qFor two mx n x items i body b st) ∧
    (∀ nd a b st, slotty nd = true → okS nd = true → SameVars a b → qNode two mx n nd a st = qNode two mx n nd b st) := by
  intro n
  induction n using Nat.strongRecOn with
  | _ n ihAll =>
  cases n with
  | zero =>
    refine ⟨?_, ?_, ?_⟩
    · intro nodes a b st _ _ _; simp only [qNodes]
    · intro x items i body a b st _ _ _; simp only [qFor]
    · intro nd a b st _ _ _; simp only [qNode]
  | succ n =>
    obtain ⟨ihN, ihF, ihD⟩ := ihAll n (Nat.lt_succ_self n)
    refine ⟨?_, ?_, ?_⟩
    · intro nodes a b st hp ho hs
      cases nodes with
      | nil => simp only [qNodes]
      | cons nd rest =>
        simp only [slottyL, okSL, Bool.and_eq_true] at hp ho
        simp only [qNodes, ihD nd a b st hp.1 ho.1 hs]
        congr 1
        funext t st1
        rw [ihN rest a b st1 hp.2 ho.2 hs]
    · intro x items i body a b st hp ho hs
      cases items with
      | nil => simp only [qFor]
      | cons item items =>
        simp only [qFor, forLayer_same a b x i item hs,
          ihN body (a ++ [forLayer b x i item]) (b ++ [forLayer b x i item]) st hp ho (sameVars_push a b _ hs)]
        congr 1
        funext t st1
        rw [ihF x items (i + 1) body a b st1 hp ho hs]
    · intro nd a b st hp ho hs
      unfold qNode
      by_cases hst : st ≥ mx
      · simp [hst]
      · simp only [hst, ↓reduceIte]
        cases nd with
        | text s => rfl
        | out e => simp only [okS] at ho; simp only [evalExpr_same a b e hs ho]
        | ifn c t e =>
          simp only [slotty, okS, Bool.and_eq_true] at hp ho
          simp only [evalExpr_same a b c hs ho.1.1, ihN t a b _ hp.1 ho.1.2 hs, ihN e a b _ hp.2 ho.2 hs]
        | forn x e body =>
          simp only [slotty, okS, Bool.and_eq_true] at hp ho
          simp only [evalExpr_same a b e hs ho.1.2, ihF x _ 0 body a b _ hp ho.2 hs]
        | withn x e body =>
          simp only [slotty, okS, Bool.and_eq_true] at hp ho
          simp only [evalExpr_same a b e hs ho.1.2]
          exact ihN body _ _ _ hp ho.2 (sameVars_push a b _ hs)
        | elem tag body =>
          simp only [slotty, okS] at hp ho
          simp only [ihN body a b _ hp ho hs]
        | slot nameE isDefault req data body =>
          simp only [slotty, okS, Bool.and_eq_true] at hp ho
          simp only [slotGate_same a b nameE req data hs ho.1.1 ho.1.2, ihN body a b _ hp.2 ho.2 hs]
          cases two with
          | false => rfl
          | true =>
            simp only [↓reduceIte]
            cases n with
            | zero => rfl
            | succ m =>
              simp only
              rw [(ihAll m (by omega)).1 body a b _ hp.2 ho.2 hs]
        | _ => simp [slotty] at hp

theorem qNodes_noHole (two : Bool) (mx : Nat) : ∀ n,
    (∀ nodes ctx st toks st', qNodes two mx n nodes ctx st = (.ok toks, st') → toks.all noHole = true) ∧
    (∀ x items i body ctx st toks st', qFor two mx n x items i body ctx st = (.ok toks, st') → toks.all noHole = true) ∧
    (∀ nd ctx st toks st', qNode two mx n nd ctx st = (.ok toks, st') → toks.all noHole = true) := by
  intro n
  induction n using Nat.strongRecOn with
  | _ n ihAll =>
  cases n with
  | zero =>
    refine ⟨?_, ?_, ?_⟩
    · intro nodes ctx st toks st' h; simp [qNodes] at h
    · intro x items i body ctx st toks st' h; simp [qFor] at h
    · intro nd ctx st toks st' h; simp [qNode] at h
  | succ n =>
    obtain ⟨ihN, ihF, ihD⟩ := ihAll n (Nat.lt_succ_self n)
    have hseq : ∀ (r1 : PR) (g : List Tok → Nat → PR) toks st',
        (∀ a s1, r1 = (.ok a, s1) → a.all noHole = true) →
        (∀ a s1 b s2, g a s1 = (.ok b, s2) → a.all noHole = true → b.all noHole = true) →
        pbind r1 g = (.ok toks, st') → toks.all noHole = true := by
      intro r1 g toks st' h1 h2 h
      rcases r1 with ⟨r, s1⟩
      cases r with
      | error e => simp [pbind] at h
      | ok a => exact h2 a s1 toks st' h (h1 a s1 rfl)
    refine ⟨?_, ?_, ?_⟩
    · intro nodes ctx st toks st' h
      cases nodes with
      | nil => simp only [qNodes, Prod.mk.injEq, Except.ok.injEq] at h; rw [← h.1]; rfl
      | cons nd rest =>
        simp only [qNodes] at h
        refine hseq _ _ toks st' (fun a s1 e => ihD nd ctx st a s1 e) ?_ h
        intro a s1 b s2 hb ha
        refine hseq _ _ b s2 (fun c s3 e => ihN rest ctx s1 c s3 e) ?_ hb
        intro c s3 d s4 hd hc
        simp only [Prod.mk.injEq, Except.ok.injEq] at hd
        rw [← hd.1, List.all_append, ha, hc]; rfl
    · intro x items i body ctx st toks st' h
      cases items with
      | nil => simp only [qFor, Prod.mk.injEq, Except.ok.injEq] at h; rw [← h.1]; rfl
      | cons item items =>
        simp only [qFor] at h
        refine hseq _ _ toks st' (fun a s1 e => ihN body _ st a s1 e) ?_ h
        intro a s1 b s2 hb ha
        refine hseq _ _ b s2 (fun c s3 e => ihF x items (i + 1) body ctx s1 c s3 e) ?_ hb
        intro c s3 d s4 hd hc
        simp only [Prod.mk.injEq, Except.ok.injEq] at hd
        rw [← hd.1, List.all_append, ha, hc]; rfl
    · intro nd ctx st toks st' h
      unfold qNode at h
      by_cases hst : st ≥ mx
      · simp [hst] at h
      · simp only [hst, ↓reduceIte] at h
        cases nd with
        | text s => simp only [Prod.mk.injEq, Except.ok.injEq] at h; rw [← h.1]; rfl
        | out e => simp only [Prod.mk.injEq, Except.ok.injEq] at h; rw [← h.1]; rfl
        | ifn c t e =>
          simp only at h
          split at h
          · exact ihN t ctx _ toks st' h
          · exact ihN e ctx _ toks st' h
        | forn x e body => exact ihF x _ 0 body ctx _ toks st' h
        | withn x e body => exact ihN body _ _ toks st' h
        | elem tag body =>
          simp only at h
          refine hseq _ _ toks st' (fun a s1 e => ihN body ctx _ a s1 e) ?_ h
          intro a s1 b s2 hb ha
          simp only [Prod.mk.injEq, Except.ok.injEq] at hb
          rw [← hb.1]
          simp [List.all_append, ha, noHole]
        | slot nameE isDefault req data body =>
          simp only at h
          cases two with
          | false =>
            simp only [Bool.false_eq_true, ↓reduceIte] at h
            split at h
            · simp at h
            · exact ihN body ctx _ toks st' h
          | true =>
            simp only [↓reduceIte] at h
            cases n with
            | zero => simp at h
            | succ m =>
              simp only at h
              split at h
              · simp at h
              · exact (ihAll m (by omega)).1 body ctx _ toks st' h
        | _ => simp at h

/-- what the model-shaped interpreter answers (unless it ran out of fuel), the reading-shaped one answers with the same
or more fuel -/
theorem q_true_false (mx : Nat) : ∀ n,
    (∀ nodes ctx st k, notFuel (qNodes true mx n nodes ctx st) →
      qNodes false mx (n + k) nodes ctx st = qNodes true mx n nodes ctx st) ∧
    (∀ x items i body ctx st k, notFuel (qFor true mx n x items i body ctx st) →
      qFor false mx (n + k) x items i body ctx st = qFor true mx n x items i body ctx st) ∧
    (∀ nd ctx st k, notFuel (qNode true mx n nd ctx st) →
      qNode false mx (n + k) nd ctx st = qNode true mx n nd ctx st) := by
  intro n
  induction n using Nat.strongRecOn with
  | _ n ihAll =>
  cases n with
  | zero =>
    refine ⟨?_, ?_, ?_⟩
    · intro nodes ctx st k h; simp [qNodes, notFuel] at h
    · intro x items i body ctx st k h; simp [qFor, notFuel] at h
    · intro nd ctx st k h; simp [qNode, notFuel] at h
  | succ n =>
    obtain ⟨ihN, ihF, ihD⟩ := ihAll n (Nat.lt_succ_self n)
    refine ⟨?_, ?_, ?_⟩
    · intro nodes ctx st k h
      have e : n + 1 + k = (n + k) + 1 := by omega
      rw [e]
      cases nodes with
      | nil => simp only [qNodes]
      | cons nd rest =>
        simp only [qNodes] at h ⊢
        refine pbind_mono _ _ _ _ (ihD nd ctx st k) ?_ h
        intro a s1 h2
        refine pbind_mono _ _ _ _ (ihN rest ctx s1 k) ?_ h2
        intro b s2 _
        rfl
    · intro x items i body ctx st k h
      have e : n + 1 + k = (n + k) + 1 := by omega
      rw [e]
      cases items with
      | nil => simp only [qFor]
      | cons item items =>
        simp only [qFor] at h ⊢
        refine pbind_mono _ _ _ _ (ihN body _ st k) ?_ h
        intro a s1 h2
        refine pbind_mono _ _ _ _ (ihF x items (i + 1) body ctx s1 k) ?_ h2
        intro b s2 _
        rfl
    · intro nd ctx st k h
      have e : n + 1 + k = (n + k) + 1 := by omega
      rw [e]
      unfold qNode at h
      unfold qNode
      by_cases hst : st ≥ mx
      · simp [hst]
      · simp only [hst, ↓reduceIte] at h ⊢
        cases nd with
        | ifn c t e =>
          simp only at h ⊢
          split
          · rename_i hc; simp only [hc, ↓reduceIte] at h; exact ihN t ctx _ k h
          · rename_i hc; simp only [hc, ↓reduceIte] at h; exact ihN e ctx _ k h
        | forn x e body => exact ihF x _ 0 body ctx _ k h
        | withn x e body => exact ihN body _ _ k h
        | elem tag body =>
          simp only at h ⊢
          refine pbind_mono _ _ _ _ (ihN body ctx _ k) ?_ h
          intro a s1 _
          rfl
        | slot nameE isDefault req data body =>
          simp only [↓reduceIte, Bool.false_eq_true] at h ⊢
          cases n with
          | zero => simp [notFuel] at h
          | succ m =>
            simp only at h ⊢
            cases hg : slotGate ctx nameE req data with
            | some er => simp only [hg]
            | none =>
              simp only [hg] at h ⊢
              have := (ihAll m (by omega)).1 body ctx (st + 1) (1 + k) h
              have e2 : m + (1 + k) = m + 1 + k := by omega
              rw [e2] at this
              exact this
        | _ => rfl

/-! ### one leaf component whose template has slots, no fills given: the whole deferred pipeline -/

theorem sameNI_refl (a : Ctx) : SameNI a a := fun _ _ => rfl

theorem runRenderer_slotty (env : Env) (i : Nat) (r : Renderer) (cc : CompCtx) (d : CompDef) (w : World) (toks : List Tok) (st : Nat)
    (hr : env.raiseAt = none) (hdyn : r.dynInner = none) (hd : findDef env r.name = some d)
    (hcc : alGet r.id w.ctxCache = some cc) (hun : Unfilled cc) (hinv : CInv r.id r.ctx)
    (hp : slottyL d.template = true) (ho : okSL d.template = true) (hc : ctxFree r.ctx = true)
    (hok : qNodes true env.maxSteps i d.template r.ctx w.steps = (.ok toks, st)) :
    (runRenderer env (i + 1) r []).run.run w =
      (.ok (.marker r.name r.id :: addRootAttrs [idAttr r.id] toks, rootHoles [idAttr r.id] toks),
        { w with events := w.events ++ [.before r.id], steps := st }) := by
  unfold runRenderer
  simp only [hdyn, Option.isNone_none, ↓reduceIte, run_bind, run_tick_plain env (.before r.id) w hr (by intro id h; cases h), hd]
  have := (model_slotty env r.id cc hun i).1 d.template r.ctx r.ctx { w with events := w.events ++ [.before r.id] } hp ho hc
    (sameNI_refl _) hinv hcc
  rw [this]
  have hs : ({ w with events := w.events ++ [.before r.id] } : World).steps = w.steps := rfl
  rw [hs, hok]
  simp only [asWorld_ok, run_pure, List.nil_append]
  rfl

theorem postRender_leaf_slotty (env : Env) (i id : Nat) (r : Renderer) (cc : CompCtx) (d : CompDef) (w : World)
    (toks : List Tok) (st : Nat)
    (hr : env.raiseAt = none)
    (hrc : alGet id w.rendererCache = some r) (hrid : r.id = id) (hdyn : r.dynInner = none)
    (hca : alGet id w.childAttrs = none)
    (hcc : alGet id w.ctxCache = some cc) (hname : isDynName cc.name = false) (hun : Unfilled cc) (hinv : CInv id r.ctx)
    (href : w.allRefIds.contains id = false)
    (hd : findDef env r.name = some d) (hp : slottyL d.template = true) (ho : okSL d.template = true) (hc : ctxFree r.ctx = true)
    (hok : qNodes true env.maxSteps (i + 1) d.template r.ctx w.steps = (.ok toks, st)) :
    (postRender env (i + 3) [{ before := [], child := some id, parent := none, grand := none }] [] []).run.run w =
      (.ok (.marker r.name id :: addRootAttrs [idAttr id] toks),
        { w with rendererCache := alDel id w.rendererCache, childAttrs := alDel id w.childAttrs,
                 ctxCache := alDel id w.ctxCache,
                 events := w.events ++ [.before id, .after id], steps := st }) := by
  subst hrid
  have hnh : toks.all noHole = true := (qNodes_noHole true env.maxSteps (i + 1)).1 _ _ _ _ _ hok
  have hnh' : (Tok.marker r.name r.id :: addRootAttrs [idAttr r.id] toks).all noHole = true := by
    simp only [List.all_cons, noHole, Bool.true_and, addRootAttrs]
    exact addRootAttrsAux_noHole _ _ _ hnh
  unfold postRender
  simp only [List.isEmpty_nil, ↓reduceIte, run_bind, run_pure, run_get, hrc, hca, Option.getD_none, run_set]
  have hw' : qNodes true env.maxSteps (i + 1) d.template r.ctx
      ({ w with rendererCache := alDel r.id w.rendererCache, childAttrs := alDel r.id w.childAttrs } : World).steps = (.ok toks, st) := hok
  rw [runRenderer_slotty env (i + 1) r cc d ({ w with rendererCache := alDel r.id w.rendererCache, childAttrs := alDel r.id w.childAttrs } : World) toks st hr hdyn hd hcc hun hinv hp ho hc hw']
  simp only [run_modify, rootHoles, rootHolesAux_noHole _ _ _ hnh, List.foldl_nil, List.append_nil]
  rw [splitHoles_noHole r.id none _ [] hnh']
  unfold postRender
  simp only [List.nil_append, run_bind, run_get, partsGet, alGet, Option.getD_none, alDel]
  have htick := fun w' => run_tick_plain env (Ev.after r.id) w' hr (by intro id h; cases h)
  simp only [hcc, Option.map_some, Option.getD_some, hname, Bool.not_false, ↓reduceIte, run_bind, htick, run_modify,
    unregisterRef, run_liftW, unregisterRefW, href, Bool.not_false, postRender, run_pure]
  simp

theorem leaf_component_slotty (env : Env) (i : Nat) (name : Str) (kwargs : List (Str × Expr)) (only dyn : Bool)
    (ctx ctx' : Ctx) (w : World) (d : CompDef) (toks : List Tok) (st : Nat)
    (hctx' : ctx' = if only || env.isolated then isolatedCopy ctx else ctx)
    (hr : env.raiseAt = none) (hd : findDef env name = some d) (hdyn : isDynName name = false)
    (hp : slottyL d.template = true) (ho : okSL d.template = true) (hsrc : d.data.all (fun kv => pureSrc kv.2) = true)
    (hsteps : ¬ w.steps ≥ env.maxSteps) (hgcd : w.gcds < env.maxInst)
    (hext : isExtracting ctx = false)
    (hpar : ∀ p, ctxGet ctx' compKey ≠ some (.compRef p))
    (hout : ctxGet (snapshot ctx) compKey = none)
    (hprov : w.provideCache = [])
    (hf1 : alGet w.nextId w.ctxCache = none) (hf2 : alGet w.nextId w.rendererCache = none)
    (hf3 : alGet w.nextId w.childAttrs = none) (hf4 : w.allRefIds.contains w.nextId = false)
    (hc : ctxFree (leafCtx ctx' w.nextId (evalKwargs ctx kwargs) d) = true)
    (hfg : ctxGet (leafCtx ctx' w.nextId (evalKwargs ctx kwargs) d) fillGenKey = none)
    (hok : qNodes true env.maxSteps (i + 1) d.template (leafCtx ctx' w.nextId (evalKwargs ctx kwargs) d) (w.steps + 1) = (.ok toks, st)) :
    (renderNode env (i + 6) (.comp name kwargs only dyn []) ctx).run.run w =
      (.ok (.marker name w.nextId :: addRootAttrs [idAttr w.nextId] toks),
        { w with nextId := w.nextId + 1, steps := st, gcds := w.gcds + 1,
                 events := w.events ++ [.gcd w.nextId, .before w.nextId, .after w.nextId] }) := by
  have hparent : (match ctxGet ctx' compKey with | some (.compRef p) => some p | _ => (none : Option Nat)) = none := by
    cases hg : ctxGet ctx' compKey with
    | none => rfl
    | some v => cases v <;> first | rfl | exact absurd hg (hpar _)
  have hun : Unfilled (leafCC name w.nextId ctx) := ⟨rfl, rfl, ⟨snapshot ctx, rfl, hout⟩⟩
  have hinv : CInv w.nextId (leafCtx ctx' w.nextId (evalKwargs ctx kwargs) d) := by
    refine ⟨?_, hfg⟩
    unfold leafCtx
    rw [snapshot_get _ _ (by decide) (by decide), ctxGet_append_one]
    simp [lookupL]
  unfold renderNode
  simp only [run_bind, run_get, hsteps, ↓reduceIte, run_set]
  unfold renderCompTag
  simp only [hext, Bool.false_eq_true, ↓reduceIte, hd, run_bind, run_pure]
  unfold resolveFills
  simp only [List.isEmpty_nil, ↓reduceIte, run_pure, ← hctx']
  unfold renderImpl
  simp only [run_bind, run_genId, hparent, run_pure, Option.isNone_none, Bool.true_and, Option.isSome_none,
    Bool.false_eq_true, ↓reduceIte, hdyn, Bool.not_false]
  have htg := fun w' (h : w'.gcds < env.maxInst) => run_tick_gcd env w.nextId w' hr h
  have hgd := fun w' => getContextData_pure env w.nextId ctx' (evalKwargs ctx kwargs) d.data [] w' hsrc
  have hdel1 := alDel_alSet_fresh w.nextId (leafCC name w.nextId ctx) w.ctxCache hf1
  have hdel2 := alDel_alSet_fresh w.nextId (leafR name w.nextId ctx (leafCtx ctx' w.nextId (evalKwargs ctx kwargs) d)) w.rendererCache hf2
  have hdel3 := alDel_of_absent w.nextId w.childAttrs hf3
  cases hrc : hasRootRc ctx' with
  | true =>
    simp only [↓reduceIte, run_bind, run_modify, registerRefW, hprov, List.isEmpty_nil, htg, hgcd, hd, hgd, run_pure]
    refine (postRender_leaf_slotty env i w.nextId (leafR name w.nextId ctx (leafCtx ctx' w.nextId (evalKwargs ctx kwargs) d))
      (leafCC name w.nextId ctx) d (leafW w name ctx (leafCtx ctx' w.nextId (evalKwargs ctx kwargs) d) (w.rcLeak + 1 - 1)) toks st hr
      (alGet_alSet_same ..) rfl rfl hf3 (alGet_alSet_same ..) hdyn hun hinv hf4 hd hp ho hc hok).trans ?_
    simp only [leafW, hdel1, hdel2, hdel3, List.append_assoc, List.cons_append, List.nil_append, Nat.add_sub_cancel, hprov]
  | false =>
    simp only [Bool.false_eq_true, ↓reduceIte, run_bind, run_modify, registerRefW, hprov, List.isEmpty_nil, htg, hgcd, hd, hgd, run_pure]
    refine (postRender_leaf_slotty env i w.nextId (leafR name w.nextId ctx (leafCtx ctx' w.nextId (evalKwargs ctx kwargs) d))
      (leafCC name w.nextId ctx) d (leafW w name ctx (leafCtx ctx' w.nextId (evalKwargs ctx kwargs) d) w.rcLeak) toks st hr
      (alGet_alSet_same ..) rfl rfl hf3 (alGet_alSet_same ..) hdyn hun hinv hf4 hd hp ho hc hok).trans ?_
    simp only [leafW, hdel1, hdel2, hdel3, List.append_assoc, List.cons_append, List.nil_append, Nat.add_sub_cancel, hprov]

/-! ### … and the reading of the properties -/

open Djc.SpecRender in
theorem sNode_leaf_slotty (env : Env) (m : Nat) (name : Str) (kwargs : List (Str × Expr)) (only dyn : Bool)
    (e : SEnv) (s : SState) (d : CompDef) (toks : List Tok) (st : Nat)
    (hd : findDef env name = some d) (hdyn : isDynName name = false)
    (hp : slottyL d.template = true) (hsrc : d.data.all (fun kv => pureSrc kv.2) = true)
    (hsteps : ¬ s.steps ≥ env.maxSteps) (hid : ¬ s.nextId > env.maxInst)
    (hc : ctxFree (specVars (only || env.isolated) e.vars s.nextId (evalKwargs e.vars kwargs) d) = true)
    (hok : qNodes false env.maxSteps m d.template (specVars (only || env.isolated) e.vars s.nextId (evalKwargs e.vars kwargs) d)
      (s.steps + 1) = (.ok toks, st)) :
    ∃ s', (sNode env (m + 1) (.comp name kwargs only dyn []) e).run s =
      .ok (.marker name s.nextId :: addRootAttrs [idAttr s.nextId] toks, s') ∧ s'.steps = st := by
  unfold sNode
  simp only [srun_bind, srun_get, hsteps, ↓reduceIte, srun_set, hdyn, Bool.false_eq_true, srun_pure, hd, srun_modify,
    List.isEmpty_nil, List.all_nil, freshId, hid, dataOf_pure _ _ _ _ _ hsrc]
  have hsp := (spec_slotty env (Inst.mk s.nextId [] (List.length (if (only || env.isolated) = true then [[]] else e.vars)) (only || env.isolated)) rfl m).1
    d.template
    (SEnv.mk (specVars (only || env.isolated) e.vars s.nextId (evalKwargs e.vars kwargs) d) e.prov
      (some (Inst.mk s.nextId [] (List.length (if (only || env.isolated) = true then [[]] else e.vars)) (only || env.isolated))) [])
    { nextId := s.nextId + 1, defaults := s.defaults, nextRef := s.nextRef, cap := s.cap, path := s.path ++ [name], steps := s.steps + 1, paths := s.paths ++ [s.path ++ [name]] }
    hp hc rfl
  have hv : ∀ (X : Ctx) p i dd, (SEnv.mk X p i dd).vars = X := fun _ _ _ _ => rfl
  rw [hv] at hsp
  unfold specVars at hsp hok
  rw [hsp, hok]
  exact ⟨_, rfl, rfl⟩

open Djc.SpecRender in
/-- **One component whose template has slots, no fills given: the model of the code and the reading print the same.** -/
theorem leaf_slotty_model_eq_spec (env : Env) (i : Nat) (name : Str) (kwargs : List (Str × Expr)) (only dyn : Bool)
    (ctx ctx' : Ctx) (w : World) (e : SEnv) (s : SState) (d : CompDef) (toks : List Tok) (st : Nat)
    (hctx' : ctx' = if only || env.isolated then isolatedCopy ctx else ctx)
    (hr : env.raiseAt = none) (hd : findDef env name = some d) (hdyn : isDynName name = false)
    (hp : slottyL d.template = true) (ho : okSL d.template = true)
    (hsrc : d.data.all (fun kv => pureSrc kv.2) = true)
    (hsteps : ¬ w.steps ≥ env.maxSteps) (hgcd : w.gcds < env.maxInst) (hext : isExtracting ctx = false)
    (hpar : ∀ p, ctxGet ctx' compKey ≠ some (.compRef p)) (hout : ctxGet (snapshot ctx) compKey = none)
    (hprov : w.provideCache = [])
    (hf1 : alGet w.nextId w.ctxCache = none) (hf2 : alGet w.nextId w.rendererCache = none)
    (hf3 : alGet w.nextId w.childAttrs = none) (hf4 : w.allRefIds.contains w.nextId = false)
    (hc : ctxFree (leafCtx ctx' w.nextId (evalKwargs ctx kwargs) d) = true)
    (hfg : ctxGet (leafCtx ctx' w.nextId (evalKwargs ctx kwargs) d) fillGenKey = none)
    (hok : qNodes true env.maxSteps (i + 1) d.template (leafCtx ctx' w.nextId (evalKwargs ctx kwargs) d) (w.steps + 1) = (.ok toks, st))
    (he : e.vars = ctx) (hsid : s.nextId = w.nextId) (hss : s.steps = w.steps) (hidle : ¬ s.nextId > env.maxInst)
    (hc2 : ctxFree (specVars (only || env.isolated) ctx w.nextId (evalKwargs ctx kwargs) d) = true)
    (hbase : ∀ k, internal k = false → ctxGet ctx' k = ctxGet (if only || env.isolated then [[]] else ctx) k) :
    ((renderNode env (i + 6) (.comp name kwargs only dyn []) ctx).run.run w).1 =
        .ok (.marker name w.nextId :: addRootAttrs [idAttr w.nextId] toks) ∧
      ∃ s', (sNode env (i + 6) (.comp name kwargs only dyn []) e).run s =
        .ok (.marker name w.nextId :: addRootAttrs [idAttr w.nextId] toks, s') ∧
        s'.steps = ((renderNode env (i + 6) (.comp name kwargs only dyn []) ctx).run.run w).2.steps := by
  rw [leaf_component_slotty env i name kwargs only dyn ctx ctx' w d toks st hctx' hr hd hdyn hp ho hsrc hsteps hgcd hext hpar hout
    hprov hf1 hf2 hf3 hf4 hc hfg hok]
  refine ⟨rfl, ?_⟩
  subst he
  have hsame := leaf_sameVars ctx' (if only || env.isolated then [[]] else e.vars) w.nextId (evalKwargs e.vars kwargs) d hbase
  have h1 : qNodes true env.maxSteps (i + 1) d.template (specVars (only || env.isolated) e.vars w.nextId (evalKwargs e.vars kwargs) d)
      (w.steps + 1) = (.ok toks, st) := by
    rw [← hok]
    exact ((qNodes_same true env.maxSteps (i + 1)).1 d.template _ _ _ hp ho hsame).symm
  have h2 : qNodes false env.maxSteps (i + 1 + 4) d.template (specVars (only || env.isolated) e.vars w.nextId (evalKwargs e.vars kwargs) d)
      (w.steps + 1) = (.ok toks, st) := by
    rw [(q_true_false env.maxSteps (i + 1)).1 d.template _ _ 4 (by rw [h1]; simp [notFuel]), h1]
  rw [← hsid, ← hss] at h2
  rw [← hsid] at hc2
  obtain ⟨s', hs', hst⟩ := sNode_leaf_slotty env (i + 5) name kwargs only dyn e s d toks st hd hdyn hp hsrc (by rw [hss]; exact hsteps) hidle hc2 h2
  rw [← hsid]
  exact ⟨s', hs', hst⟩

/-! ### when the template fails: the same exception on both sides -/

theorem runRenderer_slotty_err (env : Env) (i : Nat) (r : Renderer) (cc : CompCtx) (d : CompDef) (w : World) (er : Err) (st : Nat)
    (hr : env.raiseAt = none) (hdyn : r.dynInner = none) (hd : findDef env r.name = some d)
    (hcc : alGet r.id w.ctxCache = some cc) (hun : Unfilled cc) (hinv : CInv r.id r.ctx)
    (hp : slottyL d.template = true) (ho : okSL d.template = true) (hc : ctxFree r.ctx = true)
    (hok : qNodes true env.maxSteps i d.template r.ctx w.steps = (.error er, st)) :
    ((runRenderer env (i + 1) r []).run.run w).1 = .error er := by
  unfold runRenderer
  simp only [hdyn, Option.isNone_none, ↓reduceIte, run_bind, run_tick_plain env (.before r.id) w hr (by intro id h; cases h), hd]
  have := (model_slotty env r.id cc hun i).1 d.template r.ctx r.ctx { w with events := w.events ++ [.before r.id] } hp ho hc
    (sameNI_refl _) hinv hcc
  rw [this]
  have hs : ({ w with events := w.events ++ [.before r.id] } : World).steps = w.steps := rfl
  rw [hs, hok]
  rfl

theorem leaf_component_slotty_err (env : Env) (i : Nat) (name : Str) (kwargs : List (Str × Expr)) (only dyn : Bool)
    (ctx ctx' : Ctx) (w : World) (d : CompDef) (er : Err) (st : Nat)
    (hctx' : ctx' = if only || env.isolated then isolatedCopy ctx else ctx)
    (hr : env.raiseAt = none) (hd : findDef env name = some d) (hdyn : isDynName name = false)
    (hp : slottyL d.template = true) (ho : okSL d.template = true) (hsrc : d.data.all (fun kv => pureSrc kv.2) = true)
    (hsteps : ¬ w.steps ≥ env.maxSteps) (hgcd : w.gcds < env.maxInst)
    (hext : isExtracting ctx = false)
    (hpar : ∀ p, ctxGet ctx' compKey ≠ some (.compRef p))
    (hout : ctxGet (snapshot ctx) compKey = none)
    (hprov : w.provideCache = [])
    (hf3 : alGet w.nextId w.childAttrs = none)
    (hc : ctxFree (leafCtx ctx' w.nextId (evalKwargs ctx kwargs) d) = true)
    (hfg : ctxGet (leafCtx ctx' w.nextId (evalKwargs ctx kwargs) d) fillGenKey = none)
    (hok : qNodes true env.maxSteps (i + 1) d.template (leafCtx ctx' w.nextId (evalKwargs ctx kwargs) d) (w.steps + 1) = (.error er, st)) :
    ((renderNode env (i + 6) (.comp name kwargs only dyn []) ctx).run.run w).1 = .error er := by
  have hparent : (match ctxGet ctx' compKey with | some (.compRef p) => some p | _ => (none : Option Nat)) = none := by
    cases hg : ctxGet ctx' compKey with
    | none => rfl
    | some v => cases v <;> first | rfl | exact absurd hg (hpar _)
  have hun : Unfilled (leafCC name w.nextId ctx) := ⟨rfl, rfl, ⟨snapshot ctx, rfl, hout⟩⟩
  have hinv : CInv w.nextId (leafCtx ctx' w.nextId (evalKwargs ctx kwargs) d) := by
    refine ⟨?_, hfg⟩
    unfold leafCtx
    rw [snapshot_get _ _ (by decide) (by decide), ctxGet_append_one]
    simp [lookupL]
  unfold renderNode
  simp only [run_bind, run_get, hsteps, ↓reduceIte, run_set]
  unfold renderCompTag
  simp only [hext, Bool.false_eq_true, ↓reduceIte, hd, run_bind, run_pure]
  unfold resolveFills
  simp only [List.isEmpty_nil, ↓reduceIte, run_pure, ← hctx']
  unfold renderImpl
  simp only [run_bind, run_genId, hparent, run_pure, Option.isNone_none, Bool.true_and, Option.isSome_none,
    Bool.false_eq_true, ↓reduceIte, hdyn, Bool.not_false]
  have htg := fun w' (h : w'.gcds < env.maxInst) => run_tick_gcd env w.nextId w' hr h
  have hgd := fun w' => getContextData_pure env w.nextId ctx' (evalKwargs ctx kwargs) d.data [] w' hsrc
  have hpost : ∀ rc, ((postRender env (i + 3) [{ before := [], child := some w.nextId, parent := none, grand := none }] [] []).run.run
      (leafW w name ctx (leafCtx ctx' w.nextId (evalKwargs ctx kwargs) d) rc)).1 = .error er := by
    intro rc
    unfold postRender
    simp only [List.isEmpty_nil, ↓reduceIte, run_bind, run_pure, run_get, leafW, alGet_alSet_same, hf3, Option.getD_none, run_set]
    have h := runRenderer_slotty_err env (i + 1) (leafR name w.nextId ctx (leafCtx ctx' w.nextId (evalKwargs ctx kwargs) d))
      (leafCC name w.nextId ctx) d
      ({ leafW w name ctx (leafCtx ctx' w.nextId (evalKwargs ctx kwargs) d) rc with
          rendererCache := alDel w.nextId (alSet w.nextId (leafR name w.nextId ctx (leafCtx ctx' w.nextId (evalKwargs ctx kwargs) d)) w.rendererCache),
          childAttrs := alDel w.nextId w.childAttrs } : World) er st hr rfl hd (alGet_alSet_same ..) hun hinv hp ho hc hok
    revert h
    simp only [leafW]
    intro h
    rcases hrr : (runRenderer env (i + 2) (leafR name w.nextId ctx (leafCtx ctx' w.nextId (evalKwargs ctx kwargs) d)) []).run.run _ with ⟨res, w2⟩
    rw [hrr] at h
    simp only at h
    subst h
    rfl
  cases hrc : hasRootRc ctx' with
  | true =>
    simp only [↓reduceIte, run_bind, run_modify, registerRefW, hprov, List.isEmpty_nil, htg, hgcd, hd, hgd, run_pure]
    exact hpost _
  | false =>
    simp only [Bool.false_eq_true, ↓reduceIte, run_bind, run_modify, registerRefW, hprov, List.isEmpty_nil, htg, hgcd, hd, hgd, run_pure]
    exact hpost _

open Djc.SpecRender in
theorem sNode_leaf_slotty_err (env : Env) (m : Nat) (name : Str) (kwargs : List (Str × Expr)) (only dyn : Bool)
    (e : SEnv) (s : SState) (d : CompDef) (er : Err) (st : Nat)
    (hd : findDef env name = some d) (hdyn : isDynName name = false)
    (hp : slottyL d.template = true) (hsrc : d.data.all (fun kv => pureSrc kv.2) = true)
    (hsteps : ¬ s.steps ≥ env.maxSteps) (hid : ¬ s.nextId > env.maxInst)
    (hc : ctxFree (specVars (only || env.isolated) e.vars s.nextId (evalKwargs e.vars kwargs) d) = true)
    (hok : qNodes false env.maxSteps m d.template (specVars (only || env.isolated) e.vars s.nextId (evalKwargs e.vars kwargs) d)
      (s.steps + 1) = (.error er, st)) :
    (sNode env (m + 1) (.comp name kwargs only dyn []) e).run s = .error er := by
  unfold sNode
  simp only [srun_bind, srun_get, hsteps, ↓reduceIte, srun_set, hdyn, Bool.false_eq_true, srun_pure, hd, srun_modify,
    List.isEmpty_nil, List.all_nil, freshId, hid, dataOf_pure _ _ _ _ _ hsrc]
  have hsp := (spec_slotty env (Inst.mk s.nextId [] (List.length (if (only || env.isolated) = true then [[]] else e.vars)) (only || env.isolated)) rfl m).1
    d.template
    (SEnv.mk (specVars (only || env.isolated) e.vars s.nextId (evalKwargs e.vars kwargs) d) e.prov
      (some (Inst.mk s.nextId [] (List.length (if (only || env.isolated) = true then [[]] else e.vars)) (only || env.isolated))) [])
    { nextId := s.nextId + 1, defaults := s.defaults, nextRef := s.nextRef, cap := s.cap, path := s.path ++ [name], steps := s.steps + 1, paths := s.paths ++ [s.path ++ [name]] }
    hp hc rfl
  have hv : ∀ (X : Ctx) p i dd, (SEnv.mk X p i dd).vars = X := fun _ _ _ _ => rfl
  rw [hv] at hsp
  unfold specVars at hsp hok
  rw [hsp, hok]
  rfl

open Djc.SpecRender in
/-- **When the template of such a component fails — a `required` slot that is not filled, a slot name that cannot be
hashed, the work budget — the code and the reading fail with the same exception.** -/
theorem leaf_slotty_fail_alike (env : Env) (i : Nat) (name : Str) (kwargs : List (Str × Expr)) (only dyn : Bool)
    (ctx ctx' : Ctx) (w : World) (e : SEnv) (s : SState) (d : CompDef) (er : Err) (st : Nat)
    (hctx' : ctx' = if only || env.isolated then isolatedCopy ctx else ctx)
    (hr : env.raiseAt = none) (hd : findDef env name = some d) (hdyn : isDynName name = false)
    (hp : slottyL d.template = true) (ho : okSL d.template = true)
    (hsrc : d.data.all (fun kv => pureSrc kv.2) = true)
    (hsteps : ¬ w.steps ≥ env.maxSteps) (hgcd : w.gcds < env.maxInst) (hext : isExtracting ctx = false)
    (hpar : ∀ p, ctxGet ctx' compKey ≠ some (.compRef p)) (hout : ctxGet (snapshot ctx) compKey = none)
    (hprov : w.provideCache = []) (hf3 : alGet w.nextId w.childAttrs = none)
    (hc : ctxFree (leafCtx ctx' w.nextId (evalKwargs ctx kwargs) d) = true)
    (hfg : ctxGet (leafCtx ctx' w.nextId (evalKwargs ctx kwargs) d) fillGenKey = none)
    (hok : qNodes true env.maxSteps (i + 1) d.template (leafCtx ctx' w.nextId (evalKwargs ctx kwargs) d) (w.steps + 1) = (.error er, st))
    (hnf : er ≠ .outOfFuel)
    (he : e.vars = ctx) (hsid : s.nextId = w.nextId) (hss : s.steps = w.steps) (hidle : ¬ s.nextId > env.maxInst)
    (hc2 : ctxFree (specVars (only || env.isolated) ctx w.nextId (evalKwargs ctx kwargs) d) = true)
    (hbase : ∀ k, internal k = false → ctxGet ctx' k = ctxGet (if only || env.isolated then [[]] else ctx) k) :
    ((renderNode env (i + 6) (.comp name kwargs only dyn []) ctx).run.run w).1 = .error er ∧
      (sNode env (i + 6) (.comp name kwargs only dyn []) e).run s = .error er := by
  refine ⟨leaf_component_slotty_err env i name kwargs only dyn ctx ctx' w d er st hctx' hr hd hdyn hp ho hsrc hsteps hgcd hext hpar hout
    hprov hf3 hc hfg hok, ?_⟩
  subst he
  have hsame := leaf_sameVars ctx' (if only || env.isolated then [[]] else e.vars) w.nextId (evalKwargs e.vars kwargs) d hbase
  have h1 : qNodes true env.maxSteps (i + 1) d.template (specVars (only || env.isolated) e.vars w.nextId (evalKwargs e.vars kwargs) d)
      (w.steps + 1) = (.error er, st) := by
    rw [← hok]
    exact ((qNodes_same true env.maxSteps (i + 1)).1 d.template _ _ _ hp ho hsame).symm
  have h2 : qNodes false env.maxSteps (i + 1 + 4) d.template (specVars (only || env.isolated) e.vars w.nextId (evalKwargs e.vars kwargs) d)
      (w.steps + 1) = (.error er, st) := by
    rw [(q_true_false env.maxSteps (i + 1)).1 d.template _ _ 4 (by rw [h1]; simpa [notFuel] using hnf), h1]
  rw [← hsid, ← hss] at h2
  rw [← hsid] at hc2
  exact sNode_leaf_slotty_err env (i + 5) name kwargs only dyn e s d er st hd hdyn hp hsrc (by rw [hss]; exact hsteps) hidle hc2 h2

end Djc.Proofs.Slotty
