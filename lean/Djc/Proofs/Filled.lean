/-
  One named fill: a leaf component whose tag body is `{% fill "nm" %}…plain…{% endfill %}`.  The reference interpreter
  `fNodes` extends `qNodes` by a fill: a slot whose name is `nm` prints the fill's nodes — in the context at the
  component tag (isolated mode: `fctx = some outer`) or in the context at the slot (django mode: `fctx = none`) — every
  other slot its own default content.
-/
import Djc.Proofs.Slotty
namespace Djc.Proofs.Filled
open Djc.Tpl Djc.Render Djc.Proofs.Plain Djc.Proofs.Calm Djc.Proofs.Leaf Djc.Proofs.Render Djc.Proofs.Slotty Djc.Proofs.LeafSpec

/-- the checks before the fill is looked up -/
def slotGate0 (ctx : Ctx) (nameE : Expr) (data : List (Str × Expr)) : Option Err :=
  if (evalKwargs ctx data).any (fun kv => tooDeep 10 kv.2) then some .budget
  else if !hashable (evalExpr ctx nameE) then some (.typeError "unhashable slot name")
  else none

mutual
  def fNodes (two : Bool) (mx : Nat) (nm : Str) (fnodes : List Node) (fctx : Option Ctx) : Nat → List Node → Ctx → Nat → PR
    | 0, _, _, st => (.error .outOfFuel, st)
    | _ + 1, [], _, st => (.ok [], st)
    | n + 1, nd :: rest, ctx, st =>
      pbind (fNode two mx nm fnodes fctx n nd ctx st) fun a st1 =>
      pbind (fNodes two mx nm fnodes fctx n rest ctx st1) fun b st2 => (.ok (a ++ b), st2)

  def fFor (two : Bool) (mx : Nat) (nm : Str) (fnodes : List Node) (fctx : Option Ctx) : Nat → Str → List Val → Nat → List Node → Ctx → Nat → PR
    | 0, _, _, _, _, _, st => (.error .outOfFuel, st)
    | _ + 1, _, [], _, _, _, st => (.ok [], st)
    | n + 1, x, item :: items, i, body, ctx, st =>
      pbind (fNodes two mx nm fnodes fctx n body (ctx ++ [forLayer ctx x i item]) st) fun a st1 =>
      pbind (fFor two mx nm fnodes fctx n x items (i + 1) body ctx st1) fun b st2 => (.ok (a ++ b), st2)

  def fNode (two : Bool) (mx : Nat) (nm : Str) (fnodes : List Node) (fctx : Option Ctx) : Nat → Node → Ctx → Nat → PR
    | 0, _, _, st => (.error .outOfFuel, st)
    | n + 1, nd, ctx, st =>
      if st ≥ mx then (.error .budget, st) else
      match nd with
      | .text s => (.ok [.text s], st + 1)
      | .out e => (.ok [.text (pyStr (evalExpr ctx e))], st + 1)
      | .ifn c t e => if truthy (evalExpr ctx c) then fNodes two mx nm fnodes fctx n t ctx (st + 1) else fNodes two mx nm fnodes fctx n e ctx (st + 1)
      | .forn x e body => fFor two mx nm fnodes fctx n x (iterVals (evalExpr ctx e)) 0 body ctx (st + 1)
      | .withn x e body => fNodes two mx nm fnodes fctx n body (ctx ++ [[(x, evalExpr ctx e)]]) (st + 1)
      | .elem tag body =>
        pbind (fNodes two mx nm fnodes fctx n body ctx (st + 1)) fun inner st' => (.ok ([.opn tag []] ++ inner ++ [.cls tag]), st')
      | .slot nameE _ isRequired data body =>
        if two then
          match n with
          | 0 => (.error .outOfFuel, st + 1)
          | m + 1 =>
            match slotGate0 ctx nameE data with
            | some e => (.error e, st + 1)
            | none =>
              if slotNameOf (evalExpr ctx nameE) = nm then pNodes mx m fnodes (fctx.getD ctx) (st + 1)
              else if isRequired then (.error (.tse "required slot not filled"), st + 1)
              else fNodes two mx nm fnodes fctx m body ctx (st + 1)
        else
          match slotGate0 ctx nameE data with
          | some e => (.error e, st + 1)
          | none =>
            if slotNameOf (evalExpr ctx nameE) = nm then pNodes mx n fnodes (fctx.getD ctx) (st + 1)
            else if isRequired then (.error (.tse "required slot not filled"), st + 1)
            else fNodes two mx nm fnodes fctx n body ctx (st + 1)
      | _ => (.error (.runtime "not in the fragment"), st + 1)
end

/-! ### the model of the code -/

/-- the instance received exactly the one fill, is not the dynamic component, and was rendered from a template in which
no component encloses the tag (`oc`: the snapshot of the context at the tag) -/
structure FilledBy (cc : CompCtx) (nm : Str) (fnodes : List Node) (oc : Ctx) : Prop where
  fills : cc.fills = [(nm, { nodes := fnodes, dataVar := none, defaultVar := none, extra := [] })]
  notDyn : cc.isDyn = false
  outer : cc.outer = some oc ∧ ctxGet oc compKey = none

theorem model_filled (env : Env) (cid : Nat) (cc : CompCtx) (nm : Str) (fnodes : List Node) (oc : Ctx)
    (hcc : FilledBy cc nm fnodes oc) (hfp : plainL fnodes = true) (hfo : okNamesL fnodes = true) (hoc : ctxFree oc = true) : ∀ n,
    (∀ nodes mc c0 w, slottyL nodes = true → okSL nodes = true → ctxFree mc = true → SameNI mc c0 → CInv cid c0 →
      alGet cid w.ctxCache = some cc →
      (renderNodes env n nodes mc).run.run w = asWorld w (fNodes true env.maxSteps nm fnodes (if env.isolated then some oc else none) n nodes c0 w.steps)) ∧
    (∀ x items i body mc c0 w, slottyL body = true → okSL body = true → internal x = false → ctxFree mc = true → SameNI mc c0 →
      CInv cid c0 → alGet cid w.ctxCache = some cc → (∀ it ∈ items, slotFree it = true) →
      (renderFor env n x items i body mc).run.run w = asWorld w (fFor true env.maxSteps nm fnodes (if env.isolated then some oc else none) n x items i body c0 w.steps)) ∧
    (∀ nd mc c0 w, slotty nd = true → okS nd = true → ctxFree mc = true → SameNI mc c0 → CInv cid c0 →
      alGet cid w.ctxCache = some cc →
      (renderNode env n nd mc).run.run w = asWorld w (fNode true env.maxSteps nm fnodes (if env.isolated then some oc else none) n nd c0 w.steps)) := by
  intro n
  induction n using Nat.strongRecOn with
  | _ n ihAll =>
  cases n with
  | zero =>
    refine ⟨?_, ?_, ?_⟩
    · intro nodes mc c0 w _ _ _ _ _ _; simp only [renderNodes, fNodes, run_throw]; rfl
    · intro x items i body mc c0 w _ _ _ _ _ _ _ _; simp only [renderFor, fFor, run_throw]; rfl
    · intro nd mc c0 w _ _ _ _ _ _; simp only [renderNode, fNode, run_throw]; rfl
  | succ n =>
    obtain ⟨ihN, ihF, ihD⟩ := ihAll n (Nat.lt_succ_self n)
    have ihN' : ∀ nodes mc c0 w st, slottyL nodes = true → okSL nodes = true → ctxFree mc = true → SameNI mc c0 → CInv cid c0 →
        alGet cid w.ctxCache = some cc →
        (renderNodes env n nodes mc).run.run (setSteps w st) = asWorld w (fNodes true env.maxSteps nm fnodes (if env.isolated then some oc else none) n nodes c0 st) := by
      intro nodes mc c0 w st hp ho hc hs hi hw; simpa using ihN nodes mc c0 (setSteps w st) hp ho hc hs hi hw
    have ihF' : ∀ x items i body mc c0 w st, slottyL body = true → okSL body = true → internal x = false → ctxFree mc = true →
        SameNI mc c0 → CInv cid c0 → alGet cid w.ctxCache = some cc → (∀ it ∈ items, slotFree it = true) →
        (renderFor env n x items i body mc).run.run (setSteps w st) = asWorld w (fFor true env.maxSteps nm fnodes (if env.isolated then some oc else none) n x items i body c0 st) := by
      intro x items i body mc c0 w st hp ho hx hc hs hi hw hit
      simpa using ihF x items i body mc c0 (setSteps w st) hp ho hx hc hs hi hw hit
    refine ⟨?_, ?_, ?_⟩
    · intro nodes mc c0 w hp ho hc hs hi hw
      cases nodes with
      | nil => simp only [renderNodes, fNodes, run_pure]; rfl
      | cons nd rest =>
        simp only [slottyL, okSL, Bool.and_eq_true] at hp ho
        simp only [renderNodes, fNodes]
        refine run_bind_as _ _ _ _ _ (ihD nd mc c0 w hp.1 ho.1 hc hs hi hw) ?_
        intro a st1
        refine run_bind_as _ _ _ _ _ (ihN' rest mc c0 w st1 hp.2 ho.2 hc hs hi hw) ?_
        intro b st2
        rfl
    · intro x items i body mc c0 w hp ho hx hc hs hi hw hit
      cases items with
      | nil => simp only [renderFor, fFor, run_pure]; rfl
      | cons item items =>
        simp only [renderFor, fFor]
        have hitem := hit item (List.mem_cons_self ..)
        have hfl : forLayer mc x i item = forLayer c0 x i item := by
          unfold forLayer; rw [hs forloopKey (by decide)]
        have h1 := ihN body (mc ++ [forLayer mc x i item]) (c0 ++ [forLayer c0 x i item]) w hp ho
          (ctxFree_push mc _ hc (forLayer_free mc x i item hc hitem))
          (by rw [hfl]; exact sameNI_push mc c0 _ hs) (cinv_push cid c0 _ hi (forLayer_internal c0 x i item hx)) hw
        refine run_bind_as _ _ _ _ _ h1 ?_
        intro a st1
        refine run_bind_as _ _ _ _ _ (ihF' x items (i + 1) body mc c0 w st1 hp ho hx hc hs hi hw (fun it h => hit it (List.mem_cons_of_mem _ h))) ?_
        intro b st2
        rfl
    · intro nd mc c0 w hp ho hc hs hi hw
      have hsv := sameVars_of_sameNI mc c0 hs
      unfold renderNode fNode
      simp only [run_bind, run_get]
      by_cases hst : w.steps ≥ env.maxSteps
      · simp only [hst, if_true, run_bind, run_throw]; rfl
      · simp only [hst, if_false, run_bind, run_set]
        cases nd with
        | text s => rfl
        | out e =>
          simp only [okS] at ho
          have hv := evalExpr_free mc e hc
          have hE := evalExpr_same mc c0 e hsv ho
          simp only [← hE]
          cases hev : evalExpr mc e <;> simp only [hev, slotFree] at hv ⊢ <;> first | rfl | cases hv
        | ifn c t e =>
          simp only [slotty, okS, Bool.and_eq_true] at hp ho
          simp only [← evalExpr_same mc c0 c hsv ho.1.1]
          split
          · exact ihN' t mc c0 w _ hp.1 ho.1.2 hc hs hi hw
          · exact ihN' e mc c0 w _ hp.2 ho.2 hc hs hi hw
        | forn x e body =>
          simp only [slotty, okS, Bool.and_eq_true, Bool.not_eq_true'] at hp ho
          simp only [← evalExpr_same mc c0 e hsv ho.1.2]
          exact ihF' x _ 0 body mc c0 w _ hp ho.2 ho.1.1 hc hs hi hw (iterVals_free _ (evalExpr_free mc e hc))
        | withn x e body =>
          simp only [slotty, okS, Bool.and_eq_true, Bool.not_eq_true'] at hp ho
          simp only [← evalExpr_same mc c0 e hsv ho.1.2]
          refine ihN' body _ _ w _ hp ho.2 (ctxFree_push mc _ hc ?_) (sameNI_push mc c0 _ hs)
            (cinv_push cid c0 _ hi (withLayer_internal x _ ho.1.1)) hw
          simp [slotFreeKvs, evalExpr_free mc e hc]
        | elem tag body =>
          simp only [slotty, okS] at hp ho
          refine run_bind_as _ _ _ _ _ (ihN' body mc c0 w _ hp ho hc hs hi hw) ?_
          intro a st1
          rfl
        | slot nameE isDefault isRequired data body =>
          simp only [slotty, okS, Bool.and_eq_true, Bool.not_eq_true'] at hp ho
          simp only [↓reduceIte]
          cases n with
          | zero => simp only [renderSlot, run_throw]; rfl
          | succ m =>
            obtain ⟨ihNm, _, _⟩ := ihAll m (by omega)
            obtain ⟨hocout, hocK⟩ := hcc.outer
            have hname : evalExpr mc nameE = evalExpr c0 nameE := evalExpr_same mc c0 nameE hsv ho.1.1
            have hdata : evalKwargs mc data = evalKwargs c0 data := by
              unfold evalKwargs
              apply List.map_congr_left
              intro kv hkv
              have := List.all_eq_true.mp ho.1.2 kv hkv
              rw [evalExpr_same mc c0 kv.2 hsv this]
            have hext : isExtracting mc = false := by
              unfold isExtracting ctxHas
              rw [hs fillGenKey (by decide), hi.2]; rfl
            have hcid : ctxGet mc compKey = some (.compRef cid) := by rw [hs compKey (by decide)]; exact hi.1
            have hfacts : cc.fills = [(nm, { nodes := fnodes, dataVar := none, defaultVar := none, extra := [] })] ∧ cc.isDyn = false ∧
                cc.outer = some oc := ⟨hcc.fills, hcc.notDyn, hocout⟩
            unfold renderSlot
            simp only [hname, hdata]
            by_cases hdeep : ((evalKwargs c0 data).any fun kv => tooDeep 10 kv.2) = true
            · simp only [hdeep, ↓reduceIte, run_bind, run_throw, slotGate0]; rfl
            · simp only [hdeep, Bool.false_eq_true, ↓reduceIte, run_bind, run_pure, hext, hcid, run_get, hw, hfacts.1, hfacts.2.1,
                hfacts.2.2, hp.1, slotChecks, chooseFillName, Bool.false_and, ne_eq, not_true_eq_false, Option.isNone_some,
                Bool.and_false, slotGate0]
              by_cases hhash : (!hashable (evalExpr c0 nameE)) = true
              · simp only [hhash, ↓reduceIte, run_bind, run_throw]; rfl
              · simp only [hhash, Bool.false_eq_true, ↓reduceIte, run_bind, run_pure, run_get]
                by_cases hmatch : slotNameOf (evalExpr c0 nameE) = nm
                · -- the fill addressed to this slot
                  simp only [hmatch, sGet, ↓reduceIte, requiredCheck, Option.isNone_some, Bool.and_false, Bool.false_and,
                    Bool.false_eq_true, Option.getD_some, hocK, ite_self, run_pure, Option.isSome_some, Bool.true_and]
                  have hextra : slotFreeKvs (updateL [] (injectKeysOf mc)) = true := updateL_free _ _ rfl (injectKeys_free mc hc)
                  cases hiso : env.isolated with
                  | true =>
                    simp only [↓reduceIte, Option.getD_some]
                    have hfin : ∀ j, (renderNodes env m fnodes (insertAt j [] (oc ++ [updateL [] (injectKeysOf mc)]))).run.run
                        (setSteps w (w.steps + 1)) = asWorld w (pNodes env.maxSteps m fnodes oc (w.steps + 1)) := by
                      intro j
                      have hfree : ctxFree (insertAt j [] (oc ++ [updateL [] (injectKeysOf mc)])) = true :=
                        ctxFree_insert_empty _ _ (ctxFree_push oc _ hoc hextra)
                      have hsame : SameVars (insertAt j [] (oc ++ [updateL [] (injectKeysOf mc)])) oc := by
                        intro k hk
                        rw [ctxGet_insert_empty, ctxGet_append_one, extra_lookup mc k (notInject_of_usable k hk)]
                      have := (model_plain env m).1 fnodes _ (setSteps w (w.steps + 1)) hfp hfree
                      rw [this, (pNodes_same env.maxSteps m).1 fnodes _ _ _ hfp hfo hsame]
                      simp
                    split
                    · exact hfin _
                    · exact hfin _
                  | false =>
                    simp only [Bool.false_eq_true, ↓reduceIte]
                    have hfin : ∀ j, (renderNodes env m fnodes (insertAt j [] (mc ++ [updateL [] (injectKeysOf mc)]))).run.run
                        (setSteps w (w.steps + 1)) = asWorld w (pNodes env.maxSteps m fnodes c0 (w.steps + 1)) := by
                      intro j
                      have hsame : SameVars (insertAt j [] (mc ++ [updateL [] (injectKeysOf mc)])) c0 :=
                        sameVars_of_sameNI _ _ (slot_ctx_sameNI mc c0 j hs)
                      have := (model_plain env m).1 fnodes _ (setSteps w (w.steps + 1)) hfp (slot_ctx_free mc j hc)
                      rw [this, (pNodes_same env.maxSteps m).1 fnodes _ _ _ hfp hfo hsame]
                      simp
                    split
                    · exact hfin _
                    · exact hfin _
                · -- not this slot: its own default content (or the `required` error)
                  have hnm : ¬ nm = slotNameOf (evalExpr c0 nameE) := fun e => hmatch e.symm
                  simp only [hmatch, hnm, sGet, ↓reduceIte, requiredCheck, Option.isNone_none, Bool.and_true, Bool.not_false]
                  cases hreq : isRequired with
                  | true => simp only [↓reduceIte, run_throw]; rfl
                  | false =>
                    simp only [Bool.false_eq_true, ↓reduceIte, run_pure, hocK, Option.getD_none, ite_self]
                    have hfin : ∀ j, (renderNodes env m body (insertAt j [] (mc ++ [updateL [] (injectKeysOf mc)]))).run.run
                        (setSteps w (w.steps + 1)) = asWorld w (fNodes true env.maxSteps nm fnodes (if env.isolated then some oc else none) m body c0 (w.steps + 1)) := by
                      intro j
                      have := ihNm body (insertAt j [] (mc ++ [updateL [] (injectKeysOf mc)])) c0 (setSteps w (w.steps + 1)) hp.2 ho.2
                        (slot_ctx_free mc j hc) (slot_ctx_sameNI mc c0 j hs) hi hw
                      simpa using this
                    split
                    · exact hfin _
                    · exact hfin _
        | _ => simp [slotty] at hp


/-! ### the reading of the properties -/

open Djc.SpecRender

/-- the state after a run of the reading on this fragment: the step counter and the slot-reference counter moved -/
def setSR (s : SState) (st k : Nat) : SState := { s with steps := st, nextRef := s.nextRef + k }
@[simp] theorem setSR_steps (s : SState) (st k : Nat) : (setSR s st k).steps = st := rfl
@[simp] theorem setSR_setSR (s : SState) (a k b k' : Nat) : setSR (setSR s a k) b k' = setSR s b (k + k') := by
  simp [setSR, Nat.add_assoc]
def asSpecR (s : SState) (r : PR) (k : Nat) : Except Err (List Tok × SState) :=
  match r with
  | (.ok a, st) => .ok (a, setSR s st k)
  | (.error e, _) => .error e
@[simp] theorem asSpecR_ok (s : SState) (a : List Tok) (st k : Nat) : asSpecR s (.ok a, st) k = .ok (a, setSR s st k) := rfl
@[simp] theorem asSpecR_error (s : SState) (e : Err) (st k : Nat) : asSpecR s (.error e, st) k = .error e := rfl
@[simp] theorem asSpecR_setSR (s : SState) (a k : Nat) (r : PR) (k' : Nat) : asSpecR (setSR s a k) r k' = asSpecR s r (k + k') := by
  rcases r with ⟨r, st⟩; cases r <;> simp [asSpecR]

theorem asSpec_eq_asSpecR (s : SState) (r : PR) : asSpec s r = asSpecR s r 0 := by
  rcases r with ⟨r, st⟩; cases r <;> rfl

theorem srun_bind_asR (x : S (List Tok)) (f : List Tok → S (List Tok)) (sc s : SState) (r : PR) (g : List Tok → Nat → PR)
    (hx : ∃ k, x.run sc = asSpecR s r k)
    (hf : ∀ a st k, ∃ k', (f a).run (setSR s st k) = asSpecR s (g a st) k') :
    ∃ k, (x >>= f).run sc = asSpecR s (pbind r g) k := by
  obtain ⟨k, hx⟩ := hx
  rw [srun_bind, hx]
  rcases r with ⟨r, st⟩
  cases r with
  | error e => exact ⟨k, rfl⟩
  | ok a => simpa [pbind] using hf a st k

theorem ctxGet_append_nil_layer (c : Ctx) (k : Str) : ctxGet (c ++ [[]]) k = ctxGet c k := by
  rw [ctxGet_append_one]; rfl

theorem spec_filled (env : Env) (inst : Inst) (nm : Str) (fnodes : List Node) (lex : SEnv) (fc : Option Ctx)
    (hinst : inst.fills = [(nm, Closure.mk fnodes none none lex [] none)]) (hlexi : lex.inst = none)
    (hfc : fc = if env.isolated || inst.lexical then some lex.vars else none)
    (hfp : plainL fnodes = true) (hfo : okNamesL fnodes = true) (hlexfree : ctxFree lex.vars = true) : ∀ n,
    (∀ nodes (e : SEnv) s, slottyL nodes = true → ctxFree e.vars = true → e.inst = some inst →
      ∃ k, (sNodes env n nodes e).run s = asSpecR s (fNodes false env.maxSteps nm fnodes fc n nodes e.vars s.steps) k) ∧
    (∀ x items i body (e : SEnv) s, slottyL body = true → ctxFree e.vars = true → e.inst = some inst → (∀ it ∈ items, slotFree it = true) →
      ∃ k, (sFor env n x items i body e).run s = asSpecR s (fFor false env.maxSteps nm fnodes fc n x items i body e.vars s.steps) k) ∧
    (∀ nd (e : SEnv) s, slotty nd = true → ctxFree e.vars = true → e.inst = some inst →
      ∃ k, (sNode env n nd e).run s = asSpecR s (fNode false env.maxSteps nm fnodes fc n nd e.vars s.steps) k) := by
  intro n
  induction n with
  | zero =>
    refine ⟨?_, ?_, ?_⟩
    · intro nodes e s _ _ _; exact ⟨0, by simp only [sNodes, fNodes, srun_throw]; rfl⟩
    · intro x items i body e s _ _ _ _; exact ⟨0, by simp only [sFor, fFor, srun_throw]; rfl⟩
    · intro nd e s _ _ _; exact ⟨0, by simp only [sNode, fNode, srun_throw]; rfl⟩
  | succ n ih =>
    obtain ⟨ihN, ihF, ihD⟩ := ih
    have ihN' : ∀ nodes (e : SEnv) s st k, slottyL nodes = true → ctxFree e.vars = true → e.inst = some inst →
        ∃ k', (sNodes env n nodes e).run (setSR s st k) = asSpecR s (fNodes false env.maxSteps nm fnodes fc n nodes e.vars st) k' := by
      intro nodes e s st k hp hc hi
      obtain ⟨k', h⟩ := ihN nodes e (setSR s st k) hp hc hi
      exact ⟨k + k', by simpa using h⟩
    have ihF' : ∀ x items i body (e : SEnv) s st k, slottyL body = true → ctxFree e.vars = true → e.inst = some inst →
        (∀ it ∈ items, slotFree it = true) →
        ∃ k', (sFor env n x items i body e).run (setSR s st k) = asSpecR s (fFor false env.maxSteps nm fnodes fc n x items i body e.vars st) k' := by
      intro x items i body e s st k hp hc hi hit
      obtain ⟨k', h⟩ := ihF x items i body e (setSR s st k) hp hc hi hit
      exact ⟨k + k', by simpa using h⟩
    have hs0 : ∀ (s : SState), s = setSR s s.steps 0 := fun s => rfl
    refine ⟨?_, ?_, ?_⟩
    · intro nodes e s hp hc hi
      cases nodes with
      | nil => exact ⟨0, by simp only [sNodes, fNodes, srun_pure]; rfl⟩
      | cons nd rest =>
        simp only [slottyL, Bool.and_eq_true] at hp
        simp only [sNodes, fNodes]
        refine srun_bind_asR _ _ s s _ _ (ihD nd e s hp.1 hc hi) ?_
        intro a st1 k1
        refine srun_bind_asR _ _ _ s _ _ (ihN' rest e s st1 k1 hp.2 hc hi) ?_
        intro b st2 k2
        exact ⟨k2, rfl⟩
    · intro x items i body e s hp hc hi hit
      cases items with
      | nil => exact ⟨0, by simp only [sFor, fFor, srun_pure]; rfl⟩
      | cons item items =>
        simp only [sFor, fFor]
        have hitem := hit item (List.mem_cons_self ..)
        have h1 := ihN body (e.push (forLayer e.vars x i item)) s hp
          (by rw [push_vars]; exact ctxFree_push e.vars _ hc (forLayer_free e.vars x i item hc hitem)) (by rw [push_inst]; exact hi)
        rw [push_vars] at h1
        refine srun_bind_asR _ _ s s _ _ h1 ?_
        intro a st1 k1
        refine srun_bind_asR _ _ _ s _ _ (ihF' x items (i + 1) body e s st1 k1 hp hc hi (fun it h => hit it (List.mem_cons_of_mem _ h))) ?_
        intro b st2 k2
        exact ⟨k2, rfl⟩
    · intro nd e s hp hc hi
      unfold sNode fNode
      simp only [srun_bind, srun_get]
      by_cases hst : s.steps ≥ env.maxSteps
      · exact ⟨0, by simp only [hst, if_true, srun_bind, srun_throw]; rfl⟩
      · simp only [hst, if_false, srun_bind, srun_set]
        have hw1 : ({ s with steps := s.steps + 1 } : SState) = setSR s (s.steps + 1) 0 := rfl
        cases nd with
        | text t => exact ⟨0, rfl⟩
        | out ex =>
          have hv := evalExpr_free e.vars ex hc
          refine ⟨0, ?_⟩
          simp only
          cases hev : evalExpr e.vars ex <;> simp only [hev, slotFree] at hv ⊢ <;> first | rfl | cases hv
        | ifn c t el =>
          simp only [slotty, Bool.and_eq_true] at hp
          simp only
          rw [hw1]
          split
          · exact ihN' t e s _ 0 hp.1 hc hi
          · exact ihN' el e s _ 0 hp.2 hc hi
        | forn x ex body =>
          simp only [slotty] at hp
          rw [hw1]
          exact ihF' x _ 0 body e s _ 0 hp hc hi (iterVals_free _ (evalExpr_free e.vars ex hc))
        | withn x ex body =>
          simp only [slotty] at hp
          rw [hw1]
          have h1 := ihN' body (e.push [(x, evalExpr e.vars ex)]) s (s.steps + 1) 0 hp
            (by rw [push_vars]; exact ctxFree_push e.vars _ hc (by simp [slotFreeKvs, evalExpr_free e.vars ex hc]))
            (by rw [push_inst]; exact hi)
          rw [push_vars] at h1
          exact h1
        | elem tag body =>
          simp only [slotty] at hp
          rw [hw1]
          refine srun_bind_asR _ _ _ s _ _ (ihN' body e s _ 0 hp hc hi) ?_
          intro a st1 k1
          exact ⟨k1, rfl⟩
        | slot nameE isDefault isRequired data body =>
          simp only [slotty, Bool.and_eq_true, Bool.not_eq_true'] at hp
          simp only [Bool.false_eq_true, ↓reduceIte, slotGate0]
          by_cases hdeep : ((evalKwargs e.vars data).any fun kv => tooDeep 10 kv.2) = true
          · exact ⟨0, by simp only [hdeep, ↓reduceIte, srun_bind, srun_throw]; rfl⟩
          · simp only [hdeep, Bool.false_eq_true, ↓reduceIte, srun_bind, srun_pure, hi, hp.1, Bool.false_and]
            by_cases hhash : (!hashable (evalExpr e.vars nameE)) = true
            · exact ⟨0, by simp only [hhash, ↓reduceIte, srun_bind, srun_throw]; rfl⟩
            · simp only [hhash, Bool.false_eq_true, ↓reduceIte, srun_bind, srun_pure, hinst, cGet]
              by_cases hmatch : slotNameOf (evalExpr e.vars nameE) = nm
              · have hnm : nm = slotNameOf (evalExpr e.vars nameE) := hmatch.symm
                simp only [← hnm, ↓reduceIte, Closure.content, Closure.nodes, Closure.dataVar, Closure.defaultVar, Closure.lex,
                  Closure.between, hlexi, srun_bind, srun_get, srun_set]
                have hv : ∀ (X : Ctx) p i dd, (SEnv.mk X p i dd).vars = X := fun _ _ _ _ => rfl
                cases hmode : (env.isolated || inst.lexical) with
                | true =>
                  simp only [↓reduceIte, hfc, hmode, Option.getD_some]
                  have hfree : ctxFree (lex.vars ++ [[]]) = true := ctxFree_push lex.vars [] hlexfree rfl
                  have hsame : SameVars (lex.vars ++ [[]]) lex.vars := fun k _ => ctxGet_append_nil_layer lex.vars k
                  have := (spec_plain env n).1 fnodes (SEnv.mk (lex.vars ++ [[]]) e.prov none ((s.nextRef, body, e) :: lex.dflts ++ e.dflts))
                    { s with steps := s.steps + 1, nextRef := s.nextRef + 1 } hfp (by rw [hv]; exact hfree)
                  rw [hv] at this
                  rw [this, (pNodes_same env.maxSteps n).1 fnodes _ _ _ hfp hfo hsame]
                  refine ⟨1, ?_⟩
                  rcases pNodes env.maxSteps n fnodes lex.vars (s.steps + 1) with ⟨r, st⟩
                  cases r <;> rfl
                | false =>
                  simp only [Bool.false_eq_true, ↓reduceIte, hfc, hmode, Option.getD_none]
                  have hfree : ctxFree (insertAt inst.dataIdx [] e.vars ++ [[]]) = true :=
                    ctxFree_push _ [] (ctxFree_insert_empty _ _ hc) rfl
                  have hsame : SameVars (insertAt inst.dataIdx [] e.vars ++ [[]]) e.vars := by
                    intro k _
                    rw [ctxGet_append_nil_layer, ctxGet_insert_empty]
                  have := (spec_plain env n).1 fnodes (SEnv.mk (insertAt inst.dataIdx [] e.vars ++ [[]]) e.prov none ((s.nextRef, body, e) :: lex.dflts ++ e.dflts))
                    { s with steps := s.steps + 1, nextRef := s.nextRef + 1 } hfp (by rw [hv]; exact hfree)
                  rw [hv] at this
                  rw [this, (pNodes_same env.maxSteps n).1 fnodes _ _ _ hfp hfo hsame]
                  refine ⟨1, ?_⟩
                  rcases pNodes env.maxSteps n fnodes e.vars (s.steps + 1) with ⟨r, st⟩
                  cases r <;> rfl
              · have hnm : ¬ nm = slotNameOf (evalExpr e.vars nameE) := fun e => hmatch e.symm
                simp only [hmatch, hnm, ↓reduceIte]
                cases hreq : isRequired with
                | true => exact ⟨0, by simp only [↓reduceIte, srun_throw]; rfl⟩
                | false =>
                  simp only [Bool.false_eq_true, ↓reduceIte]
                  rw [hw1]
                  exact ihN' body e s _ 0 hp.2 hc hi
        | _ => simp [slotty] at hp

/-! ### the reference interpreter: usable names, placeholders, fuel -/

/-- the two fill contexts resolve every usable name alike (or there is none on either side) -/
def FcRel (fc1 fc2 : Option Ctx) : Prop := (fc1 = none ∧ fc2 = none) ∨ (∃ x y, fc1 = some x ∧ fc2 = some y ∧ SameVars x y)

theorem fNodes_same (two : Bool) (mx : Nat) (nm : Str) (fnodes : List Node) (fc fc2 : Option Ctx) (hrel : FcRel fc fc2)
    (hfp : plainL fnodes = true) (hfo : okNamesL fnodes = true) : ∀ n,
    (∀ nodes a b st, slottyL nodes = true → okSL nodes = true → SameVars a b → fNodes two mx nm fnodes fc n nodes a st = fNodes two mx nm fnodes fc2 n nodes b st) ∧
    (∀ x items i body a b st, slottyL body = true → okSL body = true → SameVars a b →
      fFor two mx nm fnodes fc n x items i body a st = fFor two mx nm fnodes fc2 n x items i body b st) ∧
    (∀ nd a b st, slotty nd = true → okS nd = true → SameVars a b → fNode two mx nm fnodes fc n nd a st = fNode two mx nm fnodes fc2 n nd b st) := by
  intro n
  induction n using Nat.strongRecOn with
  | _ n ihAll =>
  cases n with
  | zero =>
    refine ⟨?_, ?_, ?_⟩
    · intro nodes a b st _ _ _; simp only [fNodes]
    · intro x items i body a b st _ _ _; simp only [fFor]
    · intro nd a b st _ _ _; simp only [fNode]
  | succ n =>
    obtain ⟨ihN, ihF, ihD⟩ := ihAll n (Nat.lt_succ_self n)
    refine ⟨?_, ?_, ?_⟩
    · intro nodes a b st hp ho hs
      cases nodes with
      | nil => simp only [fNodes]
      | cons nd rest =>
        simp only [slottyL, okSL, Bool.and_eq_true] at hp ho
        simp only [fNodes, ihD nd a b st hp.1 ho.1 hs]
        congr 1
        funext t st1
        rw [ihN rest a b st1 hp.2 ho.2 hs]
    · intro x items i body a b st hp ho hs
      cases items with
      | nil => simp only [fFor]
      | cons item items =>
        simp only [fFor, forLayer_same a b x i item hs,
          ihN body (a ++ [forLayer b x i item]) (b ++ [forLayer b x i item]) st hp ho (sameVars_push a b _ hs)]
        congr 1
        funext t st1
        rw [ihF x items (i + 1) body a b st1 hp ho hs]
    · intro nd a b st hp ho hs
      unfold fNode
      by_cases hst : st ≥ mx
      · simp [hst]
      · simp only [hst, ↓reduceIte]
        cases nd with
        | text s => rfl
        | out e => simp only [okS] at ho; simp only [evalExpr_same a b e hs ho]
        | ifn c t e =>
          simp only [slotty, okS, Bool.and_eq_true] at hp ho
          simp only [evalExpr_same a b c hs ho.1.1, ihN t a b _ hp.1 ho.1.2 hs, ihN e a b _ hp.2 ho.2 hs]
        | forn x e body =>
          simp only [slotty, okS, Bool.and_eq_true] at hp ho
          simp only [evalExpr_same a b e hs ho.1.2, ihF x _ 0 body a b _ hp ho.2 hs]
        | withn x e body =>
          simp only [slotty, okS, Bool.and_eq_true] at hp ho
          simp only [evalExpr_same a b e hs ho.1.2]
          exact ihN body _ _ _ hp ho.2 (sameVars_push a b _ hs)
        | elem tag body =>
          simp only [slotty, okS] at hp ho
          simp only [ihN body a b _ hp ho hs]
        | slot nameE isDefault req data body =>
          simp only [slotty, okS, Bool.and_eq_true] at hp ho
          have hgate : slotGate0 a nameE data = slotGate0 b nameE data := by
            have hdata : evalKwargs a data = evalKwargs b data := by
              unfold evalKwargs
              apply List.map_congr_left
              intro kv hkv
              rw [evalExpr_same a b kv.2 hs (List.all_eq_true.mp ho.1.2 kv hkv)]
            unfold slotGate0
            rw [hdata, evalExpr_same a b nameE hs ho.1.1]
          have hfill : ∀ k st', pNodes mx k fnodes (fc.getD a) st' = pNodes mx k fnodes (fc2.getD b) st' := by
            intro k st'
            rcases hrel with ⟨h1, h2⟩ | ⟨x, y, h1, h2, hxy⟩
            · rw [h1, h2]; exact (pNodes_same mx k).1 fnodes a b st' hfp hfo hs
            · rw [h1, h2]; exact (pNodes_same mx k).1 fnodes x y st' hfp hfo hxy
          simp only [hgate, evalExpr_same a b nameE hs ho.1.1, hfill, ihN body a b _ hp.2 ho.2 hs]
          cases two with
          | false => rfl
          | true =>
            simp only [↓reduceIte]
            cases n with
            | zero => rfl
            | succ m =>
              simp only
              rw [(ihAll m (by omega)).1 body a b _ hp.2 ho.2 hs]
        | _ => simp [slotty] at hp


theorem fNodes_noHole (two : Bool) (mx : Nat) (nm : Str) (fnodes : List Node) (fc : Option Ctx) : ∀ n,
    (∀ nodes ctx st toks st', fNodes two mx nm fnodes fc n nodes ctx st = (.ok toks, st') → toks.all noHole = true) ∧
    (∀ x items i body ctx st toks st', fFor two mx nm fnodes fc n x items i body ctx st = (.ok toks, st') → toks.all noHole = true) ∧
    (∀ nd ctx st toks st', fNode two mx nm fnodes fc n nd ctx st = (.ok toks, st') → toks.all noHole = true) := by
  intro n
  induction n using Nat.strongRecOn with
  | _ n ihAll =>
  cases n with
  | zero =>
    refine ⟨?_, ?_, ?_⟩
    · intro nodes ctx st toks st' h; simp [fNodes] at h
    · intro x items i body ctx st toks st' h; simp [fFor] at h
    · intro nd ctx st toks st' h; simp [fNode] at h
  | succ n =>
    obtain ⟨ihN, ihF, ihD⟩ := ihAll n (Nat.lt_succ_self n)
    have hseq : ∀ (r1 : PR) (g : List Tok → Nat → PR) toks st',
        (∀ a s1, r1 = (.ok a, s1) → a.all noHole = true) →
        (∀ a s1 b s2, g a s1 = (.ok b, s2) → a.all noHole = true → b.all noHole = true) →
        pbind r1 g = (.ok toks, st') → toks.all noHole = true := by
      intro r1 g toks st' h1 h2 h
      rcases r1 with ⟨r, s1⟩
      cases r with
      | error e => simp [pbind] at h
      | ok a => exact h2 a s1 toks st' h (h1 a s1 rfl)
    refine ⟨?_, ?_, ?_⟩
    · intro nodes ctx st toks st' h
      cases nodes with
      | nil => simp only [fNodes, Prod.mk.injEq, Except.ok.injEq] at h; rw [← h.1]; rfl
      | cons nd rest =>
        simp only [fNodes] at h
        refine hseq _ _ toks st' (fun a s1 e => ihD nd ctx st a s1 e) ?_ h
        intro a s1 b s2 hb ha
        refine hseq _ _ b s2 (fun c s3 e => ihN rest ctx s1 c s3 e) ?_ hb
        intro c s3 d s4 hd hc
        simp only [Prod.mk.injEq, Except.ok.injEq] at hd
        rw [← hd.1, List.all_append, ha, hc]; rfl
    · intro x items i body ctx st toks st' h
      cases items with
      | nil => simp only [fFor, Prod.mk.injEq, Except.ok.injEq] at h; rw [← h.1]; rfl
      | cons item items =>
        simp only [fFor] at h
        refine hseq _ _ toks st' (fun a s1 e => ihN body _ st a s1 e) ?_ h
        intro a s1 b s2 hb ha
        refine hseq _ _ b s2 (fun c s3 e => ihF x items (i + 1) body ctx s1 c s3 e) ?_ hb
        intro c s3 d s4 hd hc
        simp only [Prod.mk.injEq, Except.ok.injEq] at hd
        rw [← hd.1, List.all_append, ha, hc]; rfl
    · intro nd ctx st toks st' h
      unfold fNode at h
      by_cases hst : st ≥ mx
      · simp [hst] at h
      · simp only [hst, ↓reduceIte] at h
        cases nd with
        | text s => simp only [Prod.mk.injEq, Except.ok.injEq] at h; rw [← h.1]; rfl
        | out e => simp only [Prod.mk.injEq, Except.ok.injEq] at h; rw [← h.1]; rfl
        | ifn c t e =>
          simp only at h
          split at h
          · exact ihN t ctx _ toks st' h
          · exact ihN e ctx _ toks st' h
        | forn x e body => exact ihF x _ 0 body ctx _ toks st' h
        | withn x e body => exact ihN body _ _ toks st' h
        | elem tag body =>
          simp only at h
          refine hseq _ _ toks st' (fun a s1 e => ihN body ctx _ a s1 e) ?_ h
          intro a s1 b s2 hb ha
          simp only [Prod.mk.injEq, Except.ok.injEq] at hb
          rw [← hb.1]
          simp [List.all_append, ha, noHole]
        | slot nameE isDefault req data body =>
          simp only at h
          cases two with
          | false =>
            simp only [Bool.false_eq_true, ↓reduceIte] at h
            split at h
            · simp at h
            · split at h
              · exact (pNodes_noHole mx n).1 _ _ _ toks st' h
              · split at h
                · simp at h
                · exact ihN body ctx _ toks st' h
          | true =>
            simp only [↓reduceIte] at h
            cases n with
            | zero => simp at h
            | succ m =>
              simp only at h
              split at h
              · simp at h
              · split at h
                · exact (pNodes_noHole mx m).1 _ _ _ toks st' h
                · split at h
                  · simp at h
                  · exact (ihAll m (by omega)).1 body ctx _ toks st' h
        | _ => simp at h


/-- what the model-shaped interpreter answers (unless it ran out of fuel), the reading-shaped one answers with the same
or more fuel -/
theorem f_true_false (mx : Nat) (nm : Str) (fnodes : List Node) (fc : Option Ctx) : ∀ n,
    (∀ nodes ctx st k, notFuel (fNodes true mx nm fnodes fc n nodes ctx st) →
      fNodes false mx nm fnodes fc (n + k) nodes ctx st = fNodes true mx nm fnodes fc n nodes ctx st) ∧
    (∀ x items i body ctx st k, notFuel (fFor true mx nm fnodes fc n x items i body ctx st) →
      fFor false mx nm fnodes fc (n + k) x items i body ctx st = fFor true mx nm fnodes fc n x items i body ctx st) ∧
    (∀ nd ctx st k, notFuel (fNode true mx nm fnodes fc n nd ctx st) →
      fNode false mx nm fnodes fc (n + k) nd ctx st = fNode true mx nm fnodes fc n nd ctx st) := by
  intro n
  induction n using Nat.strongRecOn with
  | _ n ihAll =>
  cases n with
  | zero =>
    refine ⟨?_, ?_, ?_⟩
    · intro nodes ctx st k h; simp [fNodes, notFuel] at h
    · intro x items i body ctx st k h; simp [fFor, notFuel] at h
    · intro nd ctx st k h; simp [fNode, notFuel] at h
  | succ n =>
    obtain ⟨ihN, ihF, ihD⟩ := ihAll n (Nat.lt_succ_self n)
    refine ⟨?_, ?_, ?_⟩
    · intro nodes ctx st k h
      have e : n + 1 + k = (n + k) + 1 := by omega
      rw [e]
      cases nodes with
      | nil => simp only [fNodes]
      | cons nd rest =>
        simp only [fNodes] at h ⊢
        refine pbind_mono _ _ _ _ (ihD nd ctx st k) ?_ h
        intro a s1 h2
        refine pbind_mono _ _ _ _ (ihN rest ctx s1 k) ?_ h2
        intro b s2 _
        rfl
    · intro x items i body ctx st k h
      have e : n + 1 + k = (n + k) + 1 := by omega
      rw [e]
      cases items with
      | nil => simp only [fFor]
      | cons item items =>
        simp only [fFor] at h ⊢
        refine pbind_mono _ _ _ _ (ihN body _ st k) ?_ h
        intro a s1 h2
        refine pbind_mono _ _ _ _ (ihF x items (i + 1) body ctx s1 k) ?_ h2
        intro b s2 _
        rfl
    · intro nd ctx st k h
      have e : n + 1 + k = (n + k) + 1 := by omega
      rw [e]
      unfold fNode at h
      unfold fNode
      by_cases hst : st ≥ mx
      · simp [hst]
      · simp only [hst, ↓reduceIte] at h ⊢
        cases nd with
        | ifn c t e =>
          simp only at h ⊢
          split
          · rename_i hc; simp only [hc, ↓reduceIte] at h; exact ihN t ctx _ k h
          · rename_i hc; simp only [hc, ↓reduceIte] at h; exact ihN e ctx _ k h
        | forn x e body => exact ihF x _ 0 body ctx _ k h
        | withn x e body => exact ihN body _ _ k h
        | elem tag body =>
          simp only at h ⊢
          refine pbind_mono _ _ _ _ (ihN body ctx _ k) ?_ h
          intro a s1 _
          rfl
        | slot nameE isDefault req data body =>
          simp only [↓reduceIte, Bool.false_eq_true] at h ⊢
          cases n with
          | zero => simp [notFuel] at h
          | succ m =>
            simp only at h ⊢
            cases hg : slotGate0 ctx nameE data with
            | some er => simp only [hg]
            | none =>
              simp only [hg] at h ⊢
              by_cases hm : slotNameOf (evalExpr ctx nameE) = nm
              · simp only [hm, ↓reduceIte] at h ⊢
                have e2 : m + 1 + k = m + (1 + k) := by omega
                rw [e2]
                exact pNodes_mono_add mx m (1 + k) fnodes _ _ h
              · simp only [hm, ↓reduceIte] at h ⊢
                cases req with
                | true => rfl
                | false =>
                  simp only [Bool.false_eq_true, ↓reduceIte] at h ⊢
                  have := (ihAll m (by omega)).1 body ctx (st + 1) (1 + k) h
                  have e2 : m + (1 + k) = m + 1 + k := by omega
                  rw [e2] at this
                  exact this
        | _ => rfl


/-! ### the deferred pipeline for the filled component (model of the code) -/

theorem runRenderer_filled (env : Env) (i : Nat) (r : Renderer) (cc : CompCtx) (d : CompDef) (w : World) (toks : List Tok) (st : Nat)
    (hr : env.raiseAt = none) (hdyn : r.dynInner = none) (hd : findDef env r.name = some d)
    (nm : Str) (fnodes : List Node) (oc : Ctx)
    (hcc : alGet r.id w.ctxCache = some cc) (hun : FilledBy cc nm fnodes oc) (hfp : plainL fnodes = true) (hfo : okNamesL fnodes = true)
    (hoc : ctxFree oc = true) (hinv : CInv r.id r.ctx)
    (hp : slottyL d.template = true) (ho : okSL d.template = true) (hc : ctxFree r.ctx = true)
    (hok : fNodes true env.maxSteps nm fnodes (if env.isolated then some oc else none) i d.template r.ctx w.steps = (.ok toks, st)) :
    (runRenderer env (i + 1) r []).run.run w =
      (.ok (.marker r.name r.id :: addRootAttrs [idAttr r.id] toks, rootHoles [idAttr r.id] toks),
        { w with events := w.events ++ [.before r.id], steps := st }) := by
  unfold runRenderer
  simp only [hdyn, Option.isNone_none, ↓reduceIte, run_bind, run_tick_plain env (.before r.id) w hr (by intro id h; cases h), hd]
  have := (model_filled env r.id cc nm fnodes oc hun hfp hfo hoc i).1 d.template r.ctx r.ctx { w with events := w.events ++ [.before r.id] } hp ho hc
    (sameNI_refl _) hinv hcc
  rw [this]
  have hs : ({ w with events := w.events ++ [.before r.id] } : World).steps = w.steps := rfl
  rw [hs, hok]
  simp only [asWorld_ok, run_pure, List.nil_append]
  rfl

theorem postRender_leaf_filled (env : Env) (i id : Nat) (r : Renderer) (cc : CompCtx) (d : CompDef) (w : World)
    (toks : List Tok) (st : Nat)
    (hr : env.raiseAt = none)
    (hrc : alGet id w.rendererCache = some r) (hrid : r.id = id) (hdyn : r.dynInner = none)
    (hca : alGet id w.childAttrs = none)
    (nm : Str) (fnodes : List Node) (oc : Ctx)
    (hcc : alGet id w.ctxCache = some cc) (hname : isDynName cc.name = false) (hun : FilledBy cc nm fnodes oc)
    (hfp : plainL fnodes = true) (hfo : okNamesL fnodes = true) (hoc : ctxFree oc = true) (hinv : CInv id r.ctx)
    (href : w.allRefIds.contains id = false)
    (hd : findDef env r.name = some d) (hp : slottyL d.template = true) (ho : okSL d.template = true) (hc : ctxFree r.ctx = true)
    (hok : fNodes true env.maxSteps nm fnodes (if env.isolated then some oc else none) (i + 1) d.template r.ctx w.steps = (.ok toks, st)) :
    (postRender env (i + 3) [{ before := [], child := some id, parent := none, grand := none }] [] []).run.run w =
      (.ok (.marker r.name id :: addRootAttrs [idAttr id] toks),
        { w with rendererCache := alDel id w.rendererCache, childAttrs := alDel id w.childAttrs,
                 ctxCache := alDel id w.ctxCache,
                 events := w.events ++ [.before id, .after id], steps := st }) := by
  subst hrid
  have hnh : toks.all noHole = true := (fNodes_noHole true env.maxSteps nm fnodes (if env.isolated then some oc else none) (i + 1)).1 _ _ _ _ _ hok
  have hnh' : (Tok.marker r.name r.id :: addRootAttrs [idAttr r.id] toks).all noHole = true := by
    simp only [List.all_cons, noHole, Bool.true_and, addRootAttrs]
    exact addRootAttrsAux_noHole _ _ _ hnh
  unfold postRender
  simp only [List.isEmpty_nil, ↓reduceIte, run_bind, run_pure, run_get, hrc, hca, Option.getD_none, run_set]
  have hw' : fNodes true env.maxSteps nm fnodes (if env.isolated then some oc else none) (i + 1) d.template r.ctx
      ({ w with rendererCache := alDel r.id w.rendererCache, childAttrs := alDel r.id w.childAttrs } : World).steps = (.ok toks, st) := hok
  rw [runRenderer_filled env (i + 1) r cc d ({ w with rendererCache := alDel r.id w.rendererCache, childAttrs := alDel r.id w.childAttrs } : World) toks st hr hdyn hd nm fnodes oc hcc hun hfp hfo hoc hinv hp ho hc hw']
  simp only [run_modify, rootHoles, rootHolesAux_noHole _ _ _ hnh, List.foldl_nil, List.append_nil]
  rw [splitHoles_noHole r.id none _ [] hnh']
  unfold postRender
  simp only [List.nil_append, run_bind, run_get, partsGet, alGet, Option.getD_none, alDel]
  have htick := fun w' => run_tick_plain env (Ev.after r.id) w' hr (by intro id h; cases h)
  simp only [hcc, Option.map_some, Option.getD_some, hname, Bool.not_false, ↓reduceIte, run_bind, htick, run_modify,
    unregisterRef, run_liftW, unregisterRefW, href, Bool.not_false, postRender, run_pure]
  simp


/-- the fill as the component receives it -/
abbrev theFill (fnodes : List Node) : FillFn := { nodes := fnodes, dataVar := none, defaultVar := none, extra := [] }

abbrev fillCC (name : Str) (id : Nat) (ctx : Ctx) (nm : Str) (fnodes : List Node) : CompCtx :=
  { name := name, id := id, path := [name], fills := [(nm, theFill fnodes)], isDyn := false, defaultSlot := none, outer := Option.map snapshot (some ctx) }
abbrev fillR (name : Str) (id : Nat) (ctx snap : Ctx) (nm : Str) (fnodes : List Node) : Renderer :=
  { id := id, name := name, ctx := snap, fills := [(nm, theFill fnodes)], outer := some ctx }
abbrev fillW (w : World) (name : Str) (ctx snap : Ctx) (nm : Str) (fnodes : List Node) (rc : Nat) : World :=
  { nextId := w.nextId + 1, ctxCache := alSet w.nextId (fillCC name w.nextId ctx nm fnodes) w.ctxCache, rendererCache := alSet w.nextId (fillR name w.nextId ctx snap nm fnodes) w.rendererCache, childAttrs := w.childAttrs, provideCache := [], provideRefs := w.provideRefs, allRefIds := w.allRefIds, cap := w.cap, events := w.events ++ [Ev.gcd w.nextId], rcLeak := rc, gcds := w.gcds + 1, steps := w.steps + 1 + 1 }

/-- the Context the filled component's template is rendered in -/
def fillCtx (ctx' : Ctx) (id : Nat) (kw : List (Str × Val)) (d : CompDef) (nm : Str) (fnodes : List Node) : Ctx :=
  snapshot (ctx' ++ [dataPure id kw d.data []] ++ [[(compKey, .compRef id), (compVarsKey, compVars [(nm, theFill fnodes)])]])

theorem filled_component (env : Env) (i : Nat) (name : Str) (kwargs : List (Str × Expr)) (only dyn : Bool)
    (nm : Str) (fnodes : List Node)
    (ctx ctx' : Ctx) (w : World) (d : CompDef) (toks : List Tok) (st : Nat)
    (hctx' : ctx' = if only || env.isolated then isolatedCopy ctx else ctx)
    (hr : env.raiseAt = none) (hd : findDef env name = some d) (hdyn : isDynName name = false)
    (hp : slottyL d.template = true) (ho : okSL d.template = true) (hsrc : d.data.all (fun kv => pureSrc kv.2) = true)
    (hfp : plainL fnodes = true) (hfo : okNamesL fnodes = true)
    (hsteps : ¬ w.steps + 1 ≥ env.maxSteps) (hgcd : w.gcds < env.maxInst)
    (hext : isExtracting ctx = false)
    (hcap : capturedExtra (ctx ++ [[(fillGenKey, .fillGen)]]) = [])
    (hpar : ∀ p, ctxGet ctx' compKey ≠ some (.compRef p))
    (hout : ctxGet (snapshot ctx) compKey = none) (hocfree : ctxFree (snapshot ctx) = true)
    (hprov : w.provideCache = [])
    (hf1 : alGet w.nextId w.ctxCache = none) (hf2 : alGet w.nextId w.rendererCache = none)
    (hf3 : alGet w.nextId w.childAttrs = none) (hf4 : w.allRefIds.contains w.nextId = false)
    (hc : ctxFree (fillCtx ctx' w.nextId (evalKwargs ctx kwargs) d nm fnodes) = true)
    (hfg : ctxGet (fillCtx ctx' w.nextId (evalKwargs ctx kwargs) d nm fnodes) fillGenKey = none)
    (hok : fNodes true env.maxSteps nm fnodes (if env.isolated then some (snapshot ctx) else none) (i + 1) d.template
      (fillCtx ctx' w.nextId (evalKwargs ctx kwargs) d nm fnodes) (w.steps + 2) = (.ok toks, st)) :
    (renderNode env (i + 6) (.comp name kwargs only dyn [.fill (.lit nm) none none fnodes]) ctx).run.run w =
      (.ok (.marker name w.nextId :: addRootAttrs [idAttr w.nextId] toks),
        { w with nextId := w.nextId + 1, steps := st, gcds := w.gcds + 1,
                 events := w.events ++ [.gcd w.nextId, .before w.nextId, .after w.nextId] }) := by
  have hst0 : ¬ w.steps ≥ env.maxSteps := by omega
  have hparent : (match ctxGet ctx' compKey with | some (.compRef p) => some p | _ => (none : Option Nat)) = none := by
    cases hg : ctxGet ctx' compKey with
    | none => rfl
    | some v => cases v <;> first | rfl | exact absurd hg (hpar _)
  have hextE : isExtracting (ctx ++ [[(fillGenKey, .fillGen)]]) = true := by
    unfold isExtracting ctxHas
    rw [ctxGet_append_one]
    simp [lookupL]
  unfold renderNode
  simp only [run_bind, run_get, hst0, ↓reduceIte, run_set]
  unfold renderCompTag
  simp only [hext, Bool.false_eq_true, ↓reduceIte, hd, run_bind, run_pure]
  unfold resolveFills
  simp only [List.isEmpty_cons, Bool.false_eq_true, ↓reduceIte, run_bind, run_get, run_modify, renderNodes, run_pure]
  unfold renderNode
  simp only [run_bind, run_get, hsteps, ↓reduceIte, run_set, hextE, Bool.not_true, Bool.false_eq_true, evalExpr, run_pure,
    Option.isSome_none, Bool.false_and, run_modify, hcap]
  have hdec : decideFills ([] ++ [{ name := nm, dataVar := none, defaultVar := none, nodes := fnodes, extra := [] }])
      [Node.fill (Expr.lit nm) none none fnodes] ([] ++ []) = .ok [(nm, theFill fnodes)] := by
    simp [decideFills, blankToks, sSet, fillOfCaptured]
  simp only [hdec, run_pure, ← hctx']
  have hun : FilledBy (fillCC name w.nextId ctx nm fnodes) nm fnodes (snapshot ctx) := ⟨rfl, rfl, ⟨rfl, hout⟩⟩
  have hinv : CInv w.nextId (fillCtx ctx' w.nextId (evalKwargs ctx kwargs) d nm fnodes) := by
    refine ⟨?_, hfg⟩
    unfold fillCtx
    rw [snapshot_get _ _ (by decide) (by decide), ctxGet_append_one]
    simp [lookupL]
  unfold renderImpl
  simp only [run_bind, run_genId, hparent, run_pure, Option.isNone_none, Bool.true_and, Option.isSome_none,
    Bool.false_eq_true, ↓reduceIte, hdyn, Bool.not_false]
  have htg := fun w' (h : w'.gcds < env.maxInst) => run_tick_gcd env w.nextId w' hr h
  have hgd := fun w' => getContextData_pure env w.nextId ctx' (evalKwargs ctx kwargs) d.data [] w' hsrc
  have hdel1 := alDel_alSet_fresh w.nextId (fillCC name w.nextId ctx nm fnodes) w.ctxCache hf1
  have hdel2 := alDel_alSet_fresh w.nextId (fillR name w.nextId ctx (fillCtx ctx' w.nextId (evalKwargs ctx kwargs) d nm fnodes) nm fnodes) w.rendererCache hf2
  have hdel3 := alDel_of_absent w.nextId w.childAttrs hf3
  cases hrc : hasRootRc ctx' with
  | true =>
    simp only [↓reduceIte, run_bind, run_modify, registerRefW, hprov, List.isEmpty_nil, htg, hgcd, hd, hgd, run_pure]
    refine (postRender_leaf_filled env i w.nextId (fillR name w.nextId ctx (fillCtx ctx' w.nextId (evalKwargs ctx kwargs) d nm fnodes) nm fnodes)
      (fillCC name w.nextId ctx nm fnodes) d (fillW w name ctx (fillCtx ctx' w.nextId (evalKwargs ctx kwargs) d nm fnodes) nm fnodes (w.rcLeak + 1 - 1)) toks st hr
      (alGet_alSet_same ..) rfl rfl hf3 nm fnodes (snapshot ctx) (alGet_alSet_same ..) hdyn hun hfp hfo hocfree hinv hf4 hd hp ho hc hok).trans ?_
    simp only [fillW, hdel1, hdel2, hdel3, List.append_assoc, List.cons_append, List.nil_append, Nat.add_sub_cancel, hprov]
  | false =>
    simp only [Bool.false_eq_true, ↓reduceIte, run_bind, run_modify, registerRefW, hprov, List.isEmpty_nil, htg, hgcd, hd, hgd, run_pure]
    refine (postRender_leaf_filled env i w.nextId (fillR name w.nextId ctx (fillCtx ctx' w.nextId (evalKwargs ctx kwargs) d nm fnodes) nm fnodes)
      (fillCC name w.nextId ctx nm fnodes) d (fillW w name ctx (fillCtx ctx' w.nextId (evalKwargs ctx kwargs) d nm fnodes) nm fnodes w.rcLeak) toks st hr
      (alGet_alSet_same ..) rfl rfl hf3 nm fnodes (snapshot ctx) (alGet_alSet_same ..) hdyn hun hfp hfo hocfree hinv hf4 hd hp ho hc hok).trans ?_
    simp only [fillW, hdel1, hdel2, hdel3, List.append_assoc, List.cons_append, List.nil_append, Nat.add_sub_cancel, hprov]

/-! ### the reading on the same tag -/

/-- the variables the reading gives the filled component's template -/
def specVarsF (lexical : Bool) (vars : Ctx) (id : Nat) (kw : List (Str × Val)) (d : CompDef) (nm : Str) : Ctx :=
  (if lexical then [[]] else vars) ++ [dataPure id kw d.data []] ++ [[(compVarsKey, .isFilled [escapeSlotName nm])]]

theorem betweenOf_length (vars : Ctx) : betweenOf vars.length vars = [] := by
  simp [betweenOf]

theorem sNode_filled (env : Env) (m : Nat) (name : Str) (kwargs : List (Str × Expr)) (only dyn : Bool) (nm : Str) (fnodes : List Node)
    (e : SEnv) (s : SState) (d : CompDef) (toks : List Tok) (st : Nat)
    (hd : findDef env name = some d) (hdyn : isDynName name = false)
    (hp : slottyL d.template = true) (hsrc : d.data.all (fun kv => pureSrc kv.2) = true)
    (hfp : plainL fnodes = true) (hfo : okNamesL fnodes = true)
    (hei : e.inst = none) (hefree : ctxFree e.vars = true)
    (hsteps : ¬ s.steps ≥ env.maxSteps) (hid : ¬ s.nextId > env.maxInst)
    (hc : ctxFree (specVarsF (only || env.isolated) e.vars s.nextId (evalKwargs e.vars kwargs) d nm) = true)
    (hok : fNodes false env.maxSteps nm fnodes (if env.isolated || (only || env.isolated) then some e.vars else none) (m + 2) d.template
      (specVarsF (only || env.isolated) e.vars s.nextId (evalKwargs e.vars kwargs) d nm) (s.steps + 1) = (.ok toks, st)) :
    ∃ s', (sNode env (m + 3) (.comp name kwargs only dyn [.fill (.lit nm) none none fnodes]) e).run s =
      .ok (.marker name s.nextId :: addRootAttrs [idAttr s.nextId] toks, s') := by
  unfold sNode
  simp only [srun_bind, srun_get, hsteps, ↓reduceIte, srun_set, hdyn, Bool.false_eq_true, srun_pure, hd, srun_modify,
    List.isEmpty_cons]
  simp only [sBody, srun_bind, evalExpr, srun_pure, Option.isSome_none, Bool.false_and, Bool.false_eq_true, ↓reduceIte,
    srun_modify, srun_get, betweenOf_length]
  simp only [List.nil_append, List.isEmpty_cons, Bool.false_eq_true, ↓reduceIte, List.all_nil, Bool.not_true, List.map_cons,
    List.map_nil, List.nodup_cons, List.not_mem_nil, not_false_eq_true, List.nodup_nil, and_self, decide_true, srun_pure,
    List.foldl_cons, List.foldl_nil, cSet, freshId, srun_bind, srun_get, hid, srun_set, dataOf_pure _ _ _ _ _ hsrc, srun_modify]
  have hv : ∀ (X : Ctx) p i dd, (SEnv.mk X p i dd).vars = X := fun _ _ _ _ => rfl
  have hsp := (spec_filled env (Inst.mk s.nextId [(nm, Closure.mk fnodes none none e [] none)]
      (List.length (if (only || env.isolated) = true then [[]] else e.vars)) (only || env.isolated)) nm fnodes e
      (if env.isolated || (only || env.isolated) then some e.vars else none) rfl hei rfl hfp hfo hefree (m + 2)).1
    d.template
    (SEnv.mk (specVarsF (only || env.isolated) e.vars s.nextId (evalKwargs e.vars kwargs) d nm) e.prov
      (some (Inst.mk s.nextId [(nm, Closure.mk fnodes none none e [] none)]
        (List.length (if (only || env.isolated) = true then [[]] else e.vars)) (only || env.isolated))) [])
    { nextId := s.nextId + 1, defaults := s.defaults, nextRef := s.nextRef, cap := s.cap, path := s.path ++ [name], steps := s.steps + 1, paths := s.paths ++ [s.path ++ [name]] }
    hp (by rw [hv]; exact hc) rfl
  obtain ⟨k, hsp⟩ := hsp
  rw [hv] at hsp
  have hcv : compVarsOf [(nm, Closure.mk fnodes none none e [] none)] = .isFilled [escapeSlotName nm] := rfl
  unfold specVarsF at hsp hok
  simp only [hcv]
  rw [hsp, hok]
  exact ⟨_, rfl⟩

/-! ### one named fill, end to end -/

theorem fill_sameVars (ctx' base : Ctx) (id : Nat) (kw : List (Str × Val)) (d : CompDef) (nm : Str) (fnodes : List Node)
    (hbase : ∀ k, internal k = false → ctxGet ctx' k = ctxGet base k) :
    SameVars (fillCtx ctx' id kw d nm fnodes)
      (base ++ [dataPure id kw d.data []] ++ [[(compVarsKey, .isFilled [escapeSlotName nm])]]) := by
  intro k hk
  unfold fillCtx
  rw [snapshot_get _ _ (ne_of_internal k permKey hk (by decide)) (Ne.symm (ne_of_internal k rcRootKey hk (by decide)))]
  rw [ctxGet_append_one, ctxGet_append_one, ctxGet_append_one, ctxGet_append_one, hbase k hk]
  have hck : ¬ compKey = k := ne_of_internal k compKey hk (by decide)
  simp only [lookupL, hck, ↓reduceIte]
  rfl

/-- **A named fill given to a component is what its slot prints — the model of the code and the reading agree, end to
end.**  `{% component name … %}{% fill "nm" %}…{% endfill %}{% endcomponent %}`, no enclosing component, the fill's
content in the plain fragment, the component's template in the slot fragment: the slot called `nm` prints the fill —
evaluated in the context at the component tag (isolated mode) or in the component's context (django mode) — every other
slot its own default content. -/
theorem filled_model_eq_spec (env : Env) (i : Nat) (name : Str) (kwargs : List (Str × Expr)) (only dyn : Bool)
    (nm : Str) (fnodes : List Node)
    (ctx ctx' : Ctx) (w : World) (e : SEnv) (s : SState) (d : CompDef) (toks : List Tok) (st : Nat)
    (hctx' : ctx' = if only || env.isolated then isolatedCopy ctx else ctx)
    (honly : only = false ∨ env.isolated = true)
    (hr : env.raiseAt = none) (hd : findDef env name = some d) (hdyn : isDynName name = false)
    (hp : slottyL d.template = true) (ho : okSL d.template = true) (hsrc : d.data.all (fun kv => pureSrc kv.2) = true)
    (hfp : plainL fnodes = true) (hfo : okNamesL fnodes = true)
    (hsteps : ¬ w.steps + 1 ≥ env.maxSteps) (hgcd : w.gcds < env.maxInst)
    (hext : isExtracting ctx = false)
    (hcap : capturedExtra (ctx ++ [[(fillGenKey, .fillGen)]]) = [])
    (hpar : ∀ p, ctxGet ctx' compKey ≠ some (.compRef p))
    (hout : ctxGet (snapshot ctx) compKey = none) (hocfree : ctxFree (snapshot ctx) = true)
    (hprov : w.provideCache = [])
    (hf1 : alGet w.nextId w.ctxCache = none) (hf2 : alGet w.nextId w.rendererCache = none)
    (hf3 : alGet w.nextId w.childAttrs = none) (hf4 : w.allRefIds.contains w.nextId = false)
    (hc : ctxFree (fillCtx ctx' w.nextId (evalKwargs ctx kwargs) d nm fnodes) = true)
    (hfg : ctxGet (fillCtx ctx' w.nextId (evalKwargs ctx kwargs) d nm fnodes) fillGenKey = none)
    (hok : fNodes true env.maxSteps nm fnodes (if env.isolated then some (snapshot ctx) else none) (i + 1) d.template
      (fillCtx ctx' w.nextId (evalKwargs ctx kwargs) d nm fnodes) (w.steps + 2) = (.ok toks, st))
    (he : e.vars = ctx) (hei : e.inst = none) (hefree : ctxFree ctx = true)
    (hsid : s.nextId = w.nextId) (hss : s.steps = w.steps + 1) (hidle : ¬ s.nextId > env.maxInst)
    (hc2 : ctxFree (specVarsF (only || env.isolated) ctx w.nextId (evalKwargs ctx kwargs) d nm) = true)
    (hbase : ∀ k, internal k = false → ctxGet ctx' k = ctxGet (if only || env.isolated then [[]] else ctx) k) :
    ((renderNode env (i + 6) (.comp name kwargs only dyn [.fill (.lit nm) none none fnodes]) ctx).run.run w).1 =
        .ok (.marker name w.nextId :: addRootAttrs [idAttr w.nextId] toks) ∧
      ∃ s', (sNode env (i + 6) (.comp name kwargs only dyn [.fill (.lit nm) none none fnodes]) e).run s =
        .ok (.marker name w.nextId :: addRootAttrs [idAttr w.nextId] toks, s') := by
  rw [filled_component env i name kwargs only dyn nm fnodes ctx ctx' w d toks st hctx' hr hd hdyn hp ho hsrc hfp hfo hsteps hgcd hext
    hcap hpar hout hocfree hprov hf1 hf2 hf3 hf4 hc hfg hok]
  refine ⟨rfl, ?_⟩
  subst he
  have hmode : (env.isolated || (only || env.isolated)) = env.isolated := by
    rcases honly with h | h <;> simp [h]
  have hrel : FcRel (if env.isolated then some (snapshot e.vars) else none)
      (if env.isolated || (only || env.isolated) then some e.vars else none) := by
    rw [hmode]
    cases env.isolated with
    | false => exact Or.inl ⟨rfl, rfl⟩
    | true =>
      refine Or.inr ⟨snapshot e.vars, e.vars, rfl, rfl, ?_⟩
      intro k hk
      exact snapshot_get _ _ (ne_of_internal k permKey hk (by decide)) (Ne.symm (ne_of_internal k rcRootKey hk (by decide)))
  have hsame := fill_sameVars ctx' (if only || env.isolated then [[]] else e.vars) w.nextId (evalKwargs e.vars kwargs) d nm fnodes hbase
  have h1 : fNodes true env.maxSteps nm fnodes (if env.isolated || (only || env.isolated) then some e.vars else none) (i + 1) d.template
      (specVarsF (only || env.isolated) e.vars w.nextId (evalKwargs e.vars kwargs) d nm) (w.steps + 2) = (.ok toks, st) := by
    rw [← hok]
    exact ((fNodes_same true env.maxSteps nm fnodes _ _ hrel hfp hfo (i + 1)).1 d.template _ _ _ hp ho hsame).symm
  have h2 : fNodes false env.maxSteps nm fnodes (if env.isolated || (only || env.isolated) then some e.vars else none) (i + 1 + 4) d.template
      (specVarsF (only || env.isolated) e.vars w.nextId (evalKwargs e.vars kwargs) d nm) (w.steps + 2) = (.ok toks, st) := by
    rw [(f_true_false env.maxSteps nm fnodes _ (i + 1)).1 d.template _ _ 4 (by rw [h1]; simp [notFuel]), h1]
  have hst : w.steps + 2 = s.steps + 1 := by omega
  rw [← hsid, hst] at h2
  rw [← hsid] at hc2
  obtain ⟨s', hs'⟩ := sNode_filled env (i + 3) name kwargs only dyn nm fnodes e s d toks st hd hdyn hp hsrc hfp hfo hei hefree
    (by rw [hss]; exact hsteps) hidle hc2 h2
  rw [← hsid]
  exact ⟨s', hs'⟩

end Djc.Proofs.Filled
